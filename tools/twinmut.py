#!/venv/bin/python
"""Mutant-on-twin composition: apply a behaviour-preserving refactoring (twins/<id>/patch.diff) and then a corpus mutant whose
snippet still occurs exactly once in the refactored tree.  The mutant must still be reported (the normaliser must not mask it).
usage: twinmut.py [twin-prefix ...]      prints MASKED (exit 0 of the property check), UNDECIDED (exit 2), and a summary."""
import os, shutil, subprocess, sys, tempfile
sys.path.insert(0, "/verif")
from concurrent.futures import ProcessPoolExecutor
from sa.selftest import mutants as M
from sa.selftest.corpus import patch_twins, make_variant_from_patch


def relocate(tmp, rel, old, touched):
    """The file of the snippet: the original file, or - if the refactoring moved the code - the unique file *touched by the
    refactoring* that contains it."""
    p = os.path.join(tmp, "src", "fast_ticc", rel)
    if os.path.exists(p) and open(p).read().count(old) == 1:
        return p
    if os.path.exists(p) and open(p).read().count(old) > 1:
        return None
    hits = []
    for d, _, fs in os.walk(os.path.join(tmp, "src", "fast_ticc")):
        for f in fs:
            if f.endswith(".py"):
                q = os.path.join(d, f)
                if os.path.relpath(q, tmp) in touched and open(q).read().count(old) == 1:
                    hits.append(q)
    return hits[0] if len(hits) == 1 else None


def one(args):
    tw, pf, mid, edits, expect = args
    tmp = make_variant_from_patch("/repo", pf)
    if tmp is None:
        return None
    try:
        touched = subprocess.run(["grep", "-E", r"^\+\+\+ b/", pf], capture_output=True, text=True).stdout
        applied = False
        for rel, old, new in edits:
            p = relocate(tmp, rel, old, touched)
            if p is None:
                return None
            s = open(p).read()
            open(p, "w").write(s.replace(old, new))
            if os.path.relpath(p, tmp) in touched or rel.split("/")[-1] in touched:
                applied = True
        if not applied:
            return None      # the mutant does not touch a refactored file: nothing new to learn
        out = []
        for pid, want in expect.items():
            if want is None:
                continue
            c = subprocess.run(["/venv/bin/python", "-m", "sa.check", pid, "--root", tmp, "--no-evidence"], cwd="/verif", capture_output=True, text=True)
            rules = sorted({l.split("rule=")[1].split()[0] for l in c.stdout.splitlines() if " rule=" in l and l.startswith("  ")})
            out.append((tw, mid, pid, want, c.returncode, rules))
        return out
    finally:
        shutil.rmtree(tmp, ignore_errors=True)


def main():
    only = sys.argv[1:]
    work = []
    for tw, pf in patch_twins():
        if only and not any(tw.startswith(o) for o in only):
            continue
        for m in M.MUTANTS:
            if all(v is None for v in m["expect"].values()):
                continue
            work.append((tw, pf, m["id"], m["edits"], m["expect"]))
    n = masked = und = okc = 0
    with ProcessPoolExecutor(14) as ex:
        for res in ex.map(one, work, chunksize=8):
            if not res:
                continue
            for tw, mid, pid, want, rc, rules in res:
                n += 1
                if rc == 1:
                    okc += 1
                elif rc == 0:
                    masked += 1
                    print(f"MASKED    {tw:8s} {mid:45s} {pid} want={want}")
                else:
                    und += 1
                    print(f"UNDECIDED {tw:8s} {mid:45s} {pid} want={want}")
    print(f"SUMMARY combos={n} detected={okc} undecided={und} masked={masked}")


if __name__ == "__main__":
    main()
