#!/venv/bin/python
"""Evaluate seeded changes (sub-agent patches) against the checks, on scratch copies.
usage: seedeval.py [--dir /tmp/seed|/verif/seeded] [Cxx ...] [--all-props]"""
import json, os, shutil, subprocess, sys, tempfile
sys.path.insert(0, "/verif")
from concurrent.futures import ProcessPoolExecutor

def implemented():
    from sa import rules
    from sa.report import RULES
    rules.load_all()
    return sorted(RULES)

def one(args):
    seed_dir, pid, mname, props = args
    patch = os.path.join(seed_dir, pid, mname, "patch.diff")
    tmp = tempfile.mkdtemp(prefix="sa_seed_")
    try:
        shutil.copytree("/repo/src", tmp + "/src", ignore=shutil.ignore_patterns("__pycache__"))
        shutil.copy("/repo/pyproject.toml", tmp)
        r = subprocess.run(["patch", "-p1", "-s", "-i", patch], cwd=tmp, capture_output=True, text=True)
        if r.returncode != 0:
            return (pid, mname, {"_": "patch failed: " + r.stdout[:100]})
        out = {}
        for p in props:
            c = subprocess.run(["/venv/bin/python", "-m", "sa.check", p, "--root", tmp, "--no-evidence"], cwd="/verif",
                               capture_output=True, text=True)
            viol = sorted({l.split("rule=")[1].split()[0] for l in c.stdout.splitlines() if " rule=" in l and l.startswith("  ")})
            errs = [l for l in c.stdout.splitlines() if l.startswith("ANALYSIS-ERROR")]
            out[p] = (c.returncode, viol, [e[:160] for e in errs[:2]])
        return (pid, mname, out)
    finally:
        shutil.rmtree(tmp, ignore_errors=True)

def main():
    args = sys.argv[1:]
    seed_dir = "/tmp/seed"
    if "--dir" in args:
        i = args.index("--dir"); seed_dir = args[i + 1]; del args[i:i + 2]
    allp = "--all-props" in args
    args = [a for a in args if not a.startswith("--")]
    impl = implemented()
    work = []
    for pid in sorted(os.listdir(seed_dir)):
        if not os.path.isdir(os.path.join(seed_dir, pid)) or (args and pid not in args):
            continue
        for m in sorted(os.listdir(os.path.join(seed_dir, pid))):
            if os.path.exists(os.path.join(seed_dir, pid, m, "patch.diff")):
                props = impl if allp else [p for p in [pid] if p in impl]
                work.append((seed_dir, pid, m, props))
    with ProcessPoolExecutor(8) as ex:
        for pid, m, out in ex.map(one, work):
            det = [f"{p}:{v[1]}" for p, v in out.items() if isinstance(v, tuple) and v[0] == 1]
            err = [f"{p}:{v[2]}" for p, v in out.items() if isinstance(v, tuple) and v[0] == 2]
            print(f"{pid}/{m}: {'DETECTED ' + ' '.join(det) if det else 'missed'} {'ERR ' + str(err) if err else ''} {out.get('_','')}")
main()
