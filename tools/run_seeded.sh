#!/bin/bash
# Apply every kept seeded change to /repo itself, run the property's quick check, undo the change, record the outcome in meta.json.
cd /verif
for d in seeded/*/; do
  id=$(basename $d); pid=${id%%-*}
  [ -f $d/patch.diff ] || continue
  git -C /repo checkout -q -- . ; git -C /repo apply /verif/$d/patch.diff || { echo "$id: patch does not apply"; continue; }
  out=$(/venv/bin/python -m sa.check $pid --tier quick --no-evidence 2>&1); rc=$?
  git -C /repo checkout -q -- .
  rules=$(echo "$out" | grep -o 'rule=C[0-9]*\.[A-Z0-9]*' | sort -u | tr '\n' ' ')
  /venv/bin/python - "$d/meta.json" "$rc" "$rules" <<'PY'
import json,sys
p,rc,rules=sys.argv[1],int(sys.argv[2]),sys.argv[3].split()
m=json.load(open(p)); m["check_on_repo"]={"cmd":"git -C /repo apply patch.diff; /venv/bin/python -m sa.check %s --tier quick; git -C /repo checkout -- ."%m["property"],"exit":rc,"violated_rules":[r.split("=")[1] for r in rules]}
json.dump(m,open(p,"w"),indent=1)
PY
  echo "$id exit=$rc $rules"
done
git -C /repo status --short | head -3
