#!/bin/sh
# usage: mktree.sh <patch.diff> [<patch2> ...]  -> prints scratch dir with /repo/src + patches applied
T=$(mktemp -d /tmp/sa_tree.XXXXXX)
cp -r /repo/src $T/ && cp /repo/pyproject.toml $T/
find $T -name __pycache__ -type d -exec rm -rf {} + 2>/dev/null
for p in "$@"; do (cd $T && patch -p1 -s -i "$p") || echo "PATCH FAILED $p" >&2; done
echo $T
