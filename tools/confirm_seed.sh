#!/bin/bash
# usage: confirm_seed.sh Cxx   -- confirm every seeded change of a property in its scratch worktree
# (demo fails with the change, passes without, full suite passes with the change)
P=$1
WT=${WTBASE:-/tmp/wt}/$P
[ -d $WT ] || git -C /repo worktree add -q --detach $WT HEAD
for M in ${SEEDBASE:-/tmp/seed}/$P/m*; do
  [ -f $M/patch.diff ] || continue
  [ -f $M/confirm.json ] && continue
  cd $WT && git checkout -q -- . && git clean -qfd
  if ! git apply --check $M/patch.diff 2>/dev/null; then echo "{\"applies\": false}" > $M/confirm.json; continue; fi
  git apply $M/patch.diff
  ( cd $WT && NUMBA_DISABLE_JIT=1 PYTHONPATH=$WT/src timeout 600 /venv/bin/python $M/demo.py >$M/demo_with.log 2>&1 ); W=$?
  ( cd /tmp && NUMBA_DISABLE_JIT=1 PYTHONPATH=/repo/src timeout 600 /venv/bin/python $M/demo.py >$M/demo_without.log 2>&1 ); WO=$?
  ( cd $WT && timeout 1800 /venv/bin/python -m pytest -q -p no:cacheprovider --timeout=900 2>&1 | tail -3 > $M/suite.log )
  PASSED=$(grep -o '[0-9]* passed' $M/suite.log | head -1 | cut -d' ' -f1)
  FAILED=$(grep -o '[0-9]* failed' $M/suite.log | head -1 | cut -d' ' -f1)
  echo "{\"applies\": true, \"demo_with_change_exit\": $W, \"demo_without_change_exit\": $WO, \"suite_passed\": ${PASSED:-0}, \"suite_failed\": ${FAILED:-0}}" > $M/confirm.json
  cd $WT && git checkout -q -- . && git clean -qfd
done
echo "confirmed $P"
