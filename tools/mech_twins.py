#!/venv/bin/python
"""CLI for sa/selftest/mechanical.py: all mechanical twins x all 20 checks.  usage: mech_twins.py [--kinds a,b] [--jobs N] [--max N] [--out FILE]"""
import sys
sys.path.insert(0, "/verif")
from sa.selftest.mechanical import main
main()
