#!/venv/bin/python
"""Run all 20 checks on behaviour-preserving refactorings (sub-agent patches): every check must stay silent."""
import os, shutil, subprocess, sys, tempfile
from concurrent.futures import ProcessPoolExecutor
PROPS = os.environ.get("REFAC_PROPS", "").split() or ["C%02d" % i for i in range(1, 21)]   # REFAC_PROPS="C05 C09": regress only those checks

def one(args):
    d, name = args
    patch = os.path.join(d, "patch.diff")
    tmp = tempfile.mkdtemp(prefix="sa_refac_")
    try:
        shutil.copytree("/repo/src", tmp + "/src", ignore=shutil.ignore_patterns("__pycache__"))
        shutil.copy("/repo/pyproject.toml", tmp)
        r = subprocess.run(["patch", "-p1", "-s", "-i", patch], cwd=tmp, capture_output=True, text=True)
        if r.returncode != 0:
            return name, {"_": "patch failed"}
        out = {}
        for p in PROPS:
            c = subprocess.run(["/venv/bin/python", "-m", "sa.check", p, "--root", tmp, "--no-evidence"], cwd="/verif", capture_output=True, text=True)
            if c.returncode != 0:
                lines = [l for l in c.stdout.splitlines() if l.startswith(("  src", "ANALYSIS-ERROR"))]
                out[p] = (c.returncode, [l[:230] for l in lines[:3]])
        return name, out
    finally:
        shutil.rmtree(tmp, ignore_errors=True)

base = sys.argv[1] if len(sys.argv) > 1 else "/verif/twins"
work = []
only = sys.argv[2:] 
for k in sorted(os.listdir(base)):
    d = os.path.join(base, k)
    if os.path.exists(os.path.join(d, "patch.diff")) and os.path.getsize(os.path.join(d, "patch.diff")) > 0:
        if not only or any(k.startswith(o) for o in only):
            work.append((d, k))
with ProcessPoolExecutor(int(os.environ.get("REFAC_JOBS", "12"))) as ex:
    for name, out in ex.map(one, work):
        if not out:
            print(f"{name}: silent on all {len(PROPS)}")
        else:
            for p, v in out.items():
                print(f"{name}: {p} -> {v}")
