#!/venv/bin/python
"""Regenerate MANIFEST.json from sa/props.py and the registered rules."""
import json, os, sys
sys.path.insert(0, "/verif")
from sa import rules
from sa.report import RULES
from sa.props import PROPS
rules.load_all()

BASE = "cd /repo && /venv/bin/python -m pytest -ra -q -p no:cacheprovider --timeout=900 --continue-on-collection-errors"
m = {
 "version": 1,
 "setup_cmd": "cd /verif && /venv/bin/python -m compileall -q sa >/dev/null && /venv/bin/python -m sa.selftest.engine",
 "hooks": {
  "guard": "FAST_TICC_VERIF",
  "enable": "no hook exists: the analyser only reads /repo's source files (stdlib ast), nothing in /repo is instrumented",
  "baseline_off_cmd": BASE,
  "source_commits": [],
  "add_only": True
 },
 "engines": [{
  "name": "sa",
  "path": "/verif/sa",
  "serves_properties": sorted(RULES),
  "kind_free_text": "repository-specific static analyser over stdlib ast: name/type resolution, CFG with exceptional edges, dominators, "
                    "reaching definitions, term reconstruction with polynomial normal forms, ownership analysis; rule modules sa/rules/cNN.py"
 }],
 "checks": [],
 "not_applicable": [],
 "notes": "All checks are static: they parse /repo/src/fast_ticc on every run and never import or execute it. Exit 2 + ANALYSIS-ERROR means "
          "'cannot decide' (fail closed), never a verdict. Known findings: /verif/known_findings.json. Design: /verif/DESIGN.md."
}
for pid in sorted(PROPS):
    meta = PROPS[pid]
    if pid in RULES and RULES[pid]:
        kinds = sorted({r.kind for r in RULES[pid]})
        m["checks"].append({
            "property_id": pid,
            "quick_cmd": f"/venv/bin/python -m sa.check {pid} --tier quick",
            "thorough_cmd": f"/venv/bin/python -m sa.check {pid} --tier thorough",
            "evidence_file": f"/verif/evidence/{pid}.json",
            "replay_cmd_template": "/venv/bin/python -m sa.check --replay {path}",
            "engine": "sa",
            "level_claimed": {
                "category": meta["level"],
                "text": ("Static conformance to a repository-specific rule set (" + ", ".join(r.rid for r in RULES[pid]) + "; kinds " + ", ".join(kinds) +
                         "). " + meta["explanation"] + " Each rule instance is an obligation discharged by the analyser on the current source; "
                         "the lemma in DESIGN 6 links the structural rule to the behavioural clause. Decides the structural necessary conditions, "
                         "not the runtime behaviour itself."),
                "design_ref": "DESIGN.md 5 (" + pid + "), 6"
            },
            "level_note": "Declined clauses (not decided statically): " + ("; ".join(meta["declined"]) or "none") +
                          ". Assumptions: " + "; ".join(meta["assumptions"][:3]),
            "technique": "static analysis: " + meta["technique"]
        })
    else:
        m["not_applicable"].append({"property_id": pid, "reason": "static rules designed (DESIGN.md 5) but not implemented yet; no claim is made"})
json.dump(m, open("/verif/MANIFEST.json", "w"), indent=1)
print(len(m["checks"]), "checks;", len(m["not_applicable"]), "not applicable")
