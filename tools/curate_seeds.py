#!/venv/bin/python
"""Copy confirmed seeded changes (sub-agent patches re-confirmed by tools/confirm_seed.sh) into /verif/seeded/<id>/."""
import json, os, re, shutil, subprocess, sys
SRC = [(b, t) for b, t in [("/tmp/seed", "m"), ("/tmp/seed2", "n"), ("/tmp/seed3", "p"), ("/tmp/seed4", "q"), ("/tmp/seed5", "r"), ("/tmp/seed6", "s"), ("/tmp/seed7", "t"), ("/tmp/seed8", "u")] if t in (sys.argv[1:] or ["m", "n", "p", "q", "r", "s", "t", "u"])]
DST = "/verif/seeded"
os.makedirs(DST, exist_ok=True)
kept = skipped = 0
for base, tag in SRC:
    if not os.path.isdir(base):
        continue
    for pid in sorted(os.listdir(base)):
        d = os.path.join(base, pid)
        if not re.fullmatch(r"C\d\d", pid):
            continue
        for m in sorted(os.listdir(d)):
            sd = os.path.join(d, m)
            cj = os.path.join(sd, "confirm.json")
            if not (os.path.isdir(sd) and os.path.exists(os.path.join(sd, "patch.diff")) and os.path.exists(cj)):
                continue
            c = json.load(open(cj))
            ok = c.get("applies") and c.get("demo_with_change_exit", 0) != 0 and c.get("demo_without_change_exit", 1) == 0 \
                and c.get("suite_passed", 0) >= 31 and c.get("suite_failed", 1) == 0
            # the patch must apply to the current /repo
            ap = subprocess.run(["git", "-C", "/repo", "apply", "--check", os.path.join(sd, "patch.diff")], capture_output=True)
            if not ok or ap.returncode != 0:
                skipped += 1
                print("skip", pid, m, c, "applies-to-repo" if ap.returncode == 0 else "does-not-apply-to-current-repo")
                continue
            sid = f"{pid}-{tag}{re.sub(r'[^0-9a-z]', '', m[1:])}"
            out = os.path.join(DST, sid)
            os.makedirs(out, exist_ok=True)
            shutil.copy(os.path.join(sd, "patch.diff"), out)
            shutil.copy(os.path.join(sd, "demo.py"), out)
            notes = open(os.path.join(sd, "notes.md")).read() if os.path.exists(os.path.join(sd, "notes.md")) else ""
            open(os.path.join(out, "notes.md"), "w").write(notes)
            meta_path = os.path.join(out, "meta.json")
            meta = json.load(open(meta_path)) if os.path.exists(meta_path) else {}
            meta.update({
                "id": sid, "property": pid, "origin": "independent sub-agent, round " + {"m": "1", "n": "2", "p": "3", "q": "4", "r": "5", "s": "6", "t": "7", "u": "8"}[tag] + " (given only the property text and a scratch worktree)",
                "summary": " ".join(notes.split())[:600],
                "confirmed_by_me": {
                    "how": "tools/confirm_seed.sh in a scratch worktree: git apply patch; run demo against the patched tree and against /repo; run the full suite on the patched tree",
                    "demo_with_change_exit": c["demo_with_change_exit"], "demo_without_change_exit": c["demo_without_change_exit"],
                    "suite_passed": c["suite_passed"], "suite_failed": c["suite_failed"]},
                "commands": {
                    "with_change": "git -C <worktree> apply patch.diff && NUMBA_DISABLE_JIT=1 PYTHONPATH=<worktree>/src /venv/bin/python demo.py   # exit != 0",
                    "without_change": "NUMBA_DISABLE_JIT=1 PYTHONPATH=/repo/src /venv/bin/python demo.py   # exit 0",
                    "suite": "cd <worktree> && /venv/bin/python -m pytest -q -p no:cacheprovider --timeout=900   # 31 passed"},
            })
            json.dump(meta, open(meta_path, "w"), indent=1)
            kept += 1
print("kept", kept, "skipped", skipped)
