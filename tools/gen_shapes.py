#!/venv/bin/python
"""Record the reference decomposition (run on the reference tree only): per function its parameters, internal/external
callees and callers.  Used to recognise a renamed / moved private helper on a later tree."""
import json, sys
sys.path.insert(0, "/verif")
from sa.build import Analysis
ana = Analysis("/repo")
shapes = {}
callers = {}
for q, f in sorted(ana.prog.functions.items()):
    cs = []
    for c in ana.res.calls(f):
        t = c.callee.func.qualname if c.callee.func is not None else (c.callee.target or "")
        if t:
            cs.append(t)
            if c.callee.func is not None:
                callers.setdefault(t, set()).add(q)
    shapes[q] = {"params": f.params, "annotations": [__import__("ast").unparse(f.param_annotation(p)) if f.param_annotation(p) is not None else "" for p in f.params], "callees": sorted(set(cs)), "cls": f.cls.qualname if f.cls else None, "kind": f.kind}
for q in shapes:
    shapes[q]["callers"] = sorted(callers.get(q, ()))
json.dump(shapes, open("/verif/sa/known_shapes.json", "w"), indent=0, sort_keys=True)
print(len(shapes), "functions")
from sa.similarity import canonical_lines
src = {q: canonical_lines(f.node) for q, f in sorted(ana.prog.functions.items())}
json.dump(src, open("/verif/sa/known_sources.json", "w"), indent=0, sort_keys=True)
print(sum(len(v) for v in src.values()), "reference statement lines")
