#!/venv/bin/python
"""Summarise tools/refaceval.py output over /verif/equivalents into equivalents/RESULTS.md (what each check answers on each
property-preserving re-formulation written by the round-3 sub-agents)."""
import os, re, sys
src = sys.argv[1] if len(sys.argv) > 1 else "/tmp/near_eval8.txt"
rows = {}
for l in open(src):
    m = re.match(r"(C\d\d-[ewa]\d): (?:silent on all 20|(C\d\d) -> \((\d),)", l)
    if not m:
        continue
    tw = m.group(1)
    rows.setdefault(tw, {})
    if m.group(2):
        rules = sorted(set(re.findall(r"rule=(C\d\d\.R\d+)", l)))
        rows[tw][m.group(2)] = ("VIOLATION" if m.group(3) == "1" else "cannot decide", rules)
with open("/verif/equivalents/RESULTS.md", "w") as f:
    f.write("# Property-preserving re-formulations (round 3) and what the checks answer\n\n"
            "Each directory holds a patch after which the property named by its prefix still holds (verified by the authoring sub-agent: identical digests against the\n"
            "unchanged library, suite 31/31) but the mechanism is written differently.  These are *not* part of the self-test: they document the limit of template rules.\n"
            "C17-e1, -e2 and -e4 were withdrawn: they re-formulate the index as it was before the repair of finding F10 (reading the stored cluster mean), which is now itself a violation.\n`silent` = all 20 checks exit 0; `cannot decide` = exit 2 (abstention); `VIOLATION` = a false alarm of the listed rules.\n\n"
            "| change | outcome | checks that are not silent |\n|---|---|---|\n")
    ns = nu = nv = 0
    for tw in sorted(rows):
        r = rows[tw]
        if not r:
            ns += 1
            f.write(f"| {tw} | silent | |\n")
            continue
        worst = "VIOLATION" if any(v[0] == "VIOLATION" for v in r.values()) else "cannot decide"
        nv += worst == "VIOLATION"
        nu += worst != "VIOLATION"
        f.write(f"| {tw} | {worst} | " + "; ".join(f"{p}: {v[0]} ({', '.join(v[1][:3])})" for p, v in sorted(r.items())) + " |\n")
    f.write(f"\n{len(rows)} changes: {ns} silent on all checks, {nu} answered with `cannot decide` by at least one check (no VIOLATION), {nv} raise a false VIOLATION.\n")
print(len(rows))
