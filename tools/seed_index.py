#!/venv/bin/python
"""Evaluate every kept seeded change (/verif/seeded/<id>) on a scratch copy and write seeded/INDEX.md + meta.json[detected_by]."""
import json, os, shutil, subprocess, sys, tempfile
from concurrent.futures import ProcessPoolExecutor
D = "/verif/seeded"

def one(sid):
    d = os.path.join(D, sid)
    pid = sid.split("-")[0]
    tmp = tempfile.mkdtemp(prefix="sa_seed_")
    try:
        shutil.copytree("/repo/src", tmp + "/src", ignore=shutil.ignore_patterns("__pycache__"))
        shutil.copy("/repo/pyproject.toml", tmp)
        r = subprocess.run(["patch", "-p1", "-s", "-i", os.path.join(d, "patch.diff")], cwd=tmp, capture_output=True, text=True)
        if r.returncode != 0:
            return sid, None, []
        c = subprocess.run(["/venv/bin/python", "-m", "sa.check", pid, "--root", tmp, "--no-evidence"], cwd="/verif", capture_output=True, text=True)
        rules = sorted({l.split("rule=")[1].split()[0] for l in c.stdout.splitlines() if l.startswith("  ") and " rule=" in l})
        return sid, c.returncode, rules
    finally:
        shutil.rmtree(tmp, ignore_errors=True)

ids = sorted(x for x in os.listdir(D) if os.path.isdir(os.path.join(D, x)))
rows = []
with ProcessPoolExecutor(8) as ex:
    for sid, rc, rules in ex.map(one, ids):
        mp = os.path.join(D, sid, "meta.json")
        m = json.load(open(mp))
        m["detected_by"] = {"check": m["property"], "exit": rc, "rules": rules, "how": "patch applied to a scratch copy of /repo/src; /venv/bin/python -m sa.check <property> --root <copy>"}
        json.dump(m, open(mp, "w"), indent=1)
        first = m.get("summary", "").split(" Change:")[0][:110]
        rows.append((sid, rc, rules, first))
with open(os.path.join(D, "INDEX.md"), "w") as f:
    f.write("# Seeded changes kept (each confirmed: demo fails with the change, passes without, suite 31/31 with the change)\n\n")
    f.write("| id | check exit | violated rules | what (from the author's notes) |\n|---|---|---|---|\n")
    for sid, rc, rules, first in rows:
        f.write(f"| {sid} | {rc} | {', '.join(rules) or '-'} | {first.replace('|', '/')} |\n")
    det = sum(1 for r in rows if r[1] == 1)
    f.write(f"\n{det} of {len(rows)} detected by the check of the property they were written against.\n")
print(sum(1 for r in rows if r[1] == 1), "of", len(rows))
for r in rows:
    if r[1] != 1:
        print("NOT DETECTED", r)
