"""How far is a function from its reference formulation?

Rules are templates of the reference formulation of each mechanism.  When a rule does not match, the mismatch is a *violation*
only if the function is still recognisably the reference function with a local deviation; if the function has been re-written
(most of its statements differ), a template mismatch carries no information about behaviour and the rule abstains
(`ANALYSIS-ERROR: cannot decide`).  This module measures the distance: statement lines of the (normalised) function, with local
names canonicalised by order of first appearance, compared with the lines recorded on the reference tree
(sa/known_sources.json, written by tools/gen_shapes.py)."""
from __future__ import annotations

import ast
import copy
import difflib
import json
import os
from typing import Dict, List, Optional, Tuple


def canonical_lines(fn: ast.FunctionDef) -> List[str]:
    fn = copy.deepcopy(fn)
    names: Dict[str, str] = {}

    def canon(nm: str) -> str:
        # every local collapses to one placeholder: a distance, not an equivalence - renaming or re-ordering statements must
        # not make unrelated lines differ
        return "_"
    local = set()
    a = fn.args
    for x in a.posonlyargs + a.args + a.kwonlyargs:
        local.add(x.arg)
    if a.vararg:
        local.add(a.vararg.arg)
    if a.kwarg:
        local.add(a.kwarg.arg)
    for n in ast.walk(fn):
        if isinstance(n, ast.Name) and isinstance(n.ctx, (ast.Store, ast.Del)):
            local.add(n.id)
        elif isinstance(n, ast.ExceptHandler) and n.name:
            local.add(n.name)

    class R(ast.NodeTransformer):
        def visit_Name(self, n):
            if n.id in local:
                n.id = canon(n.id)
            return n

        def visit_arg(self, n):
            if n.arg in local:
                n.arg = canon(n.arg)
            n.annotation = None
            return n

        def visit_ExceptHandler(self, n):
            if n.name and n.name in local:
                n.name = canon(n.name)
            return self.generic_visit(n)

        def visit_AnnAssign(self, n):
            self.generic_visit(n)
            if n.value is None:
                return None
            return ast.copy_location(ast.Assign([n.target], n.value), n)
    for x in a.posonlyargs + a.args + a.kwonlyargs:
        canon(x.arg)
    fn = R().visit(fn)
    ast.fix_missing_locations(fn)
    out: List[str] = []

    def is_log(st) -> bool:
        return isinstance(st, ast.Expr) and isinstance(st.value, ast.Call) and isinstance(st.value.func, ast.Attribute) \
            and st.value.func.attr in ("debug", "info", "warning") and "LOGGER" in ast.unparse(st.value.func.value).upper()

    def emit(stmts, depth):
        for i, st in enumerate(stmts):
            if i == 0 and isinstance(st, ast.Expr) and isinstance(st.value, ast.Constant) and isinstance(st.value.value, str):
                continue
            if isinstance(st, ast.Pass) or is_log(st):
                continue
            if isinstance(st, (ast.FunctionDef, ast.AsyncFunctionDef)):
                out.append(f"def {st.name}")
                emit(st.body, depth + 1)
            elif isinstance(st, ast.If):
                out.append("if " + ast.unparse(st.test))
                emit(st.body, depth + 1)
                if st.orelse:
                    out.append("else")
                    emit(st.orelse, depth + 1)
            elif isinstance(st, (ast.For, ast.AsyncFor)):
                out.append(f"for {ast.unparse(st.target)} in {ast.unparse(st.iter)}")
                emit(st.body, depth + 1)
                if st.orelse:
                    out.append("else")
                    emit(st.orelse, depth + 1)
            elif isinstance(st, ast.While):
                out.append("while " + ast.unparse(st.test))
                emit(st.body, depth + 1)
            elif isinstance(st, ast.Try):
                out.append("try")
                emit(st.body, depth + 1)
                for h in st.handlers:
                    out.append("except " + (ast.unparse(h.type) if h.type else ""))
                    emit(h.body, depth + 1)
                if st.orelse:
                    out.append("else")
                    emit(st.orelse, depth + 1)
                if st.finalbody:
                    out.append("finally")
                    emit(st.finalbody, depth + 1)
            elif isinstance(st, (ast.With, ast.AsyncWith)):
                out.append("with " + ", ".join(ast.unparse(i) for i in st.items))
                emit(st.body, depth + 1)
            else:
                out.append(ast.unparse(st))
    emit(fn.body, 0)
    return out


_REF = None


def reference_lines() -> Dict[str, List[str]]:
    global _REF
    if _REF is None:
        p = os.path.join(os.path.dirname(os.path.abspath(__file__)), "known_sources.json")
        _REF = json.load(open(p)) if os.path.exists(p) else {}
    return _REF


def distance(prog) -> Dict[str, Tuple[int, int, float]]:
    """qualname (reference name) -> (unmatched lines, reference size, similarity ratio) for every reference function that
    differs from its reference formulation on the analysed (normalised) tree; missing functions count as fully changed."""
    ref = reference_lines()
    inv = getattr(prog, "renamed", {})
    out = {}
    for q, rl in ref.items():
        f = prog.functions.get(q) or prog.functions.get(inv.get(q, ""))
        if f is None:
            out[q] = (len(rl), len(rl), 0.0, 0.0, len(rl))
            continue
        cl = canonical_lines(f.node)
        if cl == rl:
            continue
        sm = difflib.SequenceMatcher(None, rl, cl, autojunk=False)
        match = sum(b.size for b in sm.get_matching_blocks())
        unmatched = (len(rl) - match) + (len(cl) - match)
        out[q] = (unmatched, len(rl), sm.ratio(), match / max(1, len(rl)), len(rl) - match)
    return out
