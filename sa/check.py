"""CLI:  python -m sa.check <property> [--tier quick|thorough] [--root DIR] [--replay FILE]

exit 0  every obligation discharged (or only listed known findings failed)
exit 1  VIOLATION property=<id> replay=<path>
exit 2  ANALYSIS-ERROR (the analyser cannot decide; never a verdict)
"""
from __future__ import annotations

import argparse
import json
import os
import sys
import time
import traceback

from .loader import AnalysisError
from .report import (VERIF_DIR, Obligation, RULES, load_known_findings, match_known, run_rules)


def _props():
    from . import props
    return props.PROPS


def main(argv=None):
    ap = argparse.ArgumentParser()
    ap.add_argument("property", nargs="?")
    ap.add_argument("--tier", default=os.environ.get("VERIF_TIER", "quick"), choices=["quick", "thorough"])
    ap.add_argument("--root", default=os.environ.get("FAST_TICC_ROOT", "/repo"))
    ap.add_argument("--replay", default=None)
    ap.add_argument("--no-evidence", action="store_true")
    ap.add_argument("--rule", default=None)
    ap.add_argument("--verbose", "-v", action="store_true")
    a = ap.parse_args(argv)
    pid = a.property
    if a.replay:
        rp = json.load(open(a.replay))
        pid = rp["property"]
        a.rule = rp["rule"]
        a.no_evidence = True
        if "--root" not in (argv or sys.argv) and os.path.isdir(rp.get("root", "")) and os.environ.get("FAST_TICC_ROOT") is None:
            a.root = rp["root"]
        print(f"REPLAY property={pid} rule={a.rule} site={rp.get('site')} role={rp.get('role')} root={a.root}")
    if not pid:
        ap.error("property id required")
    try:
        return run(pid, a)
    except SystemExit:
        raise
    except BaseException as e:  # tracebacks must not look like violations
        print(f"ANALYSIS-ERROR property={pid} rule=- internal {type(e).__name__}: {e}")
        traceback.print_exc(file=sys.stderr)
        return 2


def run(pid, a):
    from .build import Analysis
    t0 = time.time()
    seed = int(os.environ.get("VERIF_SEED", "0") or 0)
    props = _props()
    if pid not in props:
        print(f"ANALYSIS-ERROR property={pid} rule=- unknown property")
        return 2
    meta = props[pid]
    try:
        ana = Analysis(a.root)
    except AnalysisError as e:
        print(f"ANALYSIS-ERROR property={pid} rule=loader {e}")
        return 2
    xc = None
    if a.tier == "thorough":
        from . import xcheck
        xcheck.install_eq_log()
    obls, notes = run_rules(ana, pid, only=a.rule)
    if a.tier == "thorough":
        from . import xcheck
        xcheck.uninstall_eq_log()
        xc = xcheck.recheck_identities()
        xc["bytecode"] = xcheck.recheck_reaching_defs(ana, pid) if hasattr(xcheck, "recheck_reaching_defs") else None
        for msg in xc["errors"]:
            obls.append(Obligation(pid, f"{pid}.XCHECK", "SELF", "xcheck", "error", msg))
        if xc.get("bytecode"):
            for msg in xc["bytecode"].get("errors", []):
                obls.append(Obligation(pid, f"{pid}.XCHECK", "SELF", "xcheck", "error", msg))
        xc["ownership_k"] = xcheck.recheck_ownership(ana, pid)
        for msg in xc["ownership_k"]["errors"]:
            obls.append(Obligation(pid, f"{pid}.XCHECK", "SELF", "xcheck", "error", msg))
    # positive examples for zero-count rules (must match on every run)
    from . import selfcheck
    pos = selfcheck.positive_examples(pid, a.root) if not a.rule else []
    for p in pos:
        if not p["fired"]:
            obls.append(Obligation(pid, p["rule"], "SELF", "selftest/positive/" + p["name"], "error",
                                   f"positive example {p['name']} no longer triggers {p['rule']}: the rule has gone blind"))
    findings = load_known_findings()
    fails = [o for o in obls if o.status == "fail"]
    errors = [o for o in obls if o.status == "error"]
    oks = [o for o in obls if o.status == "ok"]
    known, new = [], []
    for o in fails:
        (known if match_known(o, findings) else new).append(o)

    selftest = None
    if a.tier == "thorough" and not new and not a.rule:
        selftest = selfcheck.run_selftests(pid, a.root, ana)
        for msg in selftest.get("errors", []):
            if selftest.get("on_reference_tree"):
                errors.append(Obligation(pid, f"{pid}.SELFTEST", "SELF", "selftest", "error", msg))
            else:
                print(f"SELFTEST-WARNING property={pid} {msg}")

    for n in notes:
        print(f"NOTE: property={pid} {n}")
    for o in known:
        f = match_known(o, findings)
        print(f"KNOWN-FINDING: property={pid} rule={o.rule} site={o.site} [{f.get('id', '')}] {f.get('what', o.what)}")
    replay_dir = os.path.join(VERIF_DIR, "evidence", "replay")
    for k, o in enumerate(new):
        path = os.path.join(replay_dir, f"{pid}-{o.rule}-{k}.json")
        if not a.no_evidence or a.replay:
            pass
        try:
            os.makedirs(replay_dir, exist_ok=True)
            if not a.replay:
                json.dump({"property": pid, "rule": o.rule, "site": o.site, "role": o.role, "file": o.file,
                           "line": o.line, "what": o.what, "expected": o.expected, "found": o.found,
                           "root": os.path.abspath(a.root)}, open(path, "w"), indent=1)
        except OSError:
            pass
        print(f"VIOLATION property={pid} replay={path}")
        print(f"  {o.file}:{o.line} {o.site} rule={o.rule} [{o.kind}] {o.what}"
              + (f" | expected: {o.expected}" if o.expected else "") + (f" | found: {o.found}" if o.found else ""))
    for o in errors:
        print(f"ANALYSIS-ERROR property={pid} rule={o.rule} {o.what}")
    if a.verbose:
        for o in oks:
            print(f"  ok {o.rule} {o.site} {o.what}")

    wall = time.time() - t0
    if not a.no_evidence:
        write_evidence(pid, meta, a.tier, seed, ana, obls, known, new, errors, notes, selftest, wall, pos, xc)
    if new:
        return 1
    if errors:
        return 2
    print(f"OK property={pid} obligations={len(oks) + len(known)} discharged={len(oks)} known_findings={len(known)} "
          f"rules={len(RULES.get(pid, []))} wall={wall:.2f}s")
    return 0


def write_evidence(pid, meta, tier, seed, ana, obls, known, new, errors, notes, selftest, wall, pos, xc=None):
    oks = [o for o in obls if o.status == "ok"]
    real = [o for o in obls if o.status in ("ok", "fail")]
    distinct = {(o.rule, o.site, o.role, o.what) for o in real if o.nontrivial}
    # samples: a spread over rules (seed only chooses which ones are written out)
    by_rule = {}
    for o in real:
        by_rule.setdefault(o.rule, []).append(o)
    samples = []
    for r in sorted(by_rule):
        lst = by_rule[r]
        samples.append(lst[seed % len(lst)].to_json())
        if len(lst) > 1:
            samples.append(lst[(seed + 1) % len(lst)].to_json())
    for o in known + new:
        j = o.to_json()
        j["disposition"] = "KNOWN-FINDING" if o in known else "VIOLATION"
        samples.append(j)
    cov = {
        "explanation": meta["explanation"],
        "obligations": len(real),
        "discharged": len(oks),
        "evaluations": len(real),
        "distinct_nontrivial": len(distinct),
        "rule": ("one obligation per (rule, site, role) instance evaluated on /repo's current source; an obligation is "
                 "non-trivial when its decision consumed at least one resolved construct of /repo (term, path, "
                 "definition, call site); distinct = distinct (rule, site, role, statement) tuples"),
        "samples": samples[:40],
        "rules": sorted({o.rule for o in obls}),
        "rules_by_kind": {o.rule: o.kind for o in obls},
        "units": dict(ana.prog.unit_counts(), **ana.res.call_stats(), **ana.stats),
        "source_digest": ana.prog.digest(),
        "declined_clauses": meta.get("declined", []),
        "known_findings": [o.to_json() for o in known],
        "positive_examples": pos,
        "notes": notes,
        "analysis_errors": [o.what for o in errors],
        "exhaustive": False,
    }
    if xc is not None:
        cov["independent_rederivation"] = {k: (v if not isinstance(v, list) else v[:10]) for k, v in xc.items()}
    if selftest is not None:
        cov["selftest"] = {k: v for k, v in selftest.items() if k != "errors"}
        cov["selftest_errors"] = selftest.get("errors", [])
    ev = {
        "property_id": pid,
        "tier": tier,
        "seed": seed,
        "level": meta["level"],
        "coverage": cov,
        "assumptions": meta.get("assumptions", []),
        "wall_s": round(wall, 3),
        "violations": len(new),
    }
    if meta["level"] == "proof":
        cov["checker_cmd"] = f"/venv/bin/python -m sa.check {pid} --tier {tier}"
        cov["trusted_base"] = meta.get("trusted_base", [])
    d = os.path.join(VERIF_DIR, "evidence")
    os.makedirs(d, exist_ok=True)
    tmp = os.path.join(d, f".{pid}.json.tmp")
    json.dump(ev, open(tmp, "w"), indent=1, sort_keys=False)
    os.replace(tmp, os.path.join(d, f"{pid}.json"))


if __name__ == "__main__":
    sys.exit(main())
