"""Rule registry, obligations, known-findings matching, evidence writer."""
from __future__ import annotations

import ast
import json
import os
import re as _re
import time
import traceback
from dataclasses import dataclass, field
from typing import Callable, Dict, List, Optional

from .build import Analysis, Opaque
from .loader import AnalysisError, FuncInfo

VERIF_DIR = os.path.dirname(os.path.dirname(os.path.abspath(__file__)))


@dataclass
class Obligation:
    property_id: str
    rule: str
    kind: str
    site: str
    status: str            # ok | fail | error
    what: str
    file: str = ""
    line: int = 0
    role: str = ""
    expected: str = ""
    found: str = ""
    nontrivial: bool = True
    sample: Optional[dict] = None

    def ident(self):
        return (self.property_id, self.rule, self.site, self.role)

    def to_json(self):
        d = {"rule": self.rule, "kind": self.kind, "site": self.site, "status": self.status, "what": self.what}
        if self.file:
            d["file"] = self.file
            d["line"] = self.line
        if self.role:
            d["role"] = self.role
        if self.expected:
            d["expected"] = self.expected
        if self.found:
            d["found"] = self.found
        if self.sample:
            d["detail"] = self.sample
        return d


@dataclass
class RuleDef:
    property_id: str
    rid: str
    kind: str
    title: str
    fn: Callable
    floor: int = 1   # minimum number of obligations the rule must produce (no vacuous pass)
    evidence: bool = False   # failures name a construct that is wrong wherever it occurs (not a mismatch with a shape template)


RULES: Dict[str, List[RuleDef]] = {}


def rule(property_id: str, rid: str, kind: str, title: str, floor: int = 1, evidence: bool = False):
    def deco(fn):
        RULES.setdefault(property_id, []).append(RuleDef(property_id, f"{property_id}.{rid}", kind, title, fn, floor, evidence))
        fn._evidence = evidence
        return fn
    return deco


class RuleCtx:
    def __init__(self, ana: Analysis, rd: RuleDef):
        self.ana = ana
        self.rd = rd
        self.obls: List[Obligation] = []
        self.notes: List[str] = []
        self.evidence = rd.evidence

    def _site(self, site):
        if isinstance(site, FuncInfo):
            return site.qualname, site.relfile, site.node.lineno
        return str(site), "", 0

    def ok(self, site, what, role="", nontrivial=True, line=0, expected="", found="", **sample):
        q, f, l = self._site(site)
        if hasattr(line, "lineno"):
            line = line.lineno
        self.obls.append(Obligation(self.rd.property_id, self.rd.rid, self.rd.kind, q, "ok", what, f, line or l, role,
                                    str(expected)[:400], str(found)[:400] if found else (str(expected)[:400] if expected else ""),
                                    nontrivial=nontrivial, sample=_jsonable(sample) or None))

    OPAQUE_MARKERS = ("@phi", "@carried", "@undef", "@loop", "@exc", "@ctx", "local:", "<lambda@", "<call>", "<Name@", "<Await", "<Yield")

    def fail(self, site, what, line=0, role="", expected="", found="", template=None, **sample):
        """template: the term(s) the found value was compared with.  When given, and the found value mentions an opaque
        atom (loop-carried variable, unresolved callable ...) that the template does not, the comparison is undecided."""
        q, f, l = self._site(site)
        if hasattr(line, "lineno"):
            line = line.lineno
        ftxt = str(found)
        foreign = self._foreign_combinators(site) if getattr(self, "reformulable", False) else set()
        if foreign:
            # (only for rules that opt in - pure shape templates of a small sequence algorithm)
            # the function was re-formulated with an iteration combinator the reference formulation does not use: the rule's
            # template describes the reference formulation, so a mismatch says nothing about behaviour - undecided, not a verdict
            self.obls.append(Obligation(self.rd.property_id, self.rd.rid, self.rd.kind, q, "error",
                                        f"cannot decide `{what}`: {q.rsplit('.', 1)[-1]} is formulated with {', '.join(sorted(foreign))}, "
                                        f"which the reference formulation does not use; found {ftxt[:120]}", f, line or l, role))
            return
        if match_known(Obligation(self.rd.property_id, self.rd.rid, self.rd.kind, q, "fail", what, f, line or l, role), load_known_findings()):
            # a recorded finding is reported as such, however the code around it has been re-arranged
            self.obls.append(Obligation(self.rd.property_id, self.rd.rid, self.rd.kind, q, "fail", what, f, line or l, role,
                                        str(expected), str(found), sample=_jsonable(sample) or None))
            return
        if "@mutated" in ftxt and not self.evidence:
            self.obls.append(Obligation(self.rd.property_id, self.rd.rid, self.rd.kind, q, "error",
                                        f"cannot decide `{what}`: the value is completed by an in-place library call (numpy.fill_diagonal, numpy.putmask, out= ...) "
                                        f"that the term language does not model: {ftxt[:120]}", f, line or l, role))
            return
        rew = self._reformulated(site)
        if rew:
            self.obls.append(Obligation(self.rd.property_id, self.rd.rid, self.rd.kind, q, "error",
                                        f"cannot decide `{what}`: {rew}; this rule is a template of the reference formulation, so its mismatch "
                                        f"says nothing about behaviour here (found {ftxt[:100]})", f, line or l, role))
            return
        hit = []
        if template is not None:
            import re as _re
            toks = set(_re.findall(r"[\w.$]+@(?:phi|carried|undef|loop|exc|ctx)\w*|local:[\w.]+|<lambda@\d+>|<call>|<\w+@\d+>", ftxt))
            etxt = " ".join(str(t) for t in (template if isinstance(template, (list, tuple)) else [template]))
            hit = sorted(t for t in toks if t not in etxt)
        if hit:
            # the reconstructed value contains a construct the term language cannot express (loop-carried variable,
            # unresolved callable ...): the comparison is undecided, never a verdict
            self.obls.append(Obligation(self.rd.property_id, self.rd.rid, self.rd.kind, q, "error",
                                        f"cannot decide `{what}`: the reconstructed value is outside the term language ({hit[0]}): {ftxt[:160]}",
                                        f, line or l, role))
            return
        self.obls.append(Obligation(self.rd.property_id, self.rd.rid, self.rd.kind, q, "fail", what, f, line or l, role,
                                    str(expected), str(found), sample=_jsonable(sample) or None))

    COMBINATORS = ("itertools.", "functools.reduce", "builtins.zip", "builtins.map", "builtins.filter", "builtins.enumerate", "builtins.reversed",
                   "numpy.cumsum", "numpy.diff", "numpy.split", "numpy.array_split", "numpy.bincount", "numpy.unique", "numpy.add.reduceat",
                   "numpy.repeat", "numpy.concatenate", "numpy.searchsorted", "numpy.flatnonzero", "numpy.nonzero", "numpy.where", "numpy.einsum",
                   "numpy.tensordot", "numpy.vectorize", "numpy.apply_along_axis", "numpy.fromiter", "numpy.lib.stride_tricks.", "operator.",
                   "collections.")

    # Most rules compare the shape of a computation with a template of the reference formulation.  Rules registered with
    # evidence=True instead report a construct that is wrong wherever it occurs (a write to a caller-owned object found by the
    # ownership analysis, a handler that swallows an error, module-level state, a determinant formed, a path on which a phase is
    # skipped ...): those are never subject to the abstention below.
    # A function counts as re-written when at least REWRITE_MIN_LOST of its reference statement lines are gone and fewer than
    # REWRITE_MAX_RETAINED of them survive (lines compared with local names collapsed; added lines do not count: a regression
    # typically adds or tweaks a few statements, a re-formulation replaces them).  Calibrated on the independent rounds
    # (DESIGN 11.6): 4 of 114 seeded regressions and 57 of 76 equivalent re-formulations cross the line.
    REWRITE_MIN_LOST = 5
    REWRITE_MAX_RETAINED = 0.80

    def _reformulated(self, site) -> str:
        """Non-empty when the rule is a shape template and a function it looks at has been re-written beyond recognition
        (sa/similarity.py): the rule abstains instead of reporting a violation."""
        if self.evidence or not isinstance(site, FuncInfo):
            return ""
        ana = self.ana
        dist = ana.__dict__.get("_ref_distance")
        if dist is None:
            from .similarity import distance
            try:
                dist = distance(ana.prog)
            except Exception:
                dist = {}
            ana.__dict__["_ref_distance"] = dist
        if not dist:
            return ""
        heavy = {q: v for q, v in dist.items() if (v[4] >= self.REWRITE_MIN_LOST and v[3] < self.REWRITE_MAX_RETAINED)
                 or (v[4] >= self.REWRITE_MIN_LOST - 1 and v[3] <= 0.5)}      # a short function that lost half of its statements
        if not heavy:
            return ""
        cache = ana.__dict__.setdefault("_reach_cache", {})
        reach = cache.get(site.qualname)
        if reach is None:
            try:
                reach = {site.qualname} | set(ana.res.reachable([site.qualname]))
            except Exception:
                reach = {site.qualname}
            reach = {getattr(x, "qualname", x) for x in reach}
            cache[site.qualname] = reach
        inv = getattr(ana.prog, "renamed", {})
        rel = [q for q in heavy if q in reach or inv.get(q) in reach]
        if not rel:
            return ""
        q = sorted(rel, key=lambda k: -heavy[k][4])[0]
        return (f"{q.split('fast_ticc.')[-1]} has been re-written ({heavy[q][4]} of its {heavy[q][1]} reference statement lines are gone, "
                f"{heavy[q][3]:.0%} survive)")

    def _foreign_combinators(self, site):
        if not isinstance(site, FuncInfo):
            return set()
        cache = self.ana.__dict__.setdefault("_foreign_cache", {})
        if site.qualname in cache:
            return cache[site.qualname]
        out = set()
        try:
            shapes = self.ana.prog._reference_shapes()
            inv = {v: k for k, v in getattr(self.ana.prog, "renamed", {}).items()}
            refq = inv.get(site.qualname, site.qualname)
            ref = shapes.get(refq)
            if ref is not None:
                refc = set(ref["callees"])
                for c in self.ana.res.calls(site):
                    t = c.callee.target or ""
                    if c.callee.func is None and t not in refc and any(t == k or (k.endswith(".") and t.startswith(k)) for k in self.COMBINATORS):
                        out.add(t)
        except Exception:
            out = set()
        cache[site.qualname] = out
        return out

    def check(self, cond: bool, site, what, line=0, role="", expected="", found="", template=None, **sample):
        if cond:
            self.ok(site, what, role=role, line=line, expected=expected, found=found if found else "", **sample)
        else:
            self.fail(site, what, line=line, role=role, expected=expected, found=found, template=template, **sample)
        return cond

    def error(self, site, what, line=0):
        q, f, l = self._site(site)
        self.obls.append(Obligation(self.rd.property_id, self.rd.rid, self.rd.kind, q, "error", what, f, line or l))

    def note(self, msg):
        self.notes.append(msg)

    def unrecognised(self, site, what, line=0, role="", found=""):
        """The construct the rule reasons about was not found in the shape the rule knows.  That is not evidence of a violation
        (a change that simply removed the mechanism would not pass the library's own tests): the rule cannot decide."""
        q, f, l = self._site(site)
        if hasattr(line, "lineno"):
            line = line.lineno
        self.obls.append(Obligation(self.rd.property_id, self.rd.rid, self.rd.kind, q, "error",
                                    f"cannot decide: {what}" + (f" (found {str(found)[:120]})" if found else ""), f, line or l, role))

    def sub(self, fn, only=None, drop=None):
        """Run another rule function under this rule's id; a 'cannot decide' there does not stop the remaining obligations.
        only / drop: regular expressions matched at the start of the role - the including property keeps just the obligations that are necessary conditions of *it*
        (a sibling property's rule usually proves more than the includer needs)."""
        n0 = len(self.obls)
        saved_ev = self.evidence
        self.evidence = getattr(fn, "_evidence", False)
        try:
            fn(self)
        except (AnalysisError, Opaque) as e:
            self.error(self.rd.rid, f"cannot decide ({getattr(fn, '__module__', '').split('.')[-1]}.{getattr(fn, '__name__', '?')}): {e}")
        finally:
            self.evidence = saved_ev
        if only is not None or drop is not None:
            kept = []
            for o in self.obls[n0:]:
                if o.status != "error":
                    if only is not None and not any(_re.match(p_, o.role) for p_ in only):
                        continue
                    if drop is not None and any(_re.match(p_, o.role) for p_ in drop):
                        continue
                kept.append(o)
            self.obls[n0:] = kept


def _jsonable(d):
    out = {}
    for k, v in d.items():
        if isinstance(v, (str, int, float, bool)) or v is None:
            out[k] = v
        elif isinstance(v, (list, tuple)):
            out[k] = [str(x) for x in v]
        elif isinstance(v, dict):
            out[k] = {str(a): str(b) for a, b in v.items()}
        else:
            out[k] = str(v)
    return out


def run_rules(ana: Analysis, property_id: str, only: Optional[str] = None):
    """Run every rule of the property.  Returns (obligations, notes)."""
    from . import rules as _r  # noqa: F401  (registers)
    _r.load_all()
    obls: List[Obligation] = []
    notes: List[str] = []
    for rd in RULES.get(property_id, []):
        if only and rd.rid != only:
            continue
        ctx = RuleCtx(ana, rd)
        try:
            rd.fn(ctx)
        except (AnalysisError, Opaque) as e:
            ctx.error(rd.rid, f"cannot decide: {e}")
        except Exception as e:  # internal error: fail closed, never a verdict
            tb = traceback.format_exc().strip().split("\n")
            ctx.error(rd.rid, f"internal error {type(e).__name__}: {e} [{tb[-3].strip() if len(tb) >= 3 else ''}]")
        n_real = len([o for o in ctx.obls if o.status in ("ok", "fail")])
        if n_real < rd.floor and not any(o.status == "error" for o in ctx.obls):
            ctx.error(rd.rid, f"rule produced {n_real} obligations, below its floor of {rd.floor} (vacuous pass refused)")
        obls += ctx.obls
        notes += ctx.notes
    return obls, notes


def load_known_findings(path=None):
    path = path or os.path.join(VERIF_DIR, "known_findings.json")
    if not os.path.exists(path):
        return []
    return json.load(open(path))["findings"]


def match_known(o: Obligation, findings) -> Optional[dict]:
    for f in findings:
        if f.get("status") != "known":
            continue
        if (f["property"], f["rule"], f["site"], f.get("role", "")) == o.ident():
            return f
    return None
