"""L1: name resolution, light-weight type inference, call graph.

Types are inferred from annotations, constructor calls and container idioms only
(there is no mypy in this sandbox).  Everything that cannot be resolved is
reported as such; rules that depend on it fail closed.
"""
from __future__ import annotations

import ast
import builtins
from dataclasses import dataclass, field
from typing import Dict, List, Optional, Tuple

from .loader import AnalysisError, ClassInfo, FuncInfo, ModuleInfo, Program

BUILTINS = set(dir(builtins))

# ---------------------------------------------------------------------------
# type descriptors: tuples, hashable
T_UNKNOWN = ("unknown",)
T_NDARRAY = ("ndarray",)
T_INT = ("int",)
T_FLOAT = ("float",)
T_BOOL = ("bool",)
T_NONE = ("none",)
T_STR = ("str",)


def t_cls(q):
    return ("cls", q)


def t_list(t):
    return ("list", t)


def t_tuple(ts):
    return ("tuple", tuple(ts))


def t_ext(fq):
    return ("ext", fq)


@dataclass
class Callee:
    kind: str  # internal | ctor | external | builtin | method_internal | method_unknown | property_get | property_set | local | unknown
    target: Optional[str] = None  # qualname / fq name / method name
    func: Optional[FuncInfo] = None
    cls: Optional[ClassInfo] = None
    receiver: Optional[ast.expr] = None
    receiver_type: Tuple = T_UNKNOWN


@dataclass
class CallSite:
    caller: FuncInfo
    node: ast.AST
    callee: Callee
    # for indirect calls through pool.apply_async(f, args, kwargs): the bound
    # argument expressions (positional list, keyword dict) or None
    indirect: bool = False
    pos_args: Optional[List[ast.expr]] = None
    kw_args: Optional[Dict[str, ast.expr]] = None


class Resolver:
    def __init__(self, prog: Program):
        self.prog = prog
        self._envs: Dict[str, Dict[str, Tuple]] = {}
        self._calls: Dict[str, List[CallSite]] = {}
        self._env_in_progress = set()

    # ------------------------------------------------------------------ names
    def canonical(self, fq: str, depth=0) -> Tuple[str, str]:
        """Return (kind, canonical fq) with kind in
        function|class|module|global|external."""
        prog = self.prog
        if depth > 10:
            return ("external", fq)
        if fq in prog.functions:
            return ("function", fq)
        if fq in prog.classes:
            return ("class", fq)
        if fq in prog.modules:
            return ("module", fq)
        parts = fq.split(".")
        for k in range(len(parts) - 1, 0, -1):
            mod = ".".join(parts[:k])
            if mod in prog.modules:
                mi = prog.modules[mod]
                head = parts[k]
                rest = parts[k + 1:]
                if head in mi.functions:
                    q = mi.functions[head].qualname
                    return self.canonical(".".join([q] + rest), depth + 1) if rest else ("function", q)
                if head in mi.classes:
                    q = mi.classes[head].qualname
                    if not rest:
                        return ("class", q)
                    ci = mi.classes[head]
                    if len(rest) == 1 and rest[0] in ci.methods:
                        return ("function", ci.methods[rest[0]].qualname)
                    return ("external", fq)
                if head in mi.imports:
                    return self.canonical(".".join([mi.imports[head]] + rest), depth + 1)
                if head in mi.globals:
                    return ("global", ".".join([mod, head] + rest))
                return ("external", fq)
        return ("external", fq)

    def dotted(self, expr) -> Optional[List[str]]:
        parts = []
        while isinstance(expr, ast.Attribute):
            parts.append(expr.attr)
            expr = expr.value
        if isinstance(expr, ast.Name):
            parts.append(expr.id)
            return list(reversed(parts))
        return None

    def fq_of_expr(self, fi_or_mi, expr) -> Optional[Tuple[str, str]]:
        """Resolve a Name / dotted Attribute chain rooted in an import or a
        module-level symbol.  Returns (kind, fq) or None when the root is a
        local variable / not resolvable this way."""
        mi = fi_or_mi.module if isinstance(fi_or_mi, FuncInfo) else fi_or_mi
        d = self.dotted(expr)
        if d is None:
            return None
        root = d[0]
        if isinstance(fi_or_mi, FuncInfo) and root in self.local_names(fi_or_mi):
            return None
        if root in mi.imports:
            return self.canonical(".".join([mi.imports[root]] + d[1:]))
        if root in mi.functions or root in mi.classes or root in mi.globals:
            return self.canonical(".".join([mi.name] + d))
        if root in BUILTINS and len(d) == 1:
            return ("builtin", "builtins." + root)
        if root in BUILTINS:
            return ("builtin", "builtins." + ".".join(d))
        return None

    _locals_cache: Dict[str, set] = {}

    def local_names(self, fi: FuncInfo) -> set:
        c = self._locals_cache.get(fi.qualname + "@" + fi.module.path)
        if c is not None:
            return c
        names = set(fi.params)
        a = fi.node.args
        if a.vararg:
            names.add(a.vararg.arg)
        if a.kwarg:
            names.add(a.kwarg.arg)

        def targets(t):
            if isinstance(t, ast.Name):
                names.add(t.id)
            elif isinstance(t, (ast.Tuple, ast.List)):
                for e in t.elts:
                    targets(e)
            elif isinstance(t, ast.Starred):
                targets(t.value)

        for n in self.walk_own(fi.node):
            if isinstance(n, ast.Assign):
                for t in n.targets:
                    targets(t)
            elif isinstance(n, (ast.AugAssign, ast.AnnAssign)):
                targets(n.target)
            elif isinstance(n, (ast.For, ast.comprehension)):
                targets(n.target)
            elif isinstance(n, ast.With):
                for it in n.items:
                    if it.optional_vars is not None:
                        targets(it.optional_vars)
            elif isinstance(n, ast.ExceptHandler) and n.name:
                names.add(n.name)
            elif isinstance(n, (ast.FunctionDef, ast.ClassDef)) and n is not fi.node:
                names.add(n.name)
            elif isinstance(n, ast.NamedExpr):
                targets(n.target)
            elif isinstance(n, (ast.Import, ast.ImportFrom)):
                for al in n.names:
                    names.add((al.asname or al.name).split(".")[0])
        self._locals_cache[fi.qualname + "@" + fi.module.path] = names
        return names

    @staticmethod
    def walk_own(fnode):
        """Walk a function body without descending into nested function/class
        definitions (their names are still yielded)."""
        stack = list(reversed(fnode.body))
        # include comprehension nodes etc. through generic traversal
        while stack:
            n = stack.pop()
            yield n
            if isinstance(n, (ast.FunctionDef, ast.AsyncFunctionDef, ast.ClassDef, ast.Lambda)):
                continue
            stack.extend(reversed(list(ast.iter_child_nodes(n))))

    # ------------------------------------------------------------------ types
    def ann_type(self, mi: ModuleInfo, ann) -> Tuple:
        if ann is None:
            return T_UNKNOWN
        if isinstance(ann, ast.Constant):
            if ann.value is None:
                return T_NONE
            if isinstance(ann.value, str):
                try:
                    return self.ann_type(mi, ast.parse(ann.value, mode="eval").body)
                except SyntaxError:
                    return T_UNKNOWN
            return T_UNKNOWN
        if isinstance(ann, ast.Subscript):
            d = self.dotted(ann.value)
            head = d[-1] if d else None
            sl = ann.slice
            if head in ("List", "list", "Sequence", "Iterable"):
                return t_list(self.ann_type(mi, sl))
            if head == "Optional":
                return self.ann_type(mi, sl)
            if head in ("Tuple", "tuple"):
                elts = sl.elts if isinstance(sl, ast.Tuple) else [sl]
                return t_tuple([self.ann_type(mi, e) for e in elts])
            if head == "Union":
                elts = sl.elts if isinstance(sl, ast.Tuple) else [sl]
                ts = [self.ann_type(mi, e) for e in elts]
                return ("union", tuple(ts))
            return T_UNKNOWN
        d = self.dotted(ann)
        if d is None:
            return T_UNKNOWN
        if d == ["int"]:
            return T_INT
        if d == ["float"]:
            return T_FLOAT
        if d == ["bool"]:
            return T_BOOL
        if d == ["str"]:
            return T_STR
        r = None
        if d[0] in mi.imports:
            r = self.canonical(".".join([mi.imports[d[0]]] + d[1:]))
        elif d[0] in mi.classes:
            r = self.canonical(".".join([mi.name] + d))
        elif d[0] in mi.globals:
            # type alias at module level, e.g. TaskList = List[...]
            st = mi.globals[d[0]]
            if isinstance(st, ast.Assign):
                return self.ann_type(mi, st.value)
        if r is None:
            return T_UNKNOWN
        kind, fq = r
        if kind == "class":
            return t_cls(fq)
        if kind == "global":
            mod, name = fq.rsplit(".", 1)
            st = self.prog.modules[mod].globals.get(name)
            if isinstance(st, ast.Assign):
                return self.ann_type(self.prog.modules[mod], st.value)
            return T_UNKNOWN
        if fq in ("numpy.ndarray",):
            return T_NDARRAY
        return t_ext(fq)

    def env(self, fi: FuncInfo) -> Dict[str, Tuple]:
        key = fi.qualname
        if key in self._envs:
            return self._envs[key]
        if key in self._env_in_progress:
            return {}
        self._env_in_progress.add(key)
        env: Dict[str, Tuple] = {}
        for p in fi.params:
            env[p] = self.ann_type(fi.module, fi.param_annotation(p))
        if fi.cls is not None and fi.kind in ("method", "property", "setter") and fi.params:
            env[fi.params[0]] = t_cls(fi.cls.qualname)
        if fi.parent is not None:
            for k, v in self.env(fi.parent).items():
                env.setdefault(k, v)
        self._envs[key] = env
        for _ in range(3):
            changed = False
            for n in self.walk_own(fi.node):
                upd = []
                if isinstance(n, ast.Assign) and len(n.targets) == 1:
                    upd = self._bind(n.targets[0], self.type_of(fi, n.value))
                elif isinstance(n, ast.AnnAssign) and isinstance(n.target, ast.Name):
                    upd = [(n.target.id, self.ann_type(fi.module, n.annotation))]
                elif isinstance(n, (ast.For, ast.comprehension)):
                    upd = self._bind(n.target, self._elem_type(self.type_of(fi, n.iter), n.iter, fi))
                for name, t in upd:
                    if t != T_UNKNOWN and env.get(name, T_UNKNOWN) == T_UNKNOWN:
                        env[name] = t
                        changed = True
            if not changed:
                break
        self._env_in_progress.discard(key)
        return env

    def _bind(self, target, t):
        if isinstance(target, ast.Name):
            return [(target.id, t)]
        if isinstance(target, (ast.Tuple, ast.List)):
            out = []
            if t[0] == "tuple" and len(t[1]) == len(target.elts):
                for e, te in zip(target.elts, t[1]):
                    out += self._bind(e, te)
            else:
                for e in target.elts:
                    out += self._bind(e, T_UNKNOWN)
            return out
        return []

    def _elem_type(self, t_iter, iter_expr, fi):
        if isinstance(iter_expr, ast.Call):
            r = self.fq_of_expr(fi, iter_expr.func)
            if r and r[1] == "builtins.enumerate" and iter_expr.args:
                return t_tuple([T_INT, self._elem_type(self.type_of(fi, iter_expr.args[0]), iter_expr.args[0], fi)])
            if r and r[1] == "builtins.zip":
                return t_tuple([self._elem_type(self.type_of(fi, a), a, fi) for a in iter_expr.args])
            if r and r[1] in ("builtins.range", "fast_ticc.numba_guard.prange"):
                return T_INT
        if t_iter[0] == "list":
            return t_iter[1]
        return T_UNKNOWN

    def type_of(self, fi: FuncInfo, e) -> Tuple:
        env = self.env(fi)
        if isinstance(e, ast.Name):
            return env.get(e.id, T_UNKNOWN)
        if isinstance(e, ast.Constant):
            v = e.value
            if v is None:
                return T_NONE
            if isinstance(v, bool):
                return T_BOOL
            if isinstance(v, int):
                return T_INT
            if isinstance(v, float):
                return T_FLOAT
            if isinstance(v, str):
                return T_STR
            return T_UNKNOWN
        if isinstance(e, ast.Attribute):
            tv = self.type_of(fi, e.value)
            if tv[0] == "cls":
                ci = self.prog.classes.get(tv[1])
                if ci:
                    if e.attr in ci.properties:
                        p = ci.properties[e.attr]
                        return self.ann_type(p.module, p.node.returns)
                    if e.attr in ci.fields:
                        return self.ann_type(ci.module, ci.fields[e.attr])
            return T_UNKNOWN
        if isinstance(e, ast.Subscript):
            tv = self.type_of(fi, e.value)
            if tv[0] == "list":
                return tv if isinstance(e.slice, ast.Slice) else tv[1]
            if tv[0] == "tuple" and isinstance(e.slice, ast.Constant) and isinstance(e.slice.value, int):
                i = e.slice.value
                if -len(tv[1]) <= i < len(tv[1]):
                    return tv[1][i]
            if tv == T_NDARRAY:
                return T_NDARRAY
            return T_UNKNOWN
        if isinstance(e, ast.ListComp):
            return t_list(self.type_of(fi, e.elt))
        if isinstance(e, ast.List):
            ts = {self.type_of(fi, x) for x in e.elts}
            return t_list(ts.pop() if len(ts) == 1 else T_UNKNOWN)
        if isinstance(e, ast.Tuple):
            return t_tuple([self.type_of(fi, x) for x in e.elts])
        if isinstance(e, ast.Call):
            c = self.callee(fi, e)
            if c.kind == "ctor":
                return t_cls(c.cls.qualname)
            if c.kind in ("internal", "method_internal") and c.func is not None:
                return self.ann_type(c.func.module, c.func.node.returns)
            if c.kind in ("external", "builtin"):
                if c.target == "builtins.list" and e.args:
                    t = self.type_of(fi, e.args[0])
                    return t if t[0] == "list" else t_list(T_UNKNOWN)
                if c.target == "builtins.sorted" and e.args:
                    t = self.type_of(fi, e.args[0])
                    return t if t[0] == "list" else t_list(T_UNKNOWN)
                if c.target in ("copy.copy", "copy.deepcopy") and e.args:
                    return self.type_of(fi, e.args[0])
                if c.target == "multiprocessing.Pool":
                    return t_ext("multiprocessing.Pool")
                if c.target and c.target.startswith("numpy."):
                    return T_NDARRAY
            if c.kind == "method_unknown" and c.target == "apply_async":
                return t_ext("multiprocessing.pool.AsyncResult")
            return T_UNKNOWN
        if isinstance(e, ast.BinOp):
            tl = self.type_of(fi, e.left)
            tr = self.type_of(fi, e.right)
            if tl[0] == "list" and isinstance(e.op, (ast.Add, ast.Mult)):
                return tl
            if tr[0] == "list" and isinstance(e.op, ast.Mult):
                return tr
            if T_NDARRAY in (tl, tr):
                return T_NDARRAY
            return T_UNKNOWN
        if isinstance(e, ast.IfExp):
            a = self.type_of(fi, e.body)
            return a if a != T_UNKNOWN else self.type_of(fi, e.orelse)
        return T_UNKNOWN

    # ------------------------------------------------------------------ calls
    def callee(self, fi: FuncInfo, call: ast.Call) -> Callee:
        f = call.func
        r = self.fq_of_expr(fi, f)
        if r is not None:
            kind, fq = r
            if kind == "function":
                return Callee("internal", fq, func=self.prog.functions[fq])
            if kind == "class":
                return Callee("ctor", fq, cls=self.prog.classes[fq])
            if kind == "builtin":
                return Callee("builtin", fq)
            if kind == "global":
                return Callee("global", fq)
            return Callee("external", fq)
        if isinstance(f, ast.Name):
            # local variable holding a function: nested def, or alias of a resolvable name
            for q, g in self.prog.functions.items():
                if g.parent is fi and g.name == f.id:
                    return Callee("internal", q, func=g)
            alias = self._local_alias(fi, f.id)
            if alias is not None:
                kind, fq = alias
                if kind == "function":
                    return Callee("internal", fq, func=self.prog.functions[fq])
                return Callee("external" if kind != "builtin" else "builtin", fq)
            return Callee("local", f.id)
        if isinstance(f, ast.Attribute):
            rt = self.type_of(fi, f.value)
            if rt[0] == "cls":
                ci = self.prog.classes.get(rt[1])
                if ci and f.attr in ci.methods:
                    return Callee("method_internal", ci.methods[f.attr].qualname, func=ci.methods[f.attr],
                                  cls=ci, receiver=f.value, receiver_type=rt)
                if ci and ci.is_dataclass and f.attr in ("__init__",):
                    return Callee("ctor", ci.qualname, cls=ci)
            return Callee("method_unknown", f.attr, receiver=f.value, receiver_type=rt)
        return Callee("unknown")

    def _local_alias(self, fi: FuncInfo, name: str):
        defs = []
        for n in self.walk_own(fi.node):
            if isinstance(n, ast.Assign):
                for t in n.targets:
                    if isinstance(t, ast.Name) and t.id == name:
                        defs.append(n.value)
            elif isinstance(n, (ast.For, ast.AugAssign, ast.AnnAssign)):
                t = n.target
                if isinstance(t, ast.Name) and t.id == name:
                    defs.append(None)
        if len(defs) == 1 and defs[0] is not None and isinstance(defs[0], (ast.Name, ast.Attribute)):
            d = self.dotted(defs[0])
            if d and d[0] != name:
                mi = fi.module
                if d[0] in mi.imports:
                    return self.canonical(".".join([mi.imports[d[0]]] + d[1:]))
        return None

    def calls(self, fi: FuncInfo) -> List[CallSite]:
        key = fi.qualname
        if key in self._calls:
            return self._calls[key]
        out: List[CallSite] = []
        for n in self.walk_own(fi.node):
            if isinstance(n, ast.Call):
                c = self.callee(fi, n)
                out.append(CallSite(fi, n, c))
                # indirect: pool.apply_async(f, args, kwargs)
                if isinstance(n.func, ast.Attribute) and n.func.attr in ("apply_async", "apply", "map", "map_async",
                                                                       "imap", "imap_unordered", "starmap",
                                                                       "starmap_async", "submit") and n.args:
                    r = self.fq_of_expr(fi, n.args[0])
                    if r and r[0] == "function":
                        out.append(CallSite(fi, n, Callee("internal", r[1], func=self.prog.functions[r[1]]),
                                            indirect=True))
            elif isinstance(n, ast.Attribute):
                rt = self.type_of(fi, n.value)
                if rt[0] == "cls":
                    ci = self.prog.classes.get(rt[1])
                    if ci:
                        if isinstance(n.ctx, ast.Load) and n.attr in ci.properties:
                            p = ci.properties[n.attr]
                            out.append(CallSite(fi, n, Callee("property_get", p.qualname, func=p, cls=ci,
                                                              receiver=n.value, receiver_type=rt)))
                        elif isinstance(n.ctx, ast.Store) and n.attr in ci.setters:
                            p = ci.setters[n.attr]
                            out.append(CallSite(fi, n, Callee("property_set", p.qualname, func=p, cls=ci,
                                                              receiver=n.value, receiver_type=rt)))
        # decorators and nested functions are separate FuncInfos
        self._calls[key] = out
        return out

    def call_graph(self) -> Dict[str, set]:
        g: Dict[str, set] = {}
        for q, fi in self.prog.functions.items():
            s = set()
            for cs in self.calls(fi):
                if cs.callee.func is not None:
                    s.add(cs.callee.func.qualname)
                elif cs.callee.kind == "ctor" and cs.callee.cls is not None:
                    init = cs.callee.cls.methods.get("__init__")
                    if init is not None:
                        s.add(init.qualname)
            # nested functions are reachable from their parent
            for q2, g2 in self.prog.functions.items():
                if g2.parent is fi:
                    s.add(q2)
            g[q] = s
        return g

    def reachable(self, roots: List[str]) -> set:
        g = self.call_graph()
        seen = set()
        stack = [self.prog.func(r).qualname for r in roots]
        while stack:
            q = stack.pop()
            if q in seen:
                continue
            seen.add(q)
            stack.extend(g.get(q, ()))
        return seen

    def call_stats(self):
        tot = internal = external = unknown = 0
        ext = set()
        for fi in self.prog.functions.values():
            for cs in self.calls(fi):
                if not isinstance(cs.node, ast.Call) or cs.indirect:
                    continue
                tot += 1
                k = cs.callee.kind
                if k in ("internal", "ctor", "method_internal"):
                    internal += 1
                elif k in ("external", "builtin", "global"):
                    external += 1
                    ext.add(cs.callee.target)
                else:
                    unknown += 1
        return {"call_sites": tot, "resolved_internal": internal, "resolved_external": external,
                "method_on_untyped_receiver_or_local": unknown, "distinct_external_callees": len(ext)}
