"""The corpus.  M(id, expect, (file, old, new), ...)."""
MUTANTS = []


def M(mid, expect, *edits):
    MUTANTS.append({"id": mid, "expect": expect, "edits": list(edits)})


# ---------------------------------------------------------------- C20
M("C20-release-only-on-success", {"C20": "C20.R1"},
  ("main_loop.py", "    except BaseException:\n        # Do not leave worker processes behind when a round fails\n        task_pool.terminate()\n        task_pool.join()\n        raise\n",
   "    except BaseException:\n        raise\n"))
M("C20-release-after-metrics", {"C20": "C20.R1"},
  ("main_loop.py", "    # This will trigger pycov/coverage's handlers to record test coverage\n    task_pool.close()\n    task_pool.join()\n", ""),
  ("main_loop.py", "    labels = [-1] * num_data_points\n", "    task_pool.close()\n    task_pool.join()\n    labels = [-1] * num_data_points\n"))
M("C20-no-join-after-terminate", {"C20": "C20.R1"},
  ("main_loop.py", "        task_pool.terminate()\n        task_pool.join()\n        raise\n", "        task_pool.terminate()\n        raise\n"))
M("C20-handler-narrowed-to-Exception", {"C20": "C20.R1"},
  ("main_loop.py", "    except BaseException:\n", "    except RuntimeError:\n"))
M("C20-swallow-worker-error", {"C20": "C20.R2"},
  ("graphical_lasso.py", "        admm_result = optimization_task.get()\n        updated_clusters.append(\n            _update_cluster_covariances(model, cluster, admm_result.theta)\n        )\n",
   "        try:\n            admm_result = optimization_task.get()\n        except Exception:\n            updated_clusters.append(cluster)\n            continue\n        updated_clusters.append(\n            _update_cluster_covariances(model, cluster, admm_result.theta)\n        )\n"))
M("C20-timed-get", {"C20": "C20.R2"},
  ("graphical_lasso.py", "optimization_task.get()", "optimization_task.get(timeout=600)"))
M("C20-mainloop-inside-translator", {"C20": "C20.R3"},
  ("front_end.py", "        stacked_data = data_preparation.stack_training_data(\n            data_series, window_size)\n    except AttributeError as not_a_numpy_array:",
   "        stacked_data = data_preparation.stack_training_data(\n            data_series, window_size)\n        ticc_result = main_loop.fit_stacked_data(params, stacked_data)\n    except AttributeError as not_a_numpy_array:"),
  ("front_end.py", "    ticc_result = main_loop.fit_stacked_data(params, stacked_data)\n    ticc_result.point_labels", "    ticc_result.point_labels"))
M("C20-translator-names-self", {"C20": "C20.R3"},
  ("front_end.py", "array.  Did you mean to call ticc_joint_labels instead?", "array.  Did you mean to call ticc_labels instead?"))
M("C20-translator-drops-cause", {"C20": "C20.R3"},
  ("front_end.py", "        )) from not_a_numpy_array\n", "        ))\n"))
M("C20-donor-shortage-returns", {"C20": "C20.R4"},
  ("cluster_maintenance.py", "    raise RuntimeError((\n        f\"Unable to find a donor cluster with at least \"\n        f\"{2 * min_cluster_size} points.  You may have set \"\n        f\"min_cluster_size too high.\"\n    ))\n",
   "    LOGGER.warning(\"Unable to find a donor cluster\")\n    return (potential_donor_ids[0], [])\n"))
M("C20-module-cache-of-last-model", {"C20": "C20.R5", "C14": "C14.R6"},
  ("main_loop.py", "LOGGER = logging.getLogger(__name__)\n", "LOGGER = logging.getLogger(__name__)\n_LAST_STATE = {}\n"),
  ("main_loop.py", "    # We will use this to detect convergence\n", "    _LAST_STATE['model'] = current_model_state\n    # We will use this to detect convergence\n"))
# twins
M("C20-twin-finally", {"C20": None},
  ("main_loop.py", "    except BaseException:\n        # Do not leave worker processes behind when a round fails\n        task_pool.terminate()\n        task_pool.join()\n        raise\n\n    # This will trigger pycov/coverage's handlers to record test coverage\n    task_pool.close()\n    task_pool.join()\n",
   "    finally:\n        task_pool.close()\n        task_pool.join()\n"))
M("C20-twin-rename-pool", {"C20": None, "C14": None},
  ("main_loop.py", "    task_pool = _init_task_pool(current_model_state.arguments.num_processors)", "    workers = _init_task_pool(current_model_state.arguments.num_processors)"),
  ("main_loop.py", "current_model_state, stacked_training_data, task_pool\n", "current_model_state, stacked_training_data, workers\n"),
  ("main_loop.py", "        task_pool.terminate()\n        task_pool.join()\n", "        workers.terminate()\n        workers.join()\n"),
  ("main_loop.py", "    task_pool.close()\n    task_pool.join()\n", "    workers.close()\n    workers.join()\n"))

# ---------------------------------------------------------------- C14
M("C14-gmm-time-seed", {"C14": "C14.R1"},
  ("cluster_label_assignment.py", "covariance_type=\"full\")", "covariance_type=\"full\",\n                                          random_state=int(time.time()))"),
  ("cluster_label_assignment.py", "import logging\n", "import logging\nimport time\n"))
M("C14-default-rng", {"C14": "C14.R1"},
  ("cluster_maintenance.py", "    donated_point_indices = random.sample(range(len(available_point_ids)),\n                                          model.arguments.min_cluster_size)\n",
   "    donated_point_indices = list(np.random.default_rng().choice(len(available_point_ids),\n                                          model.arguments.min_cluster_size, replace=False))\n"))
M("C14-callback-gather", {"C14": "C14.R2"},
  ("graphical_lasso.py", "    return pool.apply_async(admm.admm_optimize_theta,\n                            admm_args,\n                            admm_kwargs)",
   "    return pool.apply_async(admm.admm_optimize_theta,\n                            admm_args,\n                            admm_kwargs, callback=LOGGER.debug)"))
M("C14-task-from-other-cluster", {"C14": "C14.R2"},
  ("graphical_lasso.py", "_setup_optimization_task(model.clusters[cluster_id],", "_setup_optimization_task(model.clusters[cluster_id - 1],"))
M("C14-gather-reversed", {"C14": "C14.R2"},
  ("graphical_lasso.py", "in zip(model.clusters, optimization_tasks):", "in zip(model.clusters, reversed(optimization_tasks)):"))
M("C14-processors-change-iterations", {"C14": "C14.R3"},
  ("main_loop.py", "    for current_iteration in range(current_model_state.arguments.iteration_limit):",
   "    for current_iteration in range(current_model_state.arguments.iteration_limit // current_model_state.arguments.num_processors):"))
M("C14-env-switch-skips-repopulation", {"C14": "C14.R3"},
  ("main_loop.py", "            if current_iteration > 0:\n", "            if current_iteration > 0 and not os.environ.get('CUPCAKE_ENABLE_MULTIPROCESSING'):\n"))
M("C14-twin-random-state-literal", {"C14": None},
  ("cluster_label_assignment.py", "covariance_type=\"full\")", "covariance_type=\"full\", random_state=None)"))

# ---------------------------------------------------------------- C09
_LOOP = "        for current_iteration in range(current_model_state.arguments.iteration_limit):"
M("C09-limit-minus-one", {"C09": "C09.R1"}, ("main_loop.py", _LOOP, "        for current_iteration in range(current_model_state.arguments.iteration_limit - 1):"))
M("C09-hardwired-limit", {"C09": "C09.R1"}, ("main_loop.py", _LOOP, "        for current_iteration in range(1000):"))
M("C09-assert-dropped", {"C09": "C09.R1"}, ("main_loop.py", "    assert user_args.iteration_limit > 0  # must have at least one iteration\n", ""))
M("C09-assert-weakened", {"C09": "C09.R1"}, ("main_loop.py", "    assert user_args.iteration_limit > 0", "    assert user_args.iteration_limit >= 0"))
M("C09-repopulate-first-round", {"C09": "C09.R2"}, ("main_loop.py", "            if current_iteration > 0:\n", "            if current_iteration >= 0:\n"))
M("C09-stats-after-optimise", {"C09": "C09.R2"},
  ("main_loop.py", "            current_model_state = cluster_maintenance.update_all_cluster_statistics(\n                current_model_state, stacked_training_data\n            )\n\n            current_model_state = graphical_lasso.optimize_markov_random_fields(\n                current_model_state, stacked_training_data, task_pool\n            )\n",
   "            current_model_state = graphical_lasso.optimize_markov_random_fields(\n                current_model_state, stacked_training_data, task_pool\n            )\n\n            current_model_state = cluster_maintenance.update_all_cluster_statistics(\n                current_model_state, stacked_training_data\n            )\n"))
M("C09-relabel-from-stale-state", {"C09": "C09.R2"},
  ("main_loop.py", "            current_model_state = graphical_lasso.optimize_markov_random_fields(\n                current_model_state, stacked_training_data, task_pool\n            )\n",
   "            optimised_state = graphical_lasso.optimize_markov_random_fields(\n                current_model_state, stacked_training_data, task_pool\n            )\n"))
M("C09-skip-optimise-on-odd-rounds", {"C09": "C09.R2"},
  ("main_loop.py", "            current_model_state = graphical_lasso.optimize_markov_random_fields(\n                current_model_state, stacked_training_data, task_pool\n            )\n",
   "            if current_iteration % 2 == 0:\n                current_model_state = graphical_lasso.optimize_markov_random_fields(\n                    current_model_state, stacked_training_data, task_pool\n                )\n"))
M("C09-save-before-test", {"C09": "C09.R3"},
  ("main_loop.py", "            if (previous_iteration_point_labels ==\n                    current_model_state.point_labels):\n                LOGGER.info((\n                    \"Cluster assignments have converged. Optimization \"\n                    \"complete.\"))\n                break\n            previous_iteration_point_labels = copy.copy(\n                current_model_state.point_labels)\n",
   "            stop = (previous_iteration_point_labels ==\n                    current_model_state.point_labels)\n            previous_iteration_point_labels = copy.copy(\n                current_model_state.point_labels)\n            if previous_iteration_point_labels == current_model_state.point_labels:\n                break\n"))
M("C09-break-or-budget", {"C09": "C09.R3"},
  ("main_loop.py", "            if (previous_iteration_point_labels ==\n                    current_model_state.point_labels):", "            if (previous_iteration_point_labels ==\n                    current_model_state.point_labels) or current_iteration > 50:"))
M("C09-prev-from-pre-relabel-state", {"C09": "C09.R3"},
  ("main_loop.py", "            current_model_state = cluster_label_assignment.predict_cluster_labels(\n                current_model_state, stacked_training_data\n            )\n",
   "            fitted_state = current_model_state\n            current_model_state = cluster_label_assignment.predict_cluster_labels(\n                current_model_state, stacked_training_data\n            )\n"),
  ("main_loop.py", "            previous_iteration_point_labels = copy.copy(\n                current_model_state.point_labels)", "            previous_iteration_point_labels = copy.copy(\n                fitted_state.point_labels)"))
M("C09-prev-init-empty-list", {"C09": "C09.R3"}, ("main_loop.py", "    previous_iteration_point_labels = None\n", "    previous_iteration_point_labels = current_model_state.point_labels\n"))
M("C09-mrf-from-fitted-state", {"C09": "C09.R4"},
  ("main_loop.py", "            current_model_state = cluster_label_assignment.predict_cluster_labels(\n                current_model_state, stacked_training_data\n            )\n",
   "            fitted_state = current_model_state\n            current_model_state = cluster_label_assignment.predict_cluster_labels(\n                current_model_state, stacked_training_data\n            )\n"),
  ("main_loop.py", "        current_model_state.clusters[cluster_id].train_inverse\n", "        fitted_state.clusters[cluster_id].train_inverse\n"))
M("C09-bic-from-initial-state", {"C09": "C09.R4"},
  ("main_loop.py", "    current_model_state.arguments.print()\n", "    current_model_state.arguments.print()\n    initial_state = current_model_state\n"),
  ("main_loop.py", "cluster_metrics.bayesian_information_criterion(current_model_state)", "cluster_metrics.bayesian_information_criterion(initial_state)"))
M("C09-early-return-in-loop", {"C09": ["C09.R3", "C09.R4"]},
  ("main_loop.py", "                break\n", "                return None\n"))
M("C09-twin-list-copy", {"C09": None}, ("main_loop.py", "            previous_iteration_point_labels = copy.copy(\n                current_model_state.point_labels)", "            previous_iteration_point_labels = list(current_model_state.point_labels)"))
M("C09-twin-limit-temp", {"C09": None},
  ("main_loop.py", _LOOP, "        max_rounds = current_model_state.arguments.iteration_limit\n        for current_iteration in range(max_rounds):"))
M("C09-twin-neq-else-break", {"C09": None},
  ("main_loop.py", "            if (previous_iteration_point_labels ==\n                    current_model_state.point_labels):\n                LOGGER.info((\n                    \"Cluster assignments have converged. Optimization \"\n                    \"complete.\"))\n                break\n            previous_iteration_point_labels = copy.copy(\n                current_model_state.point_labels)\n",
   "            if previous_iteration_point_labels != current_model_state.point_labels:\n                previous_iteration_point_labels = copy.copy(\n                    current_model_state.point_labels)\n            else:\n                break\n"))
M("C09-twin-user-args-limit", {"C09": None},
  ("main_loop.py", _LOOP, "        for current_iteration in range(user_args.iteration_limit):"))

# ---------------------------------------------------------------- C12
M("C12-bias-hardwired", {"C12": "C12.R2"}, ("cluster_maintenance.py", "        bias=use_biased_covariance\n", "        bias=False\n"))
M("C12-bias-inverted", {"C12": "C12.R2"}, ("cluster_maintenance.py", "        bias=use_biased_covariance\n", "        bias=not use_biased_covariance\n"))
M("C12-flag-constant-at-call", {"C12": "C12.R2"}, ("cluster_maintenance.py", "            training_data,\n            model.arguments.biased_covariance\n", "            training_data,\n            False\n"))
M("C12-frontend-drops-flag", {"C12": "C12.R2"}, ("front_end.py", "        min_cluster_size=min_cluster_size,\n        biased_covariance=biased_covariance)\n\n    try:\n        stacked_data", "        min_cluster_size=min_cluster_size,\n        biased_covariance=False)\n\n    try:\n        stacked_data"))
M("C12-all-rows", {"C12": "C12.R1"}, ("cluster_maintenance.py", "    training_data_this_cluster = training_data[cluster.member_points, :]\n\n    updated_cluster.empirical_covariance", "    training_data_this_cluster = training_data[:, :]\n\n    updated_cluster.empirical_covariance"))
M("C12-mean-of-all-data", {"C12": "C12.R1"}, ("cluster_maintenance.py", "    updated_cluster.stacked_data_mean = np.mean(\n        training_data_this_cluster, axis=0)", "    updated_cluster.stacked_data_mean = np.mean(\n        training_data, axis=0)"))
M("C12-no-transpose", {"C12": "C12.R1"}, ("cluster_maintenance.py", "        np.transpose(training_data_this_cluster),\n        bias=use", "        training_data_this_cluster,\n        bias=use"))
M("C12-drop-last-member", {"C12": "C12.R1"}, ("cluster_maintenance.py", "training_data[cluster.member_points, :]\n\n    updated_cluster.empirical_covariance", "training_data[cluster.member_points[:-1], :]\n\n    updated_cluster.empirical_covariance"))
M("C12-neighbour-slot", {"C12": "C12.R3"}, ("cluster_maintenance.py", "        updated_model.clusters[cluster_id] = update_cluster_member_data_statistics(\n            updated_model.clusters[cluster_id],", "        updated_model.clusters[cluster_id] = update_cluster_member_data_statistics(\n            updated_model.clusters[cluster_id - 1],"))
M("C12-skip-last-cluster", {"C12": "C12.R3"}, ("cluster_maintenance.py", "    updated_model = model.shallow_copy()\n    for cluster_id in range(num_clusters):", "    updated_model = model.shallow_copy()\n    for cluster_id in range(num_clusters - 1):"))
M("C12-task-computed-covariance", {"C12": "C12.R4"}, ("graphical_lasso.py", "    admm_args = [\n        cluster.empirical_covariance,", "    admm_args = [\n        cluster.computed_covariance,"))
M("C12-task-args-swapped", {"C12": "C12.R4"}, ("graphical_lasso.py", "        density_penalty,\n        window_size,\n        num_data_series\n    ]", "        density_penalty,\n        num_data_series,\n        window_size\n    ]"))
M("C12-penalty-hardwired", {"C12": "C12.R4"}, ("graphical_lasso.py", "                                                                  model.arguments.sparsity_weight,\n", "                                                                  0.11,\n"))
M("C12-frontend-window-default", {"C12": "C12.R4"}, ("front_end.py", "    args = arguments.UserArguments(\n        window_size=window_size,", "    args = arguments.UserArguments(\n        window_size=10,"))
M("C12-twin-rowvar", {"C12": None}, ("cluster_maintenance.py", "        np.transpose(training_data_this_cluster),\n        bias=use", "        training_data_this_cluster, rowvar=False,\n        bias=use"))
M("C12-twin-dotT", {"C12": None}, ("cluster_maintenance.py", "        np.transpose(training_data_this_cluster),\n        bias=use", "        training_data_this_cluster.T,\n        bias=use"))
M("C12-twin-inline-rows", {"C12": None}, ("cluster_maintenance.py", "    updated_cluster.stacked_data_mean = np.mean(\n        training_data_this_cluster, axis=0)", "    updated_cluster.stacked_data_mean = np.mean(\n        training_data[cluster.member_points], axis=0)"))

# ---------------------------------------------------------------- C01
_K = "cluster_label_assignment.py"
M("C01-price-index-plus-one", {"C01": "C01.R4"},
  (_K, "future_cost_vals[i+1] + label_assignment_cost[i+1] + label_switching_cost[i]", "future_cost_vals[i+1] + label_assignment_cost[i+1] + label_switching_cost[i+1]"),
  (_K, "            if total_vals[arg_general_min] < total_vals[cluster] - label_switching_cost[i]:", "            if total_vals[arg_general_min] < total_vals[cluster] - label_switching_cost[i+1]:"),
  (_K, "                future_cost_vals[i, cluster] = total_vals[cluster] - label_switching_cost[i]", "                future_cost_vals[i, cluster] = total_vals[cluster] - label_switching_cost[i+1]"))
M("C01-price-index-mixed", {"C01": ["C01.R4", "C01.R3"]},
  (_K, "            if total_vals[arg_general_min] < total_vals[cluster] - label_switching_cost[i]:", "            if total_vals[arg_general_min] < total_vals[cluster] - label_switching_cost[i+1]:"))
M("C01-sweep-stops-at-one", {"C01": "C01.R2"}, (_K, "    for i in range(num_points-2, -1, -1):", "    for i in range(num_points-2, 0, -1):"))
M("C01-sweep-starts-late", {"C01": "C01.R2"}, (_K, "    for i in range(num_points-2, -1, -1):", "    for i in range(num_points-3, -1, -1):"))
M("C01-inner-skips-last-cluster", {"C01": "C01.R2"}, (_K, "        for cluster in range(num_clusters):", "        for cluster in range(num_clusters - 1):"))
M("C01-guard-flipped", {"C01": "C01.R3"}, (_K, "            if total_vals[arg_general_min] < total_vals[cluster] - label_switching_cost[i]:", "            if total_vals[arg_general_min] > total_vals[cluster] - label_switching_cost[i]:"))
M("C01-argmax", {"C01": "C01.R3"}, (_K, "        arg_general_min = np.argmin(total_vals)", "        arg_general_min = np.argmax(total_vals)"))
M("C01-stay-keeps-price", {"C01": "C01.R3"}, (_K, "                future_cost_vals[i, cluster] = total_vals[cluster] - label_switching_cost[i]", "                future_cost_vals[i, cluster] = total_vals[cluster]"))
M("C01-pointer-swapped", {"C01": "C01.R3"},
  (_K, "                path_matrix[i, cluster] = arg_general_min\n", "                path_matrix[i, cluster] = cluster\n"),
  (_K, "                path_matrix[i, cluster] = cluster\n                future_cost_vals[i, cluster] = total_vals[cluster] - ", "                path_matrix[i, cluster] = arg_general_min\n                future_cost_vals[i, cluster] = total_vals[cluster] - "))
M("C01-guard-ignores-price", {"C01": "C01.R3"}, (_K, "            if total_vals[arg_general_min] < total_vals[cluster] - label_switching_cost[i]:", "            if total_vals[arg_general_min] < total_vals[cluster]:"))
M("C01-successor-row-i", {"C01": ["C01.R3", "C01.R1"]}, (_K, "total_vals = future_cost_vals[i+1] + label_assignment_cost[i+1] + label_switching_cost[i]", "total_vals = future_cost_vals[i+1] + label_assignment_cost[i] + label_switching_cost[i]"))
M("C01-start-zero", {"C01": "C01.R6"}, (_K, "    path[0] = curr_location\n", "    path[0] = 0\n"))
M("C01-start-ignores-first-cost", {"C01": "C01.R6"}, (_K, "    curr_location = np.argmin(future_cost_vals[0, :] + label_assignment_cost[0, :])", "    curr_location = np.argmin(future_cost_vals[0, :])"))
M("C01-cost-at-other-index", {"C01": "C01.R6"}, (_K, "    true_cost = future_cost_vals[0, path[0]] + label_assignment_cost[0, path[0]]", "    true_cost = future_cost_vals[0, path[0]] + label_assignment_cost[0, 0]"))
M("C01-cost-min-of-future-only", {"C01": "C01.R6"}, (_K, "    true_cost = future_cost_vals[0, path[0]] + label_assignment_cost[0, path[0]]", "    true_cost = np.min(future_cost_vals[0, :])"))
M("C01-readout-wrong-row", {"C01": "C01.R7"}, (_K, "        path[i+1] = path_matrix[i, path[i]]", "        path[i+1] = path_matrix[i+1, path[i]]"))
M("C01-readout-short", {"C01": "C01.R7"}, (_K, "    for i in range(num_points-1):\n        path[i+1]", "    for i in range(num_points-2):\n        path[i+1]"))
M("C01-pointer-uint8", {"C01": "C01.R1"}, (_K, "dtype=np.uint16", "dtype=np.uint8"))
M("C01-pointer-int8", {"C01": "C01.R1"}, (_K, "dtype=np.uint16", "dtype=np.int8"))
M("C01-costtogo-zeros-like", {"C01": "C01.R1"}, (_K, "    future_cost_vals = np.zeros(label_assignment_cost.shape)\n", "    future_cost_vals = np.zeros_like(label_assignment_cost)\n"))
M("C01-no-broadcast-scalar-only", {"C01": ["C01.R5", "C01.R4"]}, (_K, "    label_switching_cost = np.zeros(shape=(num_points,)) + label_switching_cost\n", "    label_switching_cost = np.zeros(shape=(num_points,)) + float(label_switching_cost)\n"))
M("C01-handover-positive-ll", {"C01": "C01.R9"}, (_K, "    label_assignment_cost = - log_likelihood\n", "    label_assignment_cost = log_likelihood\n"))
M("C01-handover-price-constant", {"C01": "C01.R9"}, (_K, "        label_switching_cost=model.arguments.label_switching_cost\n", "        label_switching_cost=400\n"))
M("C01-handover-cost-dropped", {"C01": "C01.R9"}, (_K, "    new_model.label_assignment_cost = cost\n", "    new_model.label_assignment_cost = model.label_assignment_cost\n"))
M("C01-fastpath-zero-price", {"C01": ["C01.R3", "C01.R8"]},
  (_K, "        arg_general_min = np.argmin(total_vals)\n", "        arg_general_min = np.argmin(total_vals)\n        if label_switching_cost[i] == 0:\n            arg_general_min = np.argmin(label_assignment_cost[i+1])\n"))
# twins
M("C01-twin-nonstrict", {"C01": None}, (_K, "            if total_vals[arg_general_min] < total_vals[cluster] - label_switching_cost[i]:", "            if total_vals[arg_general_min] <= total_vals[cluster] - label_switching_cost[i]:"))
M("C01-twin-reversed-range", {"C01": None}, (_K, "    for i in range(num_points-2, -1, -1):", "    for i in reversed(range(num_points-1)):"))
M("C01-twin-swapped-branches", {"C01": None},
  (_K, "            if total_vals[arg_general_min] < total_vals[cluster] - label_switching_cost[i]:\n                path_matrix[i, cluster] = arg_general_min\n                future_cost_vals[i, cluster] = total_vals[arg_general_min]\n            else:\n                path_matrix[i, cluster] = cluster\n                future_cost_vals[i, cluster] = total_vals[cluster] - label_switching_cost[i]\n",
   "            stay = total_vals[cluster] - label_switching_cost[i]\n            if not stay > total_vals[arg_general_min]:\n                future_cost_vals[i, cluster] = stay\n                path_matrix[i, cluster] = cluster\n            else:\n                future_cost_vals[i, cluster] = total_vals[arg_general_min]\n                path_matrix[i, cluster] = arg_general_min\n"))
M("C01-twin-argmin-without-price", {"C01": None},
  (_K, "        arg_general_min = np.argmin(total_vals)", "        arg_general_min = np.argmin(future_cost_vals[i+1] + label_assignment_cost[i+1])"))
M("C01-twin-new-name-for-broadcast", {"C01": None},
  (_K, "    label_switching_cost = np.zeros(shape=(num_points,)) + label_switching_cost\n", "    beta = np.zeros(shape=(num_points,)) + label_switching_cost\n"),
  (_K, "future_cost_vals[i+1] + label_assignment_cost[i+1] + label_switching_cost[i]", "future_cost_vals[i+1] + label_assignment_cost[i+1] + beta[i]"),
  (_K, "            if total_vals[arg_general_min] < total_vals[cluster] - label_switching_cost[i]:", "            if total_vals[arg_general_min] < total_vals[cluster] - beta[i]:"),
  (_K, "                future_cost_vals[i, cluster] = total_vals[cluster] - label_switching_cost[i]", "                future_cost_vals[i, cluster] = total_vals[cluster] - beta[i]"))
M("C01-twin-uint32", {"C01": None}, (_K, "dtype=np.uint16", "dtype=np.uint32"))

# ---------------------------------------------------------------- C07
_DP = "data_preparation.py"
M("C07-prefix-mask-off-by-one", {"C07": "C07.R2"}, (_DP, "    template[[endpoint - 1 for endpoint in endpoints]] = 0\n", "    template[endpoints] = 0\n"))
M("C07-mask-filter-small", {"C07": "C07.R2"}, (_DP, "[endpoint - 1 for endpoint in endpoints]", "[endpoint - 1 for endpoint in endpoints if endpoint > 1]"))
M("C07-mask-keeps-last", {"C07": "C07.R2"}, (_DP, "    endpoints.pop()\n", ""))
M("C07-mask-pops-first", {"C07": "C07.R2"}, (_DP, "    endpoints.pop()\n", "    endpoints.pop(0)\n"))
M("C07-mask-value-small", {"C07": "C07.R2"}, (_DP, "[endpoint - 1 for endpoint in endpoints]] = 0", "[endpoint - 1 for endpoint in endpoints]] = 1e-9"))
M("C07-mask-zeros-base", {"C07": "C07.R2"}, (_DP, "    template = np.ones(shape=(num_points_total,))", "    template = np.ones(shape=(num_points_total - 1,))"))
M("C07-vstack-filter-short", {"C07": "C07.R1", "C10": "C10.R2"},
  (_DP, "    combined_data_series = np.vstack(stacked_data)", "    combined_data_series = np.vstack([block for block in stacked_data if block.shape[0] > 1])"))
M("C07-stack-combined-then-window", {"C07": "C07.R1", "C10": "C10.R2"},
  (_DP, "    stacked_data = [\n        stack_training_data(data, window_size) for data in all_series\n    ]\n\n    # Concatenate the individual stacks into our one big brick.\n    combined_data_series = np.vstack(stacked_data)\n",
   "    combined_data_series = stack_training_data(np.vstack(all_series), window_size)\n"))
M("C07-vstack-reversed", {"C07": "C07.R1", "C10": "C10.R2"},
  (_DP, "stack_training_data(data, window_size) for data in all_series\n", "stack_training_data(data, window_size) for data in reversed(all_series)\n"))
M("C07-joint-default-differs", {"C07": "C07.R4"}, ("front_end.py", "                      min_cluster_size: int = 20,\n                      biased_covariance: bool = False) -> results.MultipleDataSeriesResult:", "                      min_cluster_size: int = 10,\n                      biased_covariance: bool = False) -> results.MultipleDataSeriesResult:"))
M("C07-joint-floor-hardwired", {"C07": "C07.R4", "C03": "C03.R4"}, ("front_end.py", "        min_meaningful_covariance=min_meaningful_covariance,\n        num_processors=num_processors,\n        min_cluster_size=min_cluster_size,\n        biased_covariance=biased_covariance)\n\n    lsc_template", "        min_meaningful_covariance=0,\n        num_processors=num_processors,\n        min_cluster_size=min_cluster_size,\n        biased_covariance=biased_covariance)\n\n    lsc_template"))
M("C07-mask-from-raw-lengths", {"C07": "C07.R4"}, ("front_end.py", "    lsc_template = data_preparation.label_switching_cost_template(\n        stacked_data_sizes)", "    lsc_template = data_preparation.label_switching_cost_template(\n        [len(series) for series in data_series])"))
# the repaired form of F4b is silent (and no KNOWN-FINDING is needed for it)
M("C07-twin-F4b-repaired", {"C07": None},
  ("front_end.py", "    args = arguments.UserArguments(\n        window_size=window_size,\n        num_clusters=num_clusters,\n        sparsity_weight=sparsity_weight,\n        label_switching_cost=label_switching_cost,\n        iteration_limit=iteration_limit,\n        min_meaningful_covariance=min_meaningful_covariance,\n        num_processors=num_processors,\n        min_cluster_size=min_cluster_size,\n        biased_covariance=biased_covariance)\n\n    lsc_template = data_preparation.label_switching_cost_template(\n        stacked_data_sizes)\n    label_switching_cost = label_switching_cost * lsc_template\n",
   "    lsc_template = data_preparation.label_switching_cost_template(\n        stacked_data_sizes)\n    label_switching_cost = label_switching_cost * lsc_template\n\n    args = arguments.UserArguments(\n        window_size=window_size,\n        num_clusters=num_clusters,\n        sparsity_weight=sparsity_weight,\n        label_switching_cost=label_switching_cost,\n        iteration_limit=iteration_limit,\n        min_meaningful_covariance=min_meaningful_covariance,\n        num_processors=num_processors,\n        min_cluster_size=min_cluster_size,\n        biased_covariance=biased_covariance)\n"))
M("C07-twin-mask-slice", {"C07": None},
  (_DP, "    endpoints = list(itertools.accumulate(stacked_series_lengths))\n", "    endpoints = list(itertools.accumulate(stacked_series_lengths))[:-1]\n"),
  (_DP, "    endpoints.pop()\n", ""))
M("C07-twin-mask-int-array", {"C07": None}, (_DP, "    template[[endpoint - 1 for endpoint in endpoints]] = 0\n", "    template[np.array(endpoints, dtype=int) - 1] = 0\n"))
# numpy.array([]) is float64: with one series the index array cannot index (IndexError) - found by a round-2 sub-agent
M("C07-mask-float-index-array", {"C07": "C07.R2"}, (_DP, "    template[[endpoint - 1 for endpoint in endpoints]] = 0\n", "    template[np.array(endpoints) - 1] = 0\n"))

# ---------------------------------------------------------------- C18
_S = "admm/solver.py"
M("C18-prefix-isinstance-float", {"C18": "C18.R1"}, (_S, "    if np.ndim(lambda_parameter) == 0:", "    if isinstance(lambda_parameter, float):"))
M("C18-int-float-only", {"C18": "C18.R1"}, (_S, "    if np.ndim(lambda_parameter) == 0:", "    if isinstance(lambda_parameter, (int, float)):"))
M("C18-type-is-float", {"C18": "C18.R1"}, (_S, "    if np.ndim(lambda_parameter) == 0:", "    if type(lambda_parameter) is float:"))
M("C18-epsilon-float-only", {"C18": "C18.R1"}, ("graphical_lasso.py", "    small_element_indices = np.abs(filtered) < epsilon\n    filtered[small_element_indices] = 0\n", "    if isinstance(epsilon, float):\n        small_element_indices = np.abs(filtered) < epsilon\n        filtered[small_element_indices] = 0\n"))
M("C18-prefix-negated-epsilon", {"C18": "C18.R4"}, ("graphical_lasso.py", "    small_element_indices = np.abs(filtered) < epsilon\n", "    small_element_indices = (filtered < epsilon) & (filtered > -epsilon)\n"))
M("C18-lambda-no-widening", {"C18": "C18.R4"}, (_S, "        return float(lambda_parameter) * num_occurrences", "        return lambda_parameter * num_occurrences"))
M("C18-price-float-shortcut", {"C18": ["C18.R1", "C18.R3"]}, ("cluster_label_assignment.py", "    new_model = model.shallow_copy()\n    new_model.clusters", "    if isinstance(model.arguments.label_switching_cost, float) and model.arguments.label_switching_cost == 0:\n        cost = float(np.sum(np.min(label_assignment_cost, axis=1)))\n    new_model = model.shallow_copy()\n    new_model.clusters"))
M("C18-scalar-count-minus-one", {"C18": "C18.R2"}, (_S, "        num_occurrences = num_blocks - block_id\n        return float(lambda_parameter) * num_occurrences", "        num_occurrences = num_blocks - block_id - 1\n        return float(lambda_parameter) * num_occurrences"))
M("C18-matrix-first-times-count", {"C18": "C18.R2"}, (_S, "        return np.sum(lambda_parameter[rows, cols])", "        return lambda_parameter[rows[0], cols[0]] * len(rows)"))
M("C18-twin-numbers-real", {"C18": None}, (_S, "    if np.ndim(lambda_parameter) == 0:", "    if isinstance(lambda_parameter, numbers.Real):"), (_S, "import math\n", "import math\nimport numbers\n"))
M("C18-twin-isscalar", {"C18": None}, (_S, "    if np.ndim(lambda_parameter) == 0:", "    if np.isscalar(lambda_parameter):"))

# ---------------------------------------------------------------- C15
_L = "likelihood.py"
M("C15-bare-njit", {"C15": "C15.R1"}, (_L, "@numba_guard.njit()\ndef point_log_likelihood_fast", "@numba_guard.njit\ndef point_log_likelihood_fast"))
M("C15-fastmath", {"C15": "C15.R1"}, (_L, "@numba_guard.njit()\ndef point_log_likelihood_fast", "@numba_guard.njit(fastmath=True)\ndef point_log_likelihood_fast"))
M("C15-error-model", {"C15": "C15.R1"}, (_K, "@numba_guard.njit(parallel=False)", "@numba_guard.njit(parallel=False, error_model='numpy')"))
M("C15-noop-drops-kwargs", {"C15": "C15.R1"}, ("numba_guard.py", "    def wrapped(*args, **kwargs):\n        return func(*args, **kwargs)\n", "    def wrapped(*args, **kwargs):\n        return func(*args)\n"))
M("C15-fake-prange-single-arg", {"C15": "C15.R1"}, ("numba_guard.py", "    return range(*args, **kwargs)", "    return range(args[0])"))
M("C15-fallback-selection-swapped", {"C15": "C15.R1"}, ("numba_guard.py", "else:\n    prange = fake_prange\n    njit = fake_njit", "else:\n    prange = fake_prange\n    njit = noop_decorator"))
M("C15-dp-parallel", {"C15": "C15.R2"}, (_K, "@numba_guard.njit(parallel=False)", "@numba_guard.njit(parallel=True)"))
M("C15-dp-prange-inner", {"C15": ["C15.R2", "C15.R3"]}, (_K, "        for cluster in range(num_clusters):", "        for cluster in numba_guard.prange(num_clusters):"))
M("C15-prange-reduction", {"C15": "C15.R3"},
  (_L, "    result = np.zeros(shape=(num_input_points, num_clusters), dtype=np.float64)\n", "    result = np.zeros(shape=(num_input_points, num_clusters), dtype=np.float64)\n    total = 0.0\n"),
  (_L, "                num_data_series\n            )\n    return result", "                num_data_series\n            )\n            total += result[point, cluster]\n    return result - total / result.size + total / result.size"))
M("C15-prange-shared-row", {"C15": "C15.R3"}, (_L, "            result[point, cluster] = point_log_likelihood_fast(", "            result[cluster, point] = point_log_likelihood_fast("))
M("C15-prange-scratch-outside", {"C15": "C15.R3"},
  (_L, "    for point in numba_guard.prange(num_input_points):\n        for cluster in range(num_clusters):\n            result[point, cluster] = point_log_likelihood_fast(\n                stacked_training_data[point, :],",
   "    row = stacked_training_data[0, :]\n    for point in numba_guard.prange(num_input_points):\n        row = stacked_training_data[point, :]\n        for cluster in range(num_clusters):\n            result[point, cluster] = point_log_likelihood_fast(\n                row,"))
M("C15-kernel-reads-one-past", {"C15": "C15.R4", "C01": ["C01.R7"]}, (_K, "    for i in range(num_points-1):\n        path[i+1] = path_matrix[i, path[i]]", "    for i in range(num_points):\n        path[i+1] = path_matrix[i, path[i]]"))
M("C15-kernel-K-from-data", {"C15": "C15.R4"}, (_L, "    num_clusters = model.arguments.num_clusters\n    mus", "    num_clusters = model.arguments.num_clusters + 1\n    mus"))
M("C15-kernel-mutable-global", {"C15": "C15.R5"},
  (_L, "from fast_ticc import numba_guard\n", "from fast_ticc import numba_guard\n\nSCALE = {'half': 0.5}\n"),
  (_L, "    lle = 0.5 * (log_det_theta", "    lle = SCALE['half'] * (log_det_theta"))
M("C15-twin-cache", {"C15": None}, (_L, "@numba_guard.njit()\ndef point_log_likelihood_fast", "@numba_guard.njit(cache=False)\ndef point_log_likelihood_fast"))

# ---------------------------------------------------------------- C16
_CM = "cluster_metrics.py"
M("C16-threshold-nonstrict", {"C16": "C16.R2"}, (_CM, "np.sum(np.abs(trained_inverse_covariance) > threshold)", "np.sum(np.abs(trained_inverse_covariance) >= threshold)"))
M("C16-threshold-no-abs", {"C16": "C16.R2"}, (_CM, "np.sum(np.abs(trained_inverse_covariance) > threshold)", "np.sum(trained_inverse_covariance > threshold)"))
M("C16-threshold-value", {"C16": "C16.R2"}, (_CM, "    threshold = 2e-5\n", "    threshold = 2e-4\n"))
M("C16-log-T-minus-one", {"C16": "C16.R1"}, (_CM, "    num_data_points = len(model.point_labels)\n", "    num_data_points = len(model.point_labels) - 1\n"))
M("C16-factor-one", {"C16": "C16.R1"}, (_CM, "non_zero_params * np.log(num_data_points) - 2*mod_lle", "non_zero_params * np.log(num_data_points) - mod_lle"))
M("C16-trace-wrong-matrix", {"C16": "C16.R1"}, (_CM, "        empirical_covariance = model.clusters[cluster_id].empirical_covariance\n", "        empirical_covariance = model.clusters[cluster_id].computed_covariance\n"))
M("C16-trace-other-cluster", {"C16": "C16.R1"}, (_CM, "        empirical_covariance = model.clusters[cluster_id].empirical_covariance\n", "        empirical_covariance = model.clusters[0].empirical_covariance\n"))
M("C16-skip-first-cluster", {"C16": "C16.R1"}, (_CM, "    for cluster_id in range(model.arguments.num_clusters):\n        trained", "    for cluster_id in range(1, model.arguments.num_clusters):\n        trained"))
M("C16-carried-never-updated", {"C16": "C16.R3"}, (_CM, "            non_zero_params += cluster_params[point_label]\n            last_point_label = point_label\n", "            non_zero_params += cluster_params[point_label]\n"))
M("C16-carried-updated-always-before", {"C16": "C16.R3"}, (_CM, "    for point_label in model.point_labels:\n        if point_label != last_point_label:", "    for point_label in model.point_labels:\n        last_point_label = point_label\n        if point_label != last_point_label:"))
M("C16-params-of-previous-label", {"C16": "C16.R3"}, (_CM, "            non_zero_params += cluster_params[point_label]\n", "            non_zero_params += cluster_params[last_point_label]\n"))
M("C16-carried-init-zero", {"C16": "C16.R3"}, (_CM, "    last_point_label = -1\n", "    last_point_label = 0\n"))
M("C16-count-every-point", {"C16": "C16.R3"}, (_CM, "        if point_label != last_point_label:\n            non_zero_params += cluster_params[point_label]\n            last_point_label = point_label\n", "        non_zero_params += cluster_params[point_label]\n"))
M("C16-unique-labels-only", {"C16": "C16.R3"}, (_CM, "    for point_label in model.point_labels:\n", "    for point_label in sorted(set(model.point_labels)):\n"))
M("C16-prefix-logdet", {"C16": "C16.R4", "C03": "C03.R5"}, (_CM, "np.linalg.slogdet(trained_inverse_covariance)[1]", "np.log(np.linalg.det(trained_inverse_covariance))"))
M("C16-twin-len-clusters", {"C16": None}, (_CM, "    for cluster_id in range(model.arguments.num_clusters):\n        trained", "    for cluster_id in range(len(model.clusters)):\n        trained"))
M("C16-twin-matmul", {"C16": None}, (_CM, "np.trace(np.dot(trained_inverse_covariance,\n                                    empirical_covariance))", "np.trace(trained_inverse_covariance @ empirical_covariance)"))

# ---------------------------------------------------------------- C17
M("C17-df-off-by-one", {"C17": "C17.R2"}, (_CM, "        (len(stacked_training_data) - len(model.clusters)) /", "        (len(stacked_training_data) - len(model.clusters) - 1) /"))
M("C17-df-inverted", {"C17": "C17.R2"}, (_CM, "        (len(stacked_training_data) - len(model.clusters)) /\n         (len(model.clusters) - 1)", "        (len(model.clusters) - 1) /\n         (len(stacked_training_data) - len(model.clusters))"))
M("C17-unweighted-between", {"C17": "C17.R2"}, (_CM, "        group_dispersion = cluster.size * (recentered_data_mean @ recentered_data_mean.T)", "        group_dispersion = (recentered_data_mean @ recentered_data_mean.T)"))
M("C17-within-about-global", {"C17": "C17.R2"}, (_CM, "            recentered_point = (stacked_training_data[point_id] -\n                                cluster_mean).reshape(-1, 1)", "            recentered_point = (stacked_training_data[point_id] -\n                                global_center).reshape(-1, 1)"))
# F10 (repaired by e357a88): the index must not go back to the mean stored by the statistics phase
_OWN_MEAN = "        cluster_mean = np.mean(\n            stacked_training_data[cluster.member_points], axis=0)\n"
M("C17-F10-stored-mean-again", {"C17": "C17.R6"}, (_CM, _OWN_MEAN, "        cluster_mean = cluster.stacked_data_mean\n"))
M("C17-F10-stored-mean-between-only", {"C17": "C17.R6"}, (_CM, "        recentered_data_mean = (cluster_mean - global_center).reshape(-1, 1)", "        recentered_data_mean = (cluster.stacked_data_mean - global_center).reshape(-1, 1)"))
M("C17-mean-of-all-rows", {"C17": "C17.R2"}, (_CM, _OWN_MEAN, "        cluster_mean = np.mean(stacked_training_data, axis=0)\n"))
M("C17-mean-axis1", {"C17": "C17.R2"}, (_CM, _OWN_MEAN, "        cluster_mean = np.mean(\n            stacked_training_data[cluster.member_points], axis=1)\n"))
M("C17-skip-singletons", {"C17": "C17.R2"}, (_CM, "        if cluster.size == 0:\n", "        if cluster.size <= 1:\n"))
M("C17-twin-empty-guard-len", {"C17": None}, (_CM, "        if cluster.size == 0:\n", "        if not len(cluster.member_points) > 0:\n"))
M("C17-twin-mean-method", {"C17": None}, (_CM, _OWN_MEAN, "        cluster_mean = stacked_training_data[cluster.member_points].mean(axis=0)\n"))
M("C17-ratio-inverted", {"C17": "C17.R2"}, (_CM, "    dispersion_ratio = np.trace(numerator) / np.trace(denominator)", "    dispersion_ratio = np.trace(denominator) / np.trace(numerator)"))
M("C17-centre-median", {"C17": "C17.R1"}, (_CM, "    global_center = np.mean(stacked_training_data)", "    global_center = np.median(stacked_training_data, axis=0)"))
M("C17-centre-axis1", {"C17": "C17.R1"}, (_CM, "    global_center = np.mean(stacked_training_data)", "    global_center = np.mean(stacked_training_data, axis=1)"))
# repaired F6: the check passes with no KNOWN-FINDING
M("C17-twin-F6-repaired", {"C17": None}, (_CM, "    global_center = np.mean(stacked_training_data)", "    global_center = np.mean(stacked_training_data, axis=0)"))

# ---------------------------------------------------------------- C10 / C04
M("C10-source-row-minus-one", {"C10": "C10.R1"}, (_DP, "stacked_training_data[i, start_column:end_column] = data[i+j, :]", "stacked_training_data[i, start_column:end_column] = data[i+j-1, :]"))
M("C10-accumulate", {"C10": "C10.R1"}, (_DP, "stacked_training_data[i, start_column:end_column] = data[i+j, :]", "stacked_training_data[i, start_column:end_column] += data[i+j, :]"))
M("C10-block-width", {"C10": "C10.R1"}, (_DP, "            end_column = (j+1) * num_features\n", "            end_column = (j+1) * num_features - 1\n"))
M("C10-rows-short", {"C10": "C10.R1", "C04": "C04.R2"}, (_DP, "    num_full_windows = num_data_points - window_size + 1\n", "    num_full_windows = num_data_points - window_size\n"))
M("C10-early-return-equal", {"C10": "C10.R1"}, (_DP, "    num_features = data.shape[1]\n    stacked_training_data = np.zeros", "    num_features = data.shape[1]\n    if num_data_points <= window_size:\n        return np.zeros([0, num_features * window_size])\n    stacked_training_data = np.zeros"))
M("C10-slots-short", {"C10": "C10.R1"}, (_DP, "        for j in range(window_size):\n            start_column", "        for j in range(window_size - 1):\n            start_column"))
M("C10-float32-target", {"C10": "C10.R1"}, (_DP, "                                      num_features * window_size])\n", "                                      num_features * window_size], dtype=np.float32)\n"))
M("C10-twin-inline-slices", {"C10": None, "C04": None}, (_DP, "            start_column = j * num_features\n            end_column = (j+1) * num_features\n            stacked_training_data[i, start_column:end_column] = data[i+j, :]", "            stacked_training_data[i, j * num_features:(j + 1) * num_features] = data[j + i]"))
M("C10-twin-block-copy", {"C10": None},
  (_DP, "    for i in range(num_full_windows):\n        for j in range(window_size):\n            start_column = j * num_features\n            end_column = (j+1) * num_features\n            stacked_training_data[i, start_column:end_column] = data[i+j, :]\n",
   "    for j in range(window_size):\n        stacked_training_data[:, j * num_features:(j + 1) * num_features] = data[j:j + num_full_windows, :]\n"))
M("C04-pad-half-minus-one", {"C04": "C04.R1", "C10": "C10.R3"}, (_DP, "    front_length = int((window_size - 1)/2)", "    front_length = window_size // 2 - 1"))
M("C04-pad-round", {"C04": "C04.R1", "C10": "C10.R3"}, (_DP, "    front_length = int((window_size - 1)/2)", "    front_length = int(round((window_size - 1)/2))"))
M("C04-pad-back-independent", {"C04": "C04.R1"}, (_DP, "    back_length = (window_size - 1) - front_length", "    back_length = int((window_size - 1)/2 + 0.5)"))
M("C04-pad-order", {"C04": "C04.R1"}, (_DP, "    final_labels = front_labels + original_labels + back_labels", "    final_labels = back_labels + original_labels + front_labels"))
M("C04-pad-marker-zero", {"C04": "C04.R1"}, (_DP, "    front_labels = [-1] * front_length", "    front_labels = [0] * front_length"))
M("C04-split-start-plus-one", {"C04": "C04.R3", "C10": "C10.R3"}, (_DP, "            start = sequence_end_indices[i-1]\n", "            start = sequence_end_indices[i-1] + 1\n"))
M("C04-split-end-prev", {"C04": "C04.R3"}, (_DP, "        end = sequence_end_indices[i]\n", "        end = sequence_end_indices[i] - 1\n"))
M("C04-split-skips-last", {"C04": "C04.R3"}, (_DP, "    for i in range(len(stacked_series_lengths)):\n        # Start", "    for i in range(len(stacked_series_lengths) - 1):\n        # Start"))
M("C04-sizes-no-plus-one", {"C04": "C04.R2"}, ("front_end.py", "        len(series) - window_size + 1\n", "        len(series) - window_size\n"))
M("C04-assembly-pad-default-window", {"C04": "C04.R4"}, ("front_end.py", "                label_set, master_result.window_size)", "                label_set, 10)"))
M("C04-assembly-reversed", {"C04": "C04.R4"}, ("front_end.py", "    for (i, label_set) in enumerate(individual_label_sets):", "    for (i, label_set) in enumerate(reversed(individual_label_sets)):"))
M("C04-single-pads-twice", {"C04": "C04.R4"}, ("front_end.py", "    return ticc_result\n\n\ndef ticc_joint_labels", "    ticc_result.point_labels = data_preparation.pad_missing_labels(ticc_result.point_labels, 1)\n    return ticc_result\n\n\ndef ticc_joint_labels"))
M("C04-mrfs-only-nonempty", {"C04": "C04.R5"}, ("main_loop.py", "        for cluster_id in range(current_model_state.arguments.num_clusters)\n    ]", "        for cluster_id in range(current_model_state.arguments.num_clusters)\n        if current_model_state.clusters[cluster_id].size > 0\n    ]"))
M("C04-labels-shifted", {"C04": "C04.R5"}, ("main_loop.py", "        labels[i] = current_model_state.point_labels[i]", "        labels[i] = current_model_state.point_labels[i - 1]"))
M("C04-echo-K-from-list", {"C04": "C04.R5"}, ("main_loop.py", "        num_clusters=current_model_state.arguments.num_clusters,\n        point_labels=labels,", "        num_clusters=len(set(labels)),\n        point_labels=labels,"))
M("C04-twin-floordiv", {"C04": None, "C10": None}, (_DP, "    front_length = int((window_size - 1)/2)", "    front_length = (window_size - 1) // 2"))
M("C04-twin-labels-list", {"C04": None}, ("main_loop.py", "    labels = [-1] * num_data_points\n    for i in range(stacked_training_data.shape[0]):\n        labels[i] = current_model_state.point_labels[i]\n", "    labels = list(current_model_state.point_labels)\n"))

# ---------------------------------------------------------------- C03
_GL = "graphical_lasso.py"
M("C03-prefix-eigen-cancellation", {"C03": "C03.R2"},
  (_S, "    eigenvalues = d + root\n    eigenvalues[negative] = (4*rho) / (root[negative] - d[negative])\n", "    eigenvalues = d + root\n"))
M("C03-eigen-mask-flipped", {"C03": "C03.R2"}, (_S, "    negative = d < 0\n", "    negative = d > 0\n"))
M("C03-eigen-rationalised-everywhere", {"C03": "C03.R2"}, (_S, "    eigenvalues = d + root\n    eigenvalues[negative] = (4*rho) / (root[negative] - d[negative])\n", "    eigenvalues = (4*rho) / (root - d)\n"))
M("C03-returns-z", {"C03": "C03.R1"}, (_S, "    return x\n\n\ndef admm_update_u", "    return z\n\n\ndef admm_update_u"))
M("C03-mirror-keeps-double-diagonal", {"C03": "C03.R3", "C11": "C11.R3"}, ("matrix_compression.py", "    full_matrix = (upper_tri + upper_tri.T) - np.diag(diag_temp)", "    full_matrix = (upper_tri + upper_tri.T)"))
M("C03-mirror-not-symmetric", {"C03": "C03.R3", "C11": "C11.R3"}, ("matrix_compression.py", "    full_matrix = (upper_tri + upper_tri.T) - np.diag(diag_temp)", "    full_matrix = (upper_tri + upper_tri) - np.diag(diag_temp)"))
M("C03-filter-nonstrict", {"C03": "C03.R4"}, (_GL, "    small_element_indices = np.abs(filtered) < epsilon\n", "    small_element_indices = np.abs(filtered) <= epsilon\n"))
M("C03-filter-one-sided", {"C03": "C03.R4"}, (_GL, "    small_element_indices = np.abs(filtered) < epsilon\n", "    small_element_indices = filtered < epsilon\n"))
M("C03-filter-sets-eps", {"C03": "C03.R4"}, (_GL, "    filtered[small_element_indices] = 0\n", "    filtered[small_element_indices] = epsilon\n"))
M("C03-filter-eps-default", {"C03": "C03.R4"}, (_GL, "        model.arguments.min_meaningful_covariance,\n        copy=False", "        1e-8,\n        copy=False"))
M("C03-filter-after-inverse", {"C03": "C03.R4"}, (_GL, "    computed_covariance = np.linalg.inv(optimized_inverse_covariance)\n", "    computed_covariance = np.linalg.inv(matrix_compression.reinflate_matrix(admm_result))\n"))
M("C03-prefix-logdet-update", {"C03": "C03.R5"}, (_GL, "    updated_cluster.log_determinant = np.linalg.slogdet(\n        optimized_inverse_covariance\n    )[1]", "    updated_cluster.log_determinant = np.log(\n        np.linalg.det(optimized_inverse_covariance)\n    )"))
M("C03-prefix-logdet-refresh", {"C03": "C03.R5", "C05": "C05.R5"}, (_L, "np.linalg.slogdet(inverse_covariance)[1]", "np.log(np.linalg.det(inverse_covariance))"))
M("C03-logdet-chol-prod", {"C03": "C03.R5", "C05": "C05.R5"}, (_L, "np.linalg.slogdet(inverse_covariance)[1]", "2 * np.log(np.prod(np.diag(np.linalg.cholesky(inverse_covariance))))"))
M("C03-logdet-sign", {"C03": "C03.R5"}, (_GL, "    )[1]\n    return updated_cluster", "    )[0]\n    return updated_cluster"))
M("C03-twin-chol-sum", {"C03": None}, (_L, "np.linalg.slogdet(inverse_covariance)[1]", "2 * np.sum(np.log(np.diag(np.linalg.cholesky(inverse_covariance))))"))
M("C03-twin-two-sided-mask", {"C03": None}, (_GL, "    small_element_indices = np.abs(filtered) < epsilon\n", "    small_element_indices = (filtered < epsilon) & (filtered > -epsilon)\n"))

# ---------------------------------------------------------------- C11
_UV = "admm/unique_values.py"
M("C11-shared-default-lists", {"C11": "C11.R5"},
  (_UV, "    row_indices = [r for (r, _) in positions_as_coordinates]\n    column_indices = [c for (_, c) in positions_as_coordinates]\n    return (row_indices, column_indices)\n",
        "    return _split_positions(positions_as_coordinates)\n"),
  (_UV, "@functools.cache\ndef locations_compressed(", "def _split_positions(positions, row_indices=[], column_indices=[]):\n    for (r, c) in positions:\n        row_indices.append(r)\n        column_indices.append(c)\n    return (row_indices, column_indices)\n\n\n@functools.cache\ndef locations_compressed("))
_MC = "matrix_compression.py"
M("C11-index-r-minus-one", {"C11": ["C11.R1", "C11.R5"]}, (_UV, "    return uncompressed_size*(r+1) - r*(r+1)/2", "    return uncompressed_size*(r+1) - r*(r-1)/2"))
M("C11-index-after-target", {"C11": ["C11.R1", "C11.R5"]}, (_UV, "    return (full_row_length-1) - c", "    return full_row_length - c"))
M("C11-index-no-guard", {"C11": "C11.R1"}, (_UV, "    if column < row:\n        raise IndexError((f\"Coordinates ({row}, {column}) are outside \"\n                         \"the matrix's upper triangle.\"))\n", ""))
M("C11-size-formula", {"C11": "C11.R2"}, (_MC, "    n = np.sqrt(8 * flattened_size + 1)\n    return int((n-1) / 2)", "    n = np.sqrt(8 * flattened_size + 1)\n    return int(n / 2)"))
M("C11-size-no-plus-one", {"C11": "C11.R2"}, (_MC, "    n = np.sqrt(8 * flattened_size + 1)", "    n = np.sqrt(8 * flattened_size)"))
M("C11-state-size", {"C11": "C11.R2"}, (_S, "    compressed_array_size = int((matrix_size * (matrix_size + 1)) / 2)", "    compressed_array_size = int((matrix_size * (matrix_size - 1)) / 2)"))
M("C11-table-int8", {"C11": "C11.R3"}, (_MC, "    return np.triu_indices(size)", "    rows, cols = np.triu_indices(size)\n    return (rows.astype(np.int8), cols.astype(np.int8))"))
M("C11-table-strict-triangle", {"C11": "C11.R3"}, (_MC, "    return np.triu_indices(size)", "    return np.triu_indices(size, k=1)"))
M("C11-compress-other-size", {"C11": "C11.R3"}, (_MC, "    matrix_size = full_matrix.shape[0]\n    return", "    matrix_size = full_matrix.shape[0] - 1\n    return"))
M("C11-corners-drop-last", {"C11": ["C11.R4", "C11.R5"]}, (_UV, "    num_occurrences = window_size - block_id\n    # All blocks", "    num_occurrences = window_size - block_id - 1\n    # All blocks"))
M("C11-corners-start-column", {"C11": ["C11.R4", "C11.R5"]}, (_UV, "    start_column = block_id * block_size\n", "    start_column = block_id * (block_size - 1)\n"))
M("C11-corners-walk-stop", {"C11": ["C11.R4", "C11.R5"]},
  (_UV, "    for i in range(num_occurrences):\n        corner_coordinates.append((\n            start_row + i * block_size,\n            start_column + i * block_size\n        ))",
   "    for (i, col) in enumerate(range(start_column, window_size * block_size - 1, block_size)):\n        corner_coordinates.append((\n            start_row + i * block_size,\n            col\n        ))"))
M("C11-positions-swapped", {"C11": ["C11.R4", "C11.R5"]}, (_UV, "    element_positions = [(r + row_in_block, c + col_in_block) for (r, c) in block_corners]", "    element_positions = [(r + col_in_block, c + row_in_block) for (r, c) in block_corners]"))
M("C11-compressed-wrong-n", {"C11": "C11.R5"}, (_UV, "    full_matrix_size = block_size * num_blocks\n", "    full_matrix_size = block_size * num_blocks + 1\n"))
M("C11-slices-cols-from-rows", {"C11": "C11.R5", "C18": None}, (_UV, "    column_indices = [c for (_, c) in positions_as_coordinates]", "    column_indices = [r for (r, _) in positions_as_coordinates]"))
M("C11-table-no-cache-global", {"C11": "C11.R5", "C14": "C14.R6"},
  (_UV, "@functools.cache\ndef locations_compressed(", "_LOCATIONS = {}\n\n\ndef locations_compressed("),
  (_UV, "    full_matrix_size = block_size * num_blocks\n    indices = [_compressed_index(r, c, full_matrix_size)\n               for (r, c) in positions_as_coordinates]\n    return indices", "    full_matrix_size = block_size * num_blocks\n    key = (block_id, row_in_block, col_in_block, full_matrix_size)\n    if key not in _LOCATIONS:\n        _LOCATIONS[key] = [_compressed_index(r, c, full_matrix_size)\n                           for (r, c) in positions_as_coordinates]\n    return _LOCATIONS[key]"))
M("C11-twin-index-direct", {"C11": None}, (_UV, "    return int(\n        _size_including_this_row(row, uncompressed_size)\n        - (_elements_in_row_after_target(column, uncompressed_size) + 1)\n        )", "    return int(uncompressed_size * row - row * (row + 1) / 2 + column)"))

# ---------------------------------------------------------------- C05 / C06
M("C05-density-no-half-on-logdet", {"C05": "C05.R1"}, (_L, "    lle = 0.5 * (log_det_theta\n                 - (x_minus_mu.T @ theta_i @ x_minus_mu)\n                 - nw_log_2pi)", "    lle = log_det_theta - 0.5 * ((x_minus_mu.T @ theta_i @ x_minus_mu)\n                 + nw_log_2pi)"))
M("C05-density-nw-is-w", {"C05": "C05.R1"}, (_L, "    nw = window_size * num_data_series\n", "    nw = window_size\n"))
M("C05-density-plus-quadratic", {"C05": "C05.R1"}, (_L, "                 - (x_minus_mu.T @ theta_i @ x_minus_mu)\n", "                 + (x_minus_mu.T @ theta_i @ x_minus_mu)\n"))
M("C05-density-expanded-quadratic", {"C05": "C05.R1"}, (_L, "                 - (x_minus_mu.T @ theta_i @ x_minus_mu)\n", "                 - (x_t.T @ theta_i @ x_t - 2 * (mu_i.T @ theta_i @ x_t) + mu_i.T @ theta_i @ mu_i)\n"))
M("C05-table-logdet-other-cluster", {"C05": "C05.R2"}, (_L, "                mus[cluster], thetas[cluster], log_det_thetas[cluster],", "                mus[cluster], thetas[cluster], log_det_thetas[0],"))
M("C05-table-transposed", {"C05": "C05.R2", "C15": "C15.R3"}, (_L, "            result[point, cluster] = point_log_likelihood_fast(", "            result[cluster, point] = point_log_likelihood_fast("))
M("C05-wrapper-thetas-train-inverse-stale", {"C05": "C05.R2"}, (_L, "    thetas = np.asarray([x.inverse_covariance for x in model.clusters])", "    thetas = np.asarray([x.computed_covariance for x in model.clusters])"))
M("C05-refresh-only-when-none", {"C05": "C05.R3"}, (_L, "        model.clusters[cluster].log_determinant = np.linalg.slogdet(inverse_covariance)[1]", "        if model.clusters[cluster].log_determinant is None:\n            model.clusters[cluster].log_determinant = np.linalg.slogdet(inverse_covariance)[1]"))
M("C05-refresh-skips-last", {"C05": "C05.R3"}, (_L, "    for cluster in range(model.arguments.num_clusters):\n        inverse_covariance", "    for cluster in range(model.arguments.num_clusters - 1):\n        inverse_covariance"))
M("C05-copy-before-scoring", {"C05": "C05.R3"},
  (_K, "    log_likelihood = likelihood.all_points_all_clusters_log_likelihood(\n        model, test_data\n    )\n", "    new_model = model.shallow_copy()\n    new_model.clusters = [cluster.deep_copy() for cluster in new_model.clusters]\n    log_likelihood = likelihood.all_points_all_clusters_log_likelihood(\n        model, test_data\n    )\n"),
  (_K, "    new_model = model.shallow_copy()\n    new_model.clusters = [cluster.deep_copy() for cluster in new_model.clusters]\n    new_model.point_labels = new_labels", "    new_model.point_labels = new_labels"))
M("C05-perpoint-wrong-cluster", {"C05": "C05.R4", "C06": "C06.R1"}, ("main_loop.py", "            model.clusters[cluster_id],\n            model.arguments.window_size,", "            model.clusters[0],\n            model.arguments.window_size,"))
M("C05-wrapper-logdet-swapped", {"C05": "C05.R4"}, (_L, "    return point_log_likelihood_fast(point,\n                                     mu_i, theta_i, log_det_theta,", "    return point_log_likelihood_fast(point,\n                                     mu_i, cluster.train_inverse, log_det_theta,"))
M("C06-prefix-placeholder", {"C06": "C06.R1"}, ("main_loop.py", "        cluster_log_likelihood[cluster_id].append(ll)\n\n    return", "        cluster_log_likelihood[cluster_id].append(ll)\n\n    for next_cluster_array in cluster_log_likelihood:\n        if len(next_cluster_array) == 0:\n            next_cluster_array.append(0)\n\n    return"))
M("C06-append-unlabelled-too", {"C06": "C06.R1"}, ("main_loop.py", "        if cluster_id == -1:\n            # these points did not participate in clustering\n            continue\n", ""))
M("C06-extra-entry-main-loop", {"C06": "C06.R1"}, ("main_loop.py", "    # make this forward-facing\n", "    cluster_log_likelihood[0].append(0.0)\n    # make this forward-facing\n"))
M("C06-mean-of-cluster-means", {"C06": "C06.R2"}, ("main_loop.py", "    overall_log_likelihood_mean = np.mean(all_log_likelihood)", "    overall_log_likelihood_mean = np.mean([np.mean(c) for c in cluster_log_likelihood if len(c) > 0])"))
M("C06-median-guard-gt-one", {"C06": "C06.R2"}, ("main_loop.py", "        np.median(single_cluster_log_likelihood)\n        if len(single_cluster_log_likelihood) > 0 else 0", "        np.median(single_cluster_log_likelihood)\n        if len(single_cluster_log_likelihood) > 1 else 0"))
M("C06-sum-excludes-first", {"C06": "C06.R2"}, ("main_loop.py", "    overall_log_likelihood = np.sum(all_log_likelihood)", "    overall_log_likelihood = np.sum(all_log_likelihood[1:])"))
M("C06-multi-copy-wrong-field", {"C06": "C06.R4"}, ("front_end.py", "        overall_log_likelihood_mean=master_result.overall_log_likelihood_mean,", "        overall_log_likelihood_mean=master_result.overall_log_likelihood_median,"))
M("C06-twin-neq-guard", {"C06": None, "C05": None}, ("main_loop.py", "        if cluster_id == -1:\n            # these points did not participate in clustering\n            continue\n        ll = likelihood.point_log_likelihood(\n            stacked_training_data[point_id],\n            model.clusters[cluster_id],\n            model.arguments.window_size,\n            num_data_series\n        )\n        cluster_log_likelihood[cluster_id].append(ll)\n",
  "        if cluster_id != -1:\n            ll = likelihood.point_log_likelihood(\n                stacked_training_data[point_id],\n                model.clusters[cluster_id],\n                model.arguments.window_size,\n                num_data_series\n            )\n            cluster_log_likelihood[cluster_id].append(ll)\n"))

# ---------------------------------------------------------------- C08
_CMf = "cluster_maintenance.py"
M("C08-retire-nonstrict", {"C08": "C08.R3"}, (_CMf, "            if potential_donor_size < 3 * min_cluster_size:", "            if potential_donor_size <= 3 * min_cluster_size:"))
M("C08-retire-2m", {"C08": "C08.R3"}, (_CMf, "            if potential_donor_size < 3 * min_cluster_size:", "            if potential_donor_size < 2 * min_cluster_size:"))
M("C08-eligible-m", {"C08": "C08.R3"}, (_CMf, "        if potential_donor_size >= 2 * min_cluster_size:", "        if potential_donor_size >= min_cluster_size:"))
M("C08-eligible-strict", {"C08": "C08.R3"}, (_CMf, "        if potential_donor_size >= 2 * min_cluster_size:", "        if potential_donor_size > 2 * min_cluster_size:"))
M("C08-retire-pops-tail", {"C08": "C08.R3"}, (_CMf, "                remaining_donors.pop(0)\n            return", "                remaining_donors.pop()\n            return"))
M("C08-donate-m-minus-one", {"C08": ["C08.R3", "C08.R5"]}, (_CMf, "                                          model.arguments.min_cluster_size)\n    donated_point_ids", "                                          model.arguments.min_cluster_size - 1)\n    donated_point_ids"))
M("C08-pool-filter-m", {"C08": "C08.R3"}, (_CMf, "                           if model.clusters[i].size >= 2 * model.arguments.min_cluster_size]", "                           if model.clusters[i].size >= model.arguments.min_cluster_size]"))
M("C08-recipient-lt-one", {"C08": "C08.R2"}, (_CMf, "        if cluster.size < 2:\n            clusters_to_repopulate", "        if cluster.size < 1:\n            clusters_to_repopulate"))
M("C08-recipient-lt-m", {"C08": "C08.R2"}, (_CMf, "        if cluster.size < 2:\n            clusters_to_repopulate", "        if cluster.size < model.arguments.min_cluster_size:\n            clusters_to_repopulate"))
M("C08-copy-only-recipients", {"C08": "C08.R1"}, (_CMf, "    new_model.clusters = [cluster.deep_copy() for cluster in model.clusters]", "    new_model.clusters = [cluster.deep_copy() if cluster_id in clusters_to_repopulate else cluster\n                          for (cluster_id, cluster) in enumerate(model.clusters)]"))
M("C08-no-cluster-copy", {"C08": "C08.R1"}, (_CMf, "    new_model.clusters = [cluster.deep_copy() for cluster in model.clusters]\n", ""))
M("C08-labels-to-input-state", {"C08": ["C08.R1", "C08.R6"]}, (_CMf, "        new_model.point_labels = updated_point_labels\n", "        model.point_labels = updated_point_labels\n        new_model = model\n"))
M("C08-rank-ascending", {"C08": "C08.R4"}, (_CMf, "        potential_donor_ids, key=get_cluster_spread, reverse=True)", "        potential_donor_ids, key=get_cluster_spread)"))
M("C08-rank-by-empirical", {"C08": "C08.R4"}, (_CMf, "    cluster_spread = [np.linalg.norm(cluster.computed_covariance)", "    cluster_spread = [np.linalg.norm(cluster.empirical_covariance)"))
M("C08-rank-by-size", {"C08": "C08.R4"}, (_CMf, "    def get_cluster_spread(i):\n        return cluster_spread[i]", "    def get_cluster_spread(i):\n        return model.clusters[i].size"))
M("C08-move-edits-input-labels", {"C08": "C08.R5"}, (_CMf, "    new_point_labels = list(model.point_labels)", "    new_point_labels = model.point_labels"))
M("C08-move-first-m", {"C08": "C08.R5", "C14": None}, (_CMf, "    donated_point_indices = random.sample(range(len(available_point_ids)),\n                                          model.arguments.min_cluster_size)", "    donated_point_indices = list(range(model.arguments.min_cluster_size + 1))"))
M("C08-move-with-replacement", {"C08": "C08.R5"}, (_CMf, "    donated_point_indices = random.sample(range(len(available_point_ids)),\n                                          model.arguments.min_cluster_size)", "    donated_point_indices = random.choices(range(len(available_point_ids)),\n                                          k=model.arguments.min_cluster_size)"))
M("C08-move-label-donor", {"C08": "C08.R5"}, (_CMf, "        new_point_labels[point_id] = recipient_cluster_id", "        new_point_labels[point_id] = donor_cluster_id + 1"))
M("C08-search-on-stale-model", {"C08": "C08.R6"}, (_CMf, "        (donor_cluster_id, remaining_donors) = _find_point_donor(\n            new_model, remaining_donors)", "        (donor_cluster_id, remaining_donors) = _find_point_donor(\n            model, remaining_donors)"))
M("C08-commit-after-loop", {"C08": "C08.R6"}, (_CMf, "            new_model, donor_cluster_id, empty_cluster_id)\n        new_model.point_labels = updated_point_labels\n", "            new_model, donor_cluster_id, empty_cluster_id)\n    new_model.point_labels = updated_point_labels\n"))
M("C08-pool-reset-each-round", {"C08": "C08.R6"}, (_CMf, "            new_model, remaining_donors)\n        LOGGER.info(\"Repopulating", "            new_model, donor_cluster_ids)\n        LOGGER.info(\"Repopulating"))
M("C08-twin-copy-copy", {"C08": None}, (_CMf, "    new_point_labels = list(model.point_labels)", "    new_point_labels = model.point_labels[:]"))

# ---------------------------------------------------------------- C02
M("C02-rho-over-two", {"C02": "C02.R6"}, (_S, "    rho_scale = 1 / (2*rho)", "    rho_scale = rho / 2"))
M("C02-eigh-one-over-rho", {"C02": "C02.R6"}, (_S, "    d, q = np.linalg.eigh(rho * z_minus_u - empirical_covariance)", "    d, q = np.linalg.eigh((1 / rho) * z_minus_u - empirical_covariance)"))
M("C02-rationalised-drops-rho", {"C02": "C02.R6"}, (_S, "    eigenvalues[negative] = (4*rho) / (root[negative] - d[negative])", "    eigenvalues[negative] = 4.0 / (root[negative] - d[negative])"))
M("C02-determinant-two-rho", {"C02": "C02.R6"}, (_S, "    determinant = np.square(d) + (4*rho) * np.ones(d.shape)", "    determinant = np.square(d) + (2*rho) * np.ones(d.shape)"))
M("C02-x-gets-z-plus-u", {"C02": "C02.R6"}, (_S, "    z_minus_u_compressed = z - u", "    z_minus_u_compressed = z + u"))
M("C02-u-sign", {"C02": "C02.R7"}, (_S, "    return u + x - z", "    return u - x + z"))
M("C02-u-before-z", {"C02": "C02.R7"}, (_S, "        z = admm_update_z(args, u, x)\n        u = admm_update_u(u, x, z)\n", "        u = admm_update_u(u, x, z)\n        z = admm_update_z(args, u, x)\n"))
M("C02-z-occurrences-minus-one", {"C02": ["C02.R3", "C02.R4"]}, (_S, "        num_occurrences = num_blocks - block_id\n        for row in range(block_size):", "        num_occurrences = num_blocks - block_id - 1\n        for row in range(block_size):"))
M("C02-z-start-column-zero", {"C02": "C02.R1"}, (_S, "            start_column = row if block_id == 0 else 0", "            start_column = 0"))
M("C02-z-start-column-always-row", {"C02": "C02.R1"}, (_S, "            start_column = row if block_id == 0 else 0", "            start_column = row"))
M("C02-z-blocks-short", {"C02": "C02.R1"}, (_S, "    for block_id in range(num_blocks):", "    for block_id in range(num_blocks - 1):"))
M("C02-z-different-tuples", {"C02": "C02.R2"}, (_S, "                lambda_sum = compute_lambda_sum(args.sparsity_weight,\n                                                block_id, row, col,", "                lambda_sum = compute_lambda_sum(args.sparsity_weight,\n                                                block_id, col, row,"))
M("C02-z-reads-x-only", {"C02": "C02.R2"}, (_S, "scaled_point_sum = args.rho * np.sum(theta_plus_u[indices])", "scaled_point_sum = args.rho * np.sum(x[indices])"))
M("C02-z-sum-minus-u", {"C02": "C02.R2"}, (_S, "    theta_plus_u = x + u\n", "    theta_plus_u = x - u\n"))
M("C02-threshold-sign", {"C02": "C02.R4"}, (_S, "        updated_z_value = (scaled_point_sum - lambda_sum) / rho_times_r\n", "        updated_z_value = (scaled_point_sum + lambda_sum) / rho_times_r\n"))
M("C02-threshold-guard-ge-zero", {"C02": "C02.R4"}, (_S, "    if scaled_point_sum > lambda_sum:", "    if scaled_point_sum > 0:"))
M("C02-threshold-no-rho-in-divisor", {"C02": ["C02.R4", "C02.R3"]}, (_S, "                                                        args.rho * num_occurrences)", "                                                        num_occurrences)"))
M("C02-scale-new-over-old", {"C02": "C02.R8"}, (_S, "                scale = args.rho / new_rho", "                scale = new_rho / args.rho"))
M("C02-scale-after-store", {"C02": "C02.R8"}, (_S, "                scale = args.rho / new_rho\n                args.rho = new_rho\n", "                args.rho = new_rho\n                scale = args.rho / new_rho\n"))
M("C02-no-rescale", {"C02": "C02.R8"}, (_S, "                u = scale * u\n", ""))
M("C02-callback-args-swapped", {"C02": "C02.R8"}, (_S, "                                          residual_primal, tolerance_primal,\n                                          residual_dual, tolerance_dual)\n                scale", "                                          residual_dual, tolerance_dual,\n                                          residual_primal, tolerance_primal)\n                scale"))
M("C02-stop-or", {"C02": "C02.R9"}, (_S, "    should_stop = ((residual_primal <= tolerance_primal) and\n                   (residual_dual <= tolerance_dual))", "    should_stop = ((residual_primal <= tolerance_primal) or\n                   (residual_dual <= tolerance_dual))"))
M("C02-dual-residual-no-rho", {"C02": "C02.R9"}, (_S, "    residual_dual = norm(args.rho * (z - z_old))", "    residual_dual = norm(z - z_old)"))
M("C02-primal-tolerance-min", {"C02": "C02.R9"}, (_S, "args.relative_tolerance * max(norm(x), norm(z)))", "args.relative_tolerance * min(norm(x), norm(z)))"))
M("C02-stale-z-old", {"C02": "C02.R9"}, (_S, "        z_old = z\n        x = admm_update_x(args, u, z, empirical_covariance)\n        z = admm_update_z(args, u, x)\n", "        x = admm_update_x(args, u, z, empirical_covariance)\n        z = admm_update_z(args, u, x)\n        z_old = z\n"))
M("C02-break-on-primal-only", {"C02": "C02.R9"}, (_S, "            if converged:", "            if converged or residual_primal <= tolerance_primal:"))
M("C02-budget-hardwired", {"C02": "C02.R9"}, (_S, "    for iteration in range(args.max_iterations):", "    for iteration in range(1000):"))
M("C02-twin-u-reordered", {"C02": None}, (_S, "    return u + x - z", "    return x - z + u"))
M("C02-twin-literal-eigen", {"C02": None, "C03": "C03.R2"}, (_S, "    eigenvalues = d + root\n    eigenvalues[negative] = (4*rho) / (root[negative] - d[negative])\n", "    eigenvalues = d + root\n"))

# ---------------------------------------------------------------- C19
M("C19-stack-centres-input", {"C19": "C19.R1"}, (_DP, "    num_data_points = data.shape[0]\n    num_full_windows", "    data -= data.mean(axis=0)\n    num_data_points = data.shape[0]\n    num_full_windows"))
M("C19-joint-price-inplace", {"C19": "C19.R1"}, ("front_end.py", "    label_switching_cost = label_switching_cost * lsc_template\n", "    label_switching_cost *= lsc_template\n"))
M("C19-kernel-row-view-accumulate", {"C19": "C19.R1"}, (_K, "        total_vals = future_cost_vals[i+1] + label_assignment_cost[i+1] + label_switching_cost[i]\n", "        total_vals = label_assignment_cost[i+1]\n        total_vals += future_cost_vals[i+1]\n        total_vals += label_switching_cost[i]\n"))
M("C19-solver-symmetrise-input", {"C19": "C19.R1"}, (_S, "    z_old = None\n    for iteration", "    empirical_covariance += empirical_covariance.T\n    empirical_covariance *= 0.5\n    z_old = None\n    for iteration"))
M("C19-conditional-rebind-then-inplace", {"C19": "C19.R1"},
  (_S, "    z_old = None\n    for iteration", "    args = args.deep_copy()\n    if args.rho != 1:\n        args.sparsity_weight = args.sparsity_weight / args.rho\n    z_old = None\n    for iteration"),
  (_S, "                args.rho = new_rho\n", "                args.rho = new_rho\n                args.sparsity_weight *= scale\n"))
M("C19-lambda-matrix-fill-diagonal", {"C19": "C19.R1"}, (_S, "    if isinstance(lambda_parameter, np.ndarray):\n", "    if isinstance(lambda_parameter, np.ndarray):\n        np.fill_diagonal(lambda_parameter, 0)\n"))
M("C19-series-list-sorted-inplace", {"C19": "C19.R1"}, ("front_end.py", "    data_series = list(data_series)\n", "    data_series.sort(key=len)\n"))
M("C19-series-element-edit", {"C19": "C19.R1"}, ("front_end.py", "    data_series = list(data_series)\n", "    data_series = list(data_series)\n    data_series[0][0, :] = 0\n"))
M("C19-filter-inplace-on-cost-table", {"C19": "C19.R1"}, (_K, "    label_assignment_cost = - log_likelihood\n", "    label_assignment_cost = - log_likelihood\n    test_data[np.isnan(test_data)] = 0\n"))
M("C19-out-kw-into-input", {"C19": "C19.R1"}, (_S, "    z_minus_u_compressed = z - u\n", "    z_minus_u_compressed = z - u\n    np.multiply(empirical_covariance, 1.0, out=empirical_covariance)\n"))
M("C19-memo-keeps-caller-matrix", {"C19": ["C19.R2", "C19.R1"], "C14": ["C14.R6", "C14.R5"]},
  (_S, "LOGGER = logging.getLogger(__name__)\n", "LOGGER = logging.getLogger(__name__)\n_LAST = {}\n"),
  (_S, "    if np.ndim(lambda_parameter) == 0:", "    _LAST['lambda'] = lambda_parameter\n    if np.ndim(lambda_parameter) == 0:"))
M("C19-twin-fresh-negation-inplace", {"C19": None}, (_K, "    label_assignment_cost = - log_likelihood\n", "    label_assignment_cost = log_likelihood\n    label_assignment_cost *= -1\n"))
M("C19-twin-copy-then-edit", {"C19": None}, (_DP, "    num_data_points = data.shape[0]\n    num_full_windows", "    data = np.copy(data)\n    data -= data.mean(axis=0)\n    num_data_points = data.shape[0]\n    num_full_windows"))

# ---------------------------------------------------------------- C13
_MS = "containers/model_state.py"
M("C13-prefix-userargs-shallow-deepcopy", {"C13": "C13.R5"}, ("containers/arguments.py", "        return copy.deepcopy(self)\n", "        return self.shallow_copy()\n"))
# __init__ stores sorted(member_points): passing the list itself is still a copy -> behaviour-preserving twin
M("C13-twin-cluster-deepcopy-members-uncopied", {"C13": None}, (_MS, "            member_points=list(self.member_points),\n", "            member_points=self.member_points,\n"))
M("C13-cluster-deepcopy-shares-train-inverse", {"C13": "C13.R5"}, (_MS, "            train_inverse=np.copy(self.train_inverse)\n        )", "            train_inverse=self.train_inverse\n        )"))
M("C13-state-deepcopy-shares-labels", {"C13": "C13.R5"}, (_MS, "            point_labels=list(self._point_labels),", "            point_labels=self._point_labels,"))
M("C13-state-deepcopy-via-setter", {"C13": "C13.R5"},
  (_MS, "        new_clusters = [cluster.deep_copy() for cluster in self.clusters]\n        return ModelState(\n            arguments=self.arguments.deep_copy(),\n            clusters=new_clusters,\n            label_assignment_cost=self.label_assignment_cost,\n            point_labels=list(self._point_labels),\n            point_log_likelihood=np.copy(self.point_log_likelihood),\n            stacked_training_data=np.copy(self.stacked_training_data)\n        )",
   "        new_model = self.shallow_copy()\n        new_model.arguments = self.arguments.deep_copy()\n        new_model.clusters = [cluster.deep_copy() for cluster in self.clusters]\n        new_model.point_labels = list(self._point_labels)\n        new_model.point_log_likelihood = np.copy(self.point_log_likelihood)\n        new_model.stacked_training_data = np.copy(self.stacked_training_data)\n        return new_model"))
M("C13-member-setter-length-test", {"C13": "C13.R2"}, (_MS, "        elif new_members != self._member_points:", "        elif len(new_members) != len(self._member_points):"))
M("C13-member-setter-ends-test", {"C13": "C13.R2"}, (_MS, "        elif new_members != self._member_points:", "        elif (len(new_members) != len(self._member_points) or new_members[0] != self._member_points[0]):"))
M("C13-member-setter-unsorted", {"C13": "C13.R2"}, (_MS, "            self._member_points = sorted(new_members)\n\n    @property\n    def size", "            self._member_points = new_members\n\n    @property\n    def size"))
M("C13-label-setter-no-refresh", {"C13": "C13.R2"}, (_MS, "            self._point_labels = new_labels\n            self._update_cluster_membership()", "            self._point_labels = new_labels"))
M("C13-label-setter-refresh-first", {"C13": "C13.R2"}, (_MS, "            self._point_labels = new_labels\n            self._update_cluster_membership()", "            self._update_cluster_membership()\n            self._point_labels = new_labels"))
M("C13-refresh-skips-last-cluster", {"C13": "C13.R2"}, (_MS, "            for cluster_id in range(self.arguments.num_clusters):\n                this_cluster_members", "            for cluster_id in range(self.arguments.num_clusters - 1):\n                this_cluster_members"))
M("C13-refresh-bucket-shifted", {"C13": "C13.R2"}, (_MS, "                this_cluster_members = members[cluster_id]\n", "                this_cluster_members = members[cluster_id + 1]\n"))
M("C13-direct-private-write", {"C13": "C13.R1"}, (_K, "    new_model.point_labels = new_labels\n", "    new_model._point_labels = new_labels\n"))
# (was expected to be a violation of a who-may-construct census; it is not: the state starts unlabelled with its own deep copies)
M("C13-twin-state-ctor-elsewhere", {"C13": None}, (_K, "    new_model = model.shallow_copy()\n    new_model.clusters = [cluster.deep_copy() for cluster in new_model.clusters]\n    new_model.point_labels = new_labels", "    new_model = model_state.ModelState(arguments=model.arguments, clusters=[cluster.deep_copy() for cluster in model.clusters],\n                                       point_labels=None, stacked_training_data=model.stacked_training_data)\n    new_model.point_labels = new_labels"))
M("C13-edit-labels-in-place", {"C13": ["C13.R3", "C13.R6"], "C08": "C08.R5"}, (_CMf, "    new_point_labels = list(model.point_labels)", "    new_point_labels = model.point_labels"))
M("C13-edit-after-publication", {"C13": "C13.R3"}, (_CMf, "        new_model.point_labels = updated_point_labels\n", "        new_model.point_labels = updated_point_labels\n        updated_point_labels[0] = updated_point_labels[0]\n"))
M("C13-sort-members-in-place", {"C13": ["C13.R3", "C13.R6"]}, (_CMf, "    training_data_this_cluster = training_data[cluster.member_points, :]\n\n    updated_cluster.empirical_covariance", "    cluster.member_points.sort()\n    training_data_this_cluster = training_data[cluster.member_points, :]\n\n    updated_cluster.empirical_covariance"))
M("C13-shallow-copy-shares-cluster-list", {"C13": "C13.R6"}, (_MS, "            clusters=list(self.clusters),", "            clusters=self.clusters,"))
M("C13-relabel-no-cluster-copy", {"C13": "C13.R6"}, (_K, "    new_model.clusters = [cluster.deep_copy() for cluster in new_model.clusters]\n", ""))
M("C13-stats-update-in-place", {"C13": "C13.R6"}, (_CMf, "    updated_cluster = cluster.shallow_copy()\n    training_data_this_cluster = training_data[cluster.member_points, :]\n\n    updated_cluster.empirical_covariance", "    updated_cluster = cluster\n    training_data_this_cluster = training_data[cluster.member_points, :]\n\n    updated_cluster.empirical_covariance"))
M("C13-mrf-update-in-place", {"C13": "C13.R6"}, (_GL, "    updated_cluster = cluster.shallow_copy()\n    updated_cluster.computed_covariance", "    updated_cluster = cluster\n    updated_cluster.computed_covariance"))
M("C13-clusters-appended", {"C13": "C13.R4"}, (_K, "    new_model.point_labels = new_labels\n", "    new_model.clusters.append(model_state.ClusterParameters.empty_cluster())\n    new_model.point_labels = new_labels\n"))
M("C13-empty-model-k-plus-one", {"C13": "C13.R4"}, (_MS, "            for i in range(user_args.num_clusters)\n            ]", "            for i in range(user_args.num_clusters + 1)\n            ]"))
M("C13-twin-copy-copy-labels", {"C13": None}, (_MS, "            point_labels=list(self._point_labels),", "            point_labels=self._point_labels[:],"))

# ---------------------------------------------------------------- structural twins written for the robustness pass
M("TWIN-rename-private-donor-helper", {"C08": None, "C20": None},
  (_CMf, "def _find_point_donor(model: model_state.ModelState,", "def _select_donor(model: model_state.ModelState,"),
  (_CMf, "        (donor_cluster_id, remaining_donors) = _find_point_donor(\n", "        (donor_cluster_id, remaining_donors) = _select_donor(\n"))
M("TWIN-shifted-backward-sweep", {"C01": None, "C15": None, "C07": None},
  (_K, "    for i in range(num_points-2, -1, -1):\n", "    for nxt in range(num_points-1, 0, -1):\n        i = nxt - 1\n"))
M("TWIN-round-index-renamed", {"C09": None, "C14": None, "C20": None},
  ("main_loop.py", "        for current_iteration in range(current_model_state.arguments.iteration_limit):\n            LOGGER.info(\"TICC: Beginning iteration %d\", current_iteration)\n\n            if current_iteration > 0:",
   "        for round_index in range(current_model_state.arguments.iteration_limit):\n            LOGGER.info(\"TICC: Beginning iteration %d\", round_index)\n\n            if round_index >= 1:"))

# ---------------------------------------------------------------- benign feature additions (must stay silent everywhere relevant)
_ALLP = {p: None for p in ["C01", "C03", "C04", "C06", "C07", "C08", "C09", "C10", "C12", "C14", "C18", "C19", "C20"]}
M("TWIN-frontend-input-validation", dict(_ALLP),
  ("front_end.py", "    params = arguments.UserArguments(\n        window_size=window_size,", "    if window_size < 1:\n        raise ValueError(\"window_size must be at least 1\")\n    if num_clusters < 1:\n        raise ValueError(\"num_clusters must be at least 1\")\n\n    params = arguments.UserArguments(\n        window_size=window_size,"))
M("TWIN-frontend-asarray", dict(_ALLP),
  ("front_end.py", "    # The user may have provided a forward-only iterable.  We need to\n    # traverse it multiple times, so make it a list.\n    data_series = list(data_series)\n", "    # The user may have provided a forward-only iterable.  We need to\n    # traverse it multiple times, so make it a list.\n    data_series = [series for series in data_series]\n"))
M("TWIN-mainloop-extra-logging", dict(_ALLP),
  ("main_loop.py", "            current_model_state = cluster_maintenance.update_all_cluster_statistics(\n", "            LOGGER.debug(\"round %d: %d labels\", current_iteration, len(current_model_state.point_labels))\n            current_model_state = cluster_maintenance.update_all_cluster_statistics(\n"))
M("TWIN-keyboard-interrupt-note", dict(_ALLP),
  ("main_loop.py", "    except BaseException:\n        # Do not leave worker processes behind when a round fails\n        task_pool.terminate()\n        task_pool.join()\n        raise\n",
   "    except BaseException as failure:\n        # Do not leave worker processes behind when a round fails\n        LOGGER.debug(\"TICC main loop aborted: %r\", failure)\n        task_pool.terminate()\n        task_pool.join()\n        raise\n"))
M("TWIN-result-timing-field-free", dict(_ALLP),
  ("main_loop.py", "    num_data_points = stacked_training_data.shape[0]\n", "    num_data_points = stacked_training_data.shape[0]\n    LOGGER.debug(\"fitting %d stacked points\", num_data_points)\n"))

# ---------------------------------------------------------------- round 8 (hold-out) - the three clauses it added
M("C13-nan-to-num-in-place-on-input-stats", {"C13": "C13.R6"},
  (_GL, "    admm_args = [\n        cluster.empirical_covariance,\n",
   "    np.nan_to_num(cluster.empirical_covariance, copy=False)\n    admm_args = [\n        cluster.empirical_covariance,\n"))
M("C13-twin-nan-to-num-copy", {"C13": None, "C19": None},
  (_GL, "    admm_args = [\n        cluster.empirical_covariance,\n",
   "    cleaned_for_log = np.nan_to_num(cluster.empirical_covariance)\n    LOGGER.debug(\"largest entry %s\", cleaned_for_log.max())\n    admm_args = [\n        cluster.empirical_covariance,\n"))
M("C07-relabel-memo-keyed-on-max-price", {"C07": "C07.R5", "C01": "C01.R9"},
  (_K, "    (new_labels, cost) = assign_point_cluster_labels(\n        label_assignment_cost=label_assignment_cost,\n        label_switching_cost=model.arguments.label_switching_cost\n    )\n",
   "    memo_key = (label_assignment_cost.tobytes(), float(np.max(model.arguments.label_switching_cost)))\n    if memo_key in _RELABEL_MEMO:\n        (new_labels, cost) = _RELABEL_MEMO[memo_key]\n    else:\n        (new_labels, cost) = assign_point_cluster_labels(\n            label_assignment_cost=label_assignment_cost,\n            label_switching_cost=model.arguments.label_switching_cost\n        )\n        _RELABEL_MEMO[memo_key] = (new_labels, cost)\n"),
  (_K, "LOGGER = logging.getLogger(__name__)\n", "LOGGER = logging.getLogger(__name__)\n_RELABEL_MEMO = {}\n"))
M("C15-twin-kernel-literal-dtype-keyword", {"C15": None, "C01": None},
  (_K, "    future_cost_vals = np.zeros(label_assignment_cost.shape)\n", "    future_cost_vals = np.zeros(label_assignment_cost.shape, dtype=np.float64)\n"))
