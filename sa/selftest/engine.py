"""Self-tests of the analysis engine on synthetic snippets (no repository code involved).
Run by MANIFEST.setup_cmd and by hand:  /venv/bin/python -m sa.selftest.engine"""
from __future__ import annotations

import ast
import os
import shutil
import sys
import tempfile
import textwrap

from .. import terms as tm
from ..build import Analysis
from ..terms import App, Cat, Comp, Idx, Lst, PW, Range, Rep, Sum, Sym


def _mini(src: str):
    """Build an Analysis over a one-module package containing `src`."""
    tmp = tempfile.mkdtemp(prefix="sa_engine_")
    pkg = os.path.join(tmp, "src", "fast_ticc")
    os.makedirs(pkg)
    open(os.path.join(pkg, "__init__.py"), "w").write("")
    open(os.path.join(pkg, "m.py"), "w").write(textwrap.dedent(src))
    open(os.path.join(tmp, "pyproject.toml"), "w").write('[tool.poetry]\npackages = [{include = "fast_ticc", from = "src"}]\n')
    ana = Analysis(tmp, check_floor=False)
    return ana, tmp


def check(cond, what, fails):
    if not cond:
        fails.append(what)


def run():
    fails = []
    x, y, n = Sym("x"), Sym("y"), Sym("n")
    # ---- algebra
    check(tm.add(x, y) == tm.add(y, x), "commutativity of +", fails)
    check(tm.mul(tm.add(x, 1), tm.add(x, -1)) == tm.add(tm.mul(x, x), -1), "(x+1)(x-1) = x^2-1", fails)
    check(tm.div(tm.mul(x, y), y) == x, "xy/y = x", fails)
    check(tm.sqrt(tm.add(tm.add(tm.mul(4, tm.mul(n, n)), tm.mul(4, n)), 1)) == tm.add(tm.mul(2, n), 1), "sqrt((2n+1)^2) = 2n+1", fails)
    check(tm.sqrt(tm.add(tm.mul(n, n), 1)) != tm.add(n, 1), "sqrt(n^2+1) is not n+1", fails)
    check(tm.compare("<", x, y) == tm.compare(">", y, x), "x<y == y>x", fails)
    check(tm.negate(tm.compare("<", x, y)) == tm.compare(">=", x, y), "not x<y == x>=y", fails)
    check(tm.compare("<", x, y) != tm.compare("<=", x, y), "strictness is kept", fails)
    check(tm.to_int(tm.div(tm.add(n, -1), 2)) != tm.add(tm.floordiv(n, tm.const(2)), -1), "int((n-1)/2) differs from n//2 - 1", fails)
    check(Cat([Rep(Lst([tm.const(-1)]), x), Sym("L")]) != Cat([Sym("L"), Rep(Lst([tm.const(-1)]), x)]), "list concatenation is not commutative", fails)
    check(tm.length(Cat([Rep(Lst([tm.const(-1)]), x), Lst([tm.ONE, tm.ONE])])) == tm.add(x, 2), "len distributes over concatenation", fails)
    check(tm.transpose(tm.add(x, tm.transpose(x))) == tm.add(x, tm.transpose(x)), "T(x + T(x)) = x + T(x)", fails)
    # ---- CFG / reaching definitions / guards / reductions
    ana, tmp = _mini('''
        import numpy as np
        def f(a, flag):
            p = acquire()
            try:
                for i in range(a):
                    if flag:
                        break
                    work(i)
            finally:
                p.close()
                p.join()
            return a

        def g(v, lim):
            acc = 0
            for k in range(lim):
                if v[k] > 0:
                    acc += v[k] * 2
            return acc

        def h(x, n):
            out = []
            for i in range(n):
                out.append(x[i] + 1)
            return out

        def sel(a, b):
            if a < b:
                r = a
            elif a > b:
                r = b
            else:
                r = 0
            return r

        def masked(d):
            neg = d < 0
            e = d + 1
            e[neg] = 2 * d[neg]
            return e
    ''')
    try:
        f = ana.func("m.f")
        cfg = ana.cfg(f)
        close = [nd for nd in cfg.nodes if nd.kind == "stmt" and isinstance(nd.ast, ast.Expr) and "close" in ast.unparse(nd.ast)]
        acq = [nd for nd in cfg.nodes if nd.kind == "stmt" and isinstance(nd.ast, ast.Assign) and "acquire" in ast.unparse(nd.ast)][0]
        start = [s for s, k in cfg.succ[acq.id] if k == "n"]
        p = None
        for s in start:
            p = p or cfg.paths_avoiding(cfg.nodes[s], {c.id for c in close}, {cfg.exit.id, cfg.exc_exit.id})
        check(len(close) >= 2, "finally body is instantiated for the normal and the exceptional exit", fails)
        check(p is None, "try/finally: every path from the acquisition passes close()", fails)
        g = ana.func("m.g")
        t = ana.builder(g).return_term()
        v, lim = Sym("v"), Sym("lim")
        k = Sym("k")
        want = Sum(tm.mul(2, Idx(v, (k,))), [(k, Range(0, lim))], tm.compare(">", Idx(v, (k,)), 0))
        check(t == want, f"guarded reduction is reconstructed as a guarded sum (got {t})", fails)
        hh = ana.builder(ana.func("m.h")).return_term()
        check(isinstance(hh, Comp) and hh.elt.key == tm.add(Idx(Sym("x"), (hh.var,)), 1).key, f"list built by append loop is a comprehension term (got {hh})", fails)
        s = ana.builder(ana.func("m.sel")).return_term()
        a, b = Sym("a"), Sym("b")
        check(isinstance(s, PW) and len(s.pieces) == 3, f"if/elif/else assigning one variable is a 3-piece term (got {s})", fails)
        m = ana.builder(ana.func("m.masked")).return_term()
        d = Sym("d")
        wantm = PW([(tm.compare("<", d, 0), tm.mul(2, d)), (tm.compare(">=", d, 0), tm.add(d, 1))])
        check(m == wantm, f"masked overwrite is a piecewise term (got {m})", fails)
        # bytecode cross-check on the synthetic module
        from .. import xcheck
        r = xcheck.recheck_reaching_defs(ana)
        check(not r["errors"] and r["uses_compared"] > 10, f"AST and bytecode reaching definitions agree on the synthetic module ({r['agree']}/{r['uses_compared']})", fails)
    finally:
        shutil.rmtree(tmp, ignore_errors=True)
    # ---- ownership
    ana, tmp = _mini('''
        import numpy as np
        class Box:
            def __init__(self, items=None):
                self.items = items
            def copy(self):
                return Box(items=list(self.items))

        def bad(data):
            view = data[0]
            view += 1
            return view

        def good(data):
            c = np.copy(data)
            c += 1
            return c

        def swap(box):
            nb = box.copy()
            nb.items = [x for x in nb.items]
            nb.items.append(1)
            return nb

        def leak(box):
            nb = Box(items=box.items)
            nb.items.append(1)
            return nb
    ''')
    try:
        from ..heap import OwnershipAnalysis

        def ext_written(q):
            oa = OwnershipAnalysis(ana, ana.func(q)).run()
            return [m for m in oa.mutations if any(o.is_ext for o in m.targets)]
        check(len(ext_written("m.bad")) == 1, "augmented assignment through a row view writes the caller's array", fails)
        check(len(ext_written("m.good")) == 0, "in-place edit of a fresh copy does not touch the caller", fails)
        check(len(ext_written("m.swap")) == 0, "strong update: after `nb.items = fresh`, appends hit the fresh list only", fails)
        check(len(ext_written("m.leak")) == 1, "sharing the caller's list and appending to it is seen", fails)
    finally:
        shutil.rmtree(tmp, ignore_errors=True)
    return fails


if __name__ == "__main__":
    fl = run()
    for f in fl:
        print("ENGINE-SELFTEST-FAIL:", f)
    print(f"engine self-test: {'FAILED ' + str(len(fl)) if fl else 'ok'}")
    sys.exit(1 if fl else 0)
