"""Mutant-on-twin composition (thorough tier): a behaviour-preserving refactoring from twins/ is applied, then a corpus mutant
whose snippet still occurs exactly once in a file the refactoring touched.  The mutant must still be reported: the normaliser
(sa/normalize.py) and the renamed-helper matching must never mask a violation.  Variants are analysed, never executed."""
from __future__ import annotations

import os
import shutil
import subprocess
from concurrent.futures import ProcessPoolExecutor
from typing import Dict, List, Optional

from . import mutants as M
from .corpus import make_variant_from_patch, patch_twins


def _relocate(tmp, rel, old, touched) -> Optional[str]:
    p = os.path.join(tmp, "src", "fast_ticc", rel)
    if os.path.exists(p):
        n = open(p).read().count(old)
        if n == 1:
            return p
        if n > 1:
            return None
    hits = []
    for d, _, fs in os.walk(os.path.join(tmp, "src", "fast_ticc")):
        for f in fs:
            if f.endswith(".py"):
                q = os.path.join(d, f)
                if os.path.relpath(q, tmp) in touched and open(q).read().count(old) == 1:
                    hits.append(q)
    return hits[0] if len(hits) == 1 else None


def _one(args):
    root, tw, pf, mid, edits, expect, only_pid = args
    from ..build import Analysis
    from ..report import run_rules, load_known_findings, match_known
    tmp = make_variant_from_patch(root, pf)
    if tmp is None:
        return None
    try:
        touched = "".join(l for l in open(pf) if l.startswith("+++ b/"))
        hit = False
        for rel, old, new in edits:
            p = _relocate(tmp, rel, old, touched)
            if p is None:
                return None
            s = open(p).read()
            open(p, "w").write(s.replace(old, new))
            if os.path.relpath(p, tmp) in touched:
                hit = True
        if not hit:
            return None
        findings = load_known_findings()
        try:
            ana = Analysis(tmp)
        except Exception as e:
            return [(tw, mid, pid, want, "undecided", [f"loader: {e}"]) for pid, want in expect.items() if want is not None]
        out = []
        for pid, want in expect.items():
            if want is None or (only_pid and pid != only_pid):
                continue
            obls, _ = run_rules(ana, pid)
            fails = sorted({o.rule for o in obls if o.status == "fail" and not match_known(o, findings)})
            errs = [o.what for o in obls if o.status == "error"]
            outcome = "detected" if fails else ("undecided" if errs else "masked")
            out.append((tw, mid, pid, want, outcome, fails))
        return out
    finally:
        shutil.rmtree(tmp, ignore_errors=True)


def run(root="/repo", pid: Optional[str] = None, twins: Optional[List[str]] = None, jobs=None, twin_dir: Optional[str] = None) -> Dict:
    work = []
    src = patch_twins()
    if twin_dir:
        src = [(k, os.path.join(twin_dir, k, "patch.diff")) for k in sorted(os.listdir(twin_dir))
               if os.path.exists(os.path.join(twin_dir, k, "patch.diff"))]
    for tw, pf in src:
        if twins and not any(tw.startswith(t) for t in twins):
            continue
        for m in M.MUTANTS:
            wants = {p: w for p, w in m["expect"].items() if w is not None and (pid is None or p == pid)}
            if wants:
                work.append((root, tw, pf, m["id"], m["edits"], wants, pid))
    res = {"combinations": 0, "detected": 0, "undecided": 0, "masked": 0, "masked_list": [], "undecided_list": []}
    jobs = jobs or min(16, os.cpu_count() or 4)
    with ProcessPoolExecutor(max_workers=jobs) as ex:
        for r in ex.map(_one, work, chunksize=8):
            if not r:
                continue
            for tw, mid, p, want, outcome, rules in r:
                res["combinations"] += 1
                res[outcome] += 1
                if outcome == "masked":
                    res["masked_list"].append(f"{tw}+{mid}:{p}")
                elif outcome == "undecided":
                    res["undecided_list"].append(f"{tw}+{mid}:{p}")
    return res


if __name__ == "__main__":
    import json
    import sys
    args = sys.argv[1:]
    pid = next((a for a in args if a.startswith("C") and len(a) == 3 and a[1:].isdigit()), None)
    tdir = next((a.split("=", 1)[1] for a in args if a.startswith("--dir=")), None)
    tw = [a for a in args if a != pid and not a.startswith("--dir=")]
    r = run(pid=pid, twins=tw or None, twin_dir=tdir)
    for x in r["masked_list"]:
        print("MASKED   ", x)
    for x in r["undecided_list"]:
        print("UNDECIDED", x)
    print("SUMMARY", json.dumps({k: v for k, v in r.items() if not k.endswith("_list")}))
    sys.exit(1 if r["masked"] else 0)
