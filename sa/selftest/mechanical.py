"""Mechanical twins: behaviour-preserving one-site rewrites generated from the syntax tree of /repo/src, one variant per site,
each analysed by all 20 checks (never executed).  Every rewrite is an identity of the language, not of this code base:

  flip     a < b  ->  b > a  (single comparison whose operands contain no call: evaluation order cannot be observed)
  negif    if c: A else: B  ->  if not c: B else: A
  ifexp    x = a if c else b  ->  if c: x = a else: x = b           (plain-name target)
  kwargs   f(a, b)  ->  f(p=a, q=b) for a call of a package function, in the same order (parameter names from the signature)
  posargs  f(p=a, q=b)  ->  f(a, b) when the keywords are the leading parameters in signature order
  rettmp   return E  ->  result__ = E; return result__
  acc      x += e  ->  x = x + e  for an accumulator initialised with a numeric literal in the same function (never an alias)
  assigntmp  x = E  ->  tmp__ = E; x = tmp__                        (single-line assignments to a plain name)
  nop      `assert True` inserted before a return / loop statement

usage: mech_twins.py [--kinds flip,negif,...] [--jobs N] [--max N] [--out FILE]
Prints one line per variant that is not silent; exit 1 if any check raised a VIOLATION."""
import ast, json, os, shutil, sys, tempfile
from concurrent.futures import ProcessPoolExecutor

ROOT = "/repo"
PIDS = ["C%02d" % i for i in range(1, 21)]


def seg(src_lines, node):
    """source text of a node"""
    if node.lineno == node.end_lineno:
        return src_lines[node.lineno - 1][node.col_offset:node.end_col_offset]
    out = [src_lines[node.lineno - 1][node.col_offset:]]
    out += src_lines[node.lineno:node.end_lineno - 1]
    out.append(src_lines[node.end_lineno - 1][:node.end_col_offset])
    return "\n".join(out)


def splice(src, node, new_text):
    lines = src.split("\n")
    head = lines[:node.lineno - 1]
    first = lines[node.lineno - 1][:node.col_offset]
    last = lines[node.end_lineno - 1][node.end_col_offset:]
    mid = (first + new_text + last).split("\n")
    return "\n".join(head + mid + lines[node.end_lineno:])


def no_calls(e):
    return not any(isinstance(x, (ast.Call, ast.Await, ast.Yield, ast.NamedExpr)) for x in ast.walk(e))


def indent_line(lines, node):
    """node.lineno when the node starts its line (after indentation), else -1"""
    l = lines[node.lineno - 1]
    return node.lineno if len(l) - len(l.lstrip()) == node.col_offset and node.lineno == node.end_lineno or \
        (len(l) - len(l.lstrip()) == node.col_offset) else -1


def indent_of(lines, node):
    l = lines[node.lineno - 1]
    return l[:len(l) - len(l.lstrip())]


def block_text(lines, stmts, ind):
    """re-indent a statement list to `ind`"""
    first = stmts[0]
    base = indent_of(lines, first)
    out = []
    for ln in lines[first.lineno - 1:stmts[-1].end_lineno]:
        out.append(ind + ln[len(base):] if ln.startswith(base) else ln)
    return "\n".join(out)


def signatures(root=None):
    """The program as written (not normalised): the rewrites are spliced into the source text by the positions of these nodes."""
    from ..loader import Program
    from ..resolve import Resolver

    class _Raw:
        pass
    raw = _Raw()
    raw.prog = Program(root or ROOT)
    raw.res = Resolver(raw.prog)
    return raw


def variants(kinds, root=None, ana=None):
    root = root or ROOT
    ana = signatures(root)          # always the raw program: an Analysis passed in has normalised syntax trees
    FLIP = {ast.Lt: ">", ast.Gt: "<", ast.LtE: ">=", ast.GtE: "<=", ast.Eq: "==", ast.NotEq: "!="}
    for mod in sorted(ana.prog.modules.values(), key=lambda m: m.relpath):
        path = mod.path
        src = open(path).read()
        lines = src.split("\n")
        rel = os.path.relpath(path, os.path.join(root, "src"))
        tree = ast.parse(src)
        funcs = [f for f in ana.prog.functions.values() if f.module is mod]
        for f in funcs:
            fn = f.node
            for n in ast.walk(fn):
                site = f"{rel}:{getattr(n, 'lineno', 0)}:{f.qualname.split('fast_ticc.')[-1]}"
                if "flip" in kinds and isinstance(n, ast.Compare) and len(n.ops) == 1 and type(n.ops[0]) in FLIP \
                        and no_calls(n.left) and no_calls(n.comparators[0]):
                    new = f"{seg(lines, n.comparators[0])} {FLIP[type(n.ops[0])]} {seg(lines, n.left)}"
                    yield ("flip", site, rel, splice(src, n, new))
                if "negif" in kinds and isinstance(n, ast.If) and n.orelse and not (len(n.orelse) == 1 and isinstance(n.orelse[0], ast.If)) \
                        and n.lineno != n.body[0].lineno and lines[n.lineno - 1][n.col_offset:].startswith("if "):     # not an `elif`
                    ind = indent_of(lines, n)
                    inner = indent_of(lines, n.body[0])
                    txt = f"if not ({seg(lines, n.test)}):\n" + block_text(lines, n.orelse, inner) + f"\n{ind}else:\n" + block_text(lines, n.body, inner)
                    whole = type("N", (), {"lineno": n.lineno, "col_offset": n.col_offset, "end_lineno": n.end_lineno, "end_col_offset": n.end_col_offset})
                    yield ("negif", site, rel, splice(src, whole, txt))
                if "ifexp" in kinds and isinstance(n, ast.Assign) and len(n.targets) == 1 and isinstance(n.targets[0], ast.Name) \
                        and isinstance(n.value, ast.IfExp):
                    ind = indent_of(lines, n)
                    v = n.value
                    t = n.targets[0].id
                    txt = f"if {seg(lines, v.test)}:\n{ind}    {t} = {seg(lines, v.body)}\n{ind}else:\n{ind}    {t} = {seg(lines, v.orelse)}"
                    yield ("ifexp", site, rel, splice(src, n, txt))
                if isinstance(n, ast.Call) and ("kwargs" in kinds or "posargs" in kinds):
                    c = ana.res.callee(f, n)
                    g = c.func
                    if g is not None and c.kind in ("internal", "method_internal") and not any(isinstance(a, ast.Starred) for a in n.args) \
                            and not any(k.arg is None for k in n.keywords) and g.node.args.vararg is None and not g.node.args.posonlyargs:
                        params = list(g.own_params)
                        if c.kind == "method_internal" and params and params[0] in ("self", "cls"):
                            params = params[1:]
                        fn_txt = seg(lines, n.func)
                        if "kwargs" in kinds and n.args and len(n.args) <= len(params):
                            parts = [f"{p}={seg(lines, a)}" for p, a in zip(params, n.args)] + [f"{k.arg}={seg(lines, k.value)}" for k in n.keywords]
                            yield ("kwargs", site, rel, splice(src, n, f"{fn_txt}({', '.join(parts)})"))
                        if "posargs" in kinds and n.keywords:
                            kwn = [k.arg for k in n.keywords]
                            want = params[len(n.args):len(n.args) + len(kwn)]
                            if kwn == want:
                                parts = [seg(lines, a) for a in n.args] + [seg(lines, k.value) for k in n.keywords]
                                yield ("posargs", site, rel, splice(src, n, f"{fn_txt}({', '.join(parts)})"))
                # ---- second generation (patterns met in the sub-agents' small edits) ----
                if "unpack" in kinds and isinstance(n, ast.Assign) and len(n.targets) == 1 and isinstance(n.targets[0], ast.Tuple) \
                        and all(isinstance(e, ast.Name) for e in n.targets[0].elts) and isinstance(n.value, ast.Call) and n.lineno == indent_line(lines, n):
                    ind = indent_of(lines, n)
                    parts = [f"pair__ = {seg(lines, n.value)}"] + [f"{e.id} = pair__[{k}]" for k, e in enumerate(n.targets[0].elts)]
                    yield ("unpack", site, rel, splice(src, n, ("\n" + ind).join(parts)))
                if "toifexp" in kinds and isinstance(n, ast.If) and len(n.body) == 1 and len(n.orelse) == 1 \
                        and all(isinstance(s_, ast.Assign) and len(s_.targets) == 1 and isinstance(s_.targets[0], ast.Name) for s_ in (n.body[0], n.orelse[0])) \
                        and n.body[0].targets[0].id == n.orelse[0].targets[0].id and lines[n.lineno - 1][n.col_offset:].startswith("if "):
                    v = n.body[0].targets[0].id
                    txt = f"{v} = ({seg(lines, n.body[0].value)}) if ({seg(lines, n.test)}) else ({seg(lines, n.orelse[0].value)})"
                    yield ("toifexp", site, rel, splice(src, n, txt))
                if "defaultelse" in kinds and isinstance(n, ast.If) and len(n.body) == 1 and len(n.orelse) == 1 and isinstance(n.orelse[0], ast.Assign) \
                        and isinstance(n.body[0], ast.Assign) and len(n.body[0].targets) == 1 and isinstance(n.body[0].targets[0], ast.Name) \
                        and len(n.orelse[0].targets) == 1 and isinstance(n.orelse[0].targets[0], ast.Name) and n.orelse[0].targets[0].id == n.body[0].targets[0].id \
                        and isinstance(n.orelse[0].value, (ast.Constant, ast.Name)) and lines[n.lineno - 1][n.col_offset:].startswith("if ") \
                        and not any(isinstance(x, ast.Name) and x.id == n.body[0].targets[0].id for x in ast.walk(n.test)):
                    ind = indent_of(lines, n)
                    v = n.body[0].targets[0].id
                    txt = f"{v} = {seg(lines, n.orelse[0].value)}\n{ind}if {seg(lines, n.test)}:\n{ind}    {v} = {seg(lines, n.body[0].value)}"
                    yield ("defaultelse", site, rel, splice(src, n, txt))
                if isinstance(n, ast.For) and isinstance(n.target, ast.Name) and isinstance(n.iter, ast.Call) and isinstance(n.iter.func, ast.Name) \
                        and n.iter.func.id == "range" and len(n.iter.args) == 1 and not n.orelse and n.lineno != n.body[0].lineno:
                    v = n.target.id
                    stores = [x for st in n.body for x in ast.walk(st) if isinstance(x, ast.Name) and x.id == v and not isinstance(x.ctx, ast.Load)]
                    later = [x for x in ast.walk(fn) if isinstance(x, ast.Name) and x.id == v and isinstance(x.ctx, ast.Load) and x.lineno > n.end_lineno]
                    jumps = any(isinstance(x, ast.Continue) for st in n.body for x in ast.walk(st))
                    if not stores and not later:
                        ind = indent_of(lines, n)
                        inner = indent_of(lines, n.body[0])
                        hi = seg(lines, n.iter.args[0])
                        if "rangeshift" in kinds:
                            body_txt = "\n".join(lines[n.body[0].lineno - 1:n.end_lineno])
                            # replace loads of v by (v - 1) inside the body, back to front
                            loads = sorted([x for st in n.body for x in ast.walk(st) if isinstance(x, ast.Name) and x.id == v and isinstance(x.ctx, ast.Load)],
                                           key=lambda x: (x.lineno, x.col_offset), reverse=True)
                            new_src = src
                            ok_ = True
                            for x in loads:
                                new_src = splice(new_src, x, f"({v} - 1)")
                            head = type("N", (), {"lineno": n.iter.lineno, "col_offset": n.iter.col_offset, "end_lineno": n.iter.end_lineno, "end_col_offset": n.iter.end_col_offset})
                            new_src = splice(new_src, head, f"range(1, ({hi}) + 1)")
                            yield ("rangeshift", site, rel, new_src)
                        hi_names = {x.id for x in ast.walk(n.iter.args[0]) if isinstance(x, ast.Name)}
                        hi_stable = no_calls(n.iter.args[0]) and not any(
                            isinstance(x, ast.Name) and x.id in hi_names and not isinstance(x.ctx, ast.Load) for st in n.body for x in ast.walk(st)) and not any(
                            isinstance(x, ast.Call) and isinstance(x.func, ast.Attribute) and isinstance(x.func.value, ast.Name) and x.func.value.id in hi_names
                            for st in n.body for x in ast.walk(st))
                        if "for2while" in kinds and not jumps and n.iter.lineno == n.iter.end_lineno and hi_stable:
                            body_txt = block_text(lines, n.body, inner)
                            txt = f"{v} = 0\n{ind}while {v} < ({hi}):\n{body_txt}\n{inner}{v} += 1"
                            whole = type("N", (), {"lineno": n.lineno, "col_offset": n.col_offset, "end_lineno": n.end_lineno, "end_col_offset": n.end_col_offset})
                            yield ("for2while", site, rel, splice(src, whole, txt))
                if "comp2loop" in kinds and isinstance(n, ast.Assign) and len(n.targets) == 1 and isinstance(n.targets[0], ast.Name) and isinstance(n.value, ast.ListComp) \
                        and len(n.value.generators) == 1 and not n.value.generators[0].ifs and not n.value.generators[0].is_async:
                    g = n.value.generators[0]
                    tgt = n.targets[0].id
                    names_in = {x.id for x in ast.walk(n.value) if isinstance(x, ast.Name)}
                    if tgt not in names_in:
                        ind = indent_of(lines, n)
                        txt = f"{tgt} = []\n{ind}for {seg(lines, g.target)} in {seg(lines, g.iter)}:\n{ind}    {tgt}.append({seg(lines, n.value.elt)})"
                        yield ("comp2loop", site, rel, splice(src, n, txt))
                if "kwshuffle" in kinds and isinstance(n, ast.Call) and len(n.keywords) >= 2 and all(k.arg is not None for k in n.keywords) \
                        and all(no_calls(k.value) for k in n.keywords) and not any(isinstance(a, ast.Starred) for a in n.args):
                    parts = [seg(lines, a) for a in n.args] + [f"{k.arg}={seg(lines, k.value)}" for k in reversed(n.keywords)]
                    yield ("kwshuffle", site, rel, splice(src, n, f"{seg(lines, n.func)}({', '.join(parts)})"))
                if "rettmp" in kinds and isinstance(n, ast.Return) and n.value is not None and not isinstance(n.value, ast.Name):
                    ind = indent_of(lines, n)
                    if lines[n.lineno - 1].strip().startswith("return"):
                        txt = f"result__ = {seg(lines, n.value)}\n{ind}return result__"
                        yield ("rettmp", site, rel, splice(src, n, txt))
                if "assigntmp" in kinds and isinstance(n, ast.Assign) and len(n.targets) == 1 and isinstance(n.targets[0], ast.Name) \
                        and n.lineno == n.end_lineno and not isinstance(n.value, (ast.Name, ast.Constant)):
                    ind = indent_of(lines, n)
                    txt = f"tmp__ = {seg(lines, n.value)}\n{ind}{n.targets[0].id} = tmp__"
                    yield ("assigntmp", site, rel, splice(src, n, txt))
                if "nop" in kinds and isinstance(n, (ast.Return, ast.For, ast.While)) and lines[n.lineno - 1].strip().startswith(("return", "for ", "while ")):
                    ind = indent_of(lines, n)
                    here = type("N", (), {"lineno": n.lineno, "col_offset": n.col_offset, "end_lineno": n.lineno, "end_col_offset": n.col_offset})
                    yield ("nop", site, rel, splice(src, here, f"assert True\n{ind}"))
                if "acc" in kinds and isinstance(n, ast.AugAssign) and isinstance(n.target, ast.Name) and isinstance(n.op, (ast.Add, ast.Sub)):
                    inits = [a for a in ast.walk(fn) if isinstance(a, ast.Assign) and len(a.targets) == 1 and isinstance(a.targets[0], ast.Name)
                             and a.targets[0].id == n.target.id]
                    if inits and all(isinstance(a.value, ast.Constant) and isinstance(a.value.value, (int, float)) for a in inits):
                        op = "+" if isinstance(n.op, ast.Add) else "-"
                        txt = f"{n.target.id} = {n.target.id} {op} ({seg(lines, n.value)})"
                        yield ("acc", site, rel, splice(src, n, txt))


def third_generation(kinds, root=None):
    """Rewrites met in the fifth batch of sub-agent edits (section 11.8): several sites of one file change together."""
    root = root or ROOT
    ana = signatures(root)
    for mod in sorted(ana.prog.modules.values(), key=lambda m: m.relpath):
        path = mod.path
        src = open(path).read()
        lines = src.split("\n")
        rel = os.path.relpath(path, os.path.join(root, "src"))
        funcs = [f for f in ana.prog.functions.values() if f.module is mod]
        for f in funcs:
            fn = f.node
            short = f.qualname.split("fast_ticc.")[-1]
            # ---- paramswap: a private module-level helper's first two parameters swapped, together with every (positional) call
            if "paramswap" in kinds and f.name.startswith("_") and not f.name.startswith("__") and f.cls is None and f.parent is None \
                    and not fn.decorator_list and len(fn.args.args) >= 2 and not fn.args.defaults and not fn.args.vararg and not fn.args.kwarg \
                    and not fn.args.kwonlyargs and not fn.args.posonlyargs:
                calls, foreign = [], False
                for g in ana.prog.functions.values():
                    for n in ast.walk(g.node):
                        if isinstance(n, ast.Call):
                            c = ana.res.callee(g, n)
                            if c.func is f:
                                if g.module is not mod or any(isinstance(a, ast.Starred) for a in n.args) or len(n.args) < 2:
                                    foreign = True
                                calls.append(n)
                        elif isinstance(n, ast.Name) and n.id == f.name and isinstance(n.ctx, ast.Load):
                            pass
                refs = sum(1 for g in ana.prog.functions.values() for n in ast.walk(g.node)
                           if (isinstance(n, ast.Name) and n.id == f.name) or (isinstance(n, ast.Attribute) and n.attr == f.name))
                if calls and not foreign and refs == len(calls):
                    edits = []
                    a0, a1 = fn.args.args[0], fn.args.args[1]
                    edits.append((a0, seg(lines, a1)))
                    edits.append((a1, seg(lines, a0)))
                    for c in calls:
                        edits.append((c.args[0], seg(lines, c.args[1])))
                        edits.append((c.args[1], seg(lines, c.args[0])))
                    new_src = src
                    for node, txt in sorted(edits, key=lambda e: (e[0].lineno, e[0].col_offset), reverse=True):
                        new_src = splice(new_src, node, txt)
                    yield ("paramswap", f"{rel}:{fn.lineno}:{short}", rel, new_src)
            # ---- privrename: a private module-level helper renamed together with every use (all in its own module)
            if "privrename" in kinds and f.name.startswith("_") and not f.name.startswith("__") and f.cls is None and f.parent is None:
                uses = []
                elsewhere = False
                for m2 in ana.prog.modules.values():
                    for n in ast.walk(m2.tree):
                        if (isinstance(n, ast.Name) and n.id == f.name) or (isinstance(n, ast.Attribute) and n.attr == f.name):
                            if m2 is not mod or isinstance(n, ast.Attribute):
                                elsewhere = True
                            else:
                                uses.append(n)
                if uses and not elsewhere and f.name not in src.replace("def " + f.name, "").split("def ")[0] + "":
                    new_name = f.name + "_impl"
                    new_src = src
                    edits = [(n, new_name) for n in uses]
                    for node, txt in sorted(edits, key=lambda e: (e[0].lineno, e[0].col_offset), reverse=True):
                        new_src = splice(new_src, node, txt)
                    # the def line itself
                    dl = fn.lineno - 1
                    lines2 = new_src.split("\n")
                    if ("def " + f.name + "(") in lines2[dl]:
                        lines2[dl] = lines2[dl].replace("def " + f.name + "(", "def " + new_name + "(", 1)
                        yield ("privrename", f"{rel}:{fn.lineno}:{short}", rel, "\n".join(lines2))
            for n in ast.walk(fn):
                site = f"{rel}:{getattr(n, 'lineno', 0)}:{short}"
                if "dbgassert" in kinds and isinstance(n, ast.Assert) and lines[n.lineno - 1].strip().startswith("assert"):
                    ind = indent_of(lines, n)
                    msg = f"({seg(lines, n.msg)})" if n.msg is not None else ""
                    txt = f"if __debug__ and not ({seg(lines, n.test)}):\n{ind}    raise AssertionError{msg}"
                    yield ("dbgassert", site, rel, splice(src, n, txt))
                if "tomap" in kinds and isinstance(n, ast.ListComp) and len(n.generators) == 1 and not n.generators[0].ifs and isinstance(n.generators[0].target, ast.Name) \
                        and isinstance(n.elt, ast.Call) and isinstance(n.elt.func, (ast.Name, ast.Attribute)) and not n.elt.keywords and len(n.elt.args) >= 1 \
                        and isinstance(n.elt.args[0], ast.Name) and n.elt.args[0].id == n.generators[0].target.id \
                        and all(isinstance(a, (ast.Name, ast.Constant)) and not (isinstance(a, ast.Name) and a.id == n.generators[0].target.id) for a in n.elt.args[1:]) \
                        and not any(isinstance(x, ast.Name) and x.id == n.generators[0].target.id for x in ast.walk(n.elt.func)):
                    extra = "".join(f", itertools.repeat({seg(lines, a)})" for a in n.elt.args[1:])
                    txt = f"list(map({seg(lines, n.elt.func)}, {seg(lines, n.generators[0].iter)}{extra}))"
                    new_src = splice(src, n, txt)
                    if extra and "import itertools" not in new_src:
                        new_src = "import itertools\n" + new_src if not new_src.startswith('"""') else new_src.replace("\nimport ", "\nimport itertools\nimport ", 1)
                    yield ("tomap", site, rel, new_src)
                if "enumstart" in kinds and isinstance(n, ast.For) and isinstance(n.iter, ast.Call) and isinstance(n.iter.func, ast.Name) and n.iter.func.id == "enumerate" \
                        and len(n.iter.args) == 1 and not n.iter.keywords and isinstance(n.target, ast.Tuple) and len(n.target.elts) == 2 \
                        and isinstance(n.target.elts[0], ast.Name) and not n.orelse:
                    v = n.target.elts[0].id
                    stores = [x for st in n.body for x in ast.walk(st) if isinstance(x, ast.Name) and x.id == v and not isinstance(x.ctx, ast.Load)]
                    later = [x for x in ast.walk(fn) if isinstance(x, ast.Name) and x.id == v and isinstance(x.ctx, ast.Load) and x.lineno > n.end_lineno]
                    if not stores and not later:
                        loads = sorted([x for st in n.body for x in ast.walk(st) if isinstance(x, ast.Name) and x.id == v and isinstance(x.ctx, ast.Load)],
                                       key=lambda x: (x.lineno, x.col_offset), reverse=True)
                        new_src = src
                        for x in loads:
                            new_src = splice(new_src, x, f"({v} - 1)")
                        new_src = splice(new_src, n.iter, f"enumerate({seg(lines, n.iter.args[0])}, start=1)")
                        yield ("enumstart", site, rel, new_src)
                if "fullzeros" in kinds and isinstance(n, ast.Call) and isinstance(n.func, ast.Attribute) and n.func.attr == "zeros" and len(n.args) + len(n.keywords) == 1 \
                        and (n.args or n.keywords[0].arg == "shape"):
                    shp = n.args[0] if n.args else n.keywords[0].value
                    yield ("fullzeros", site, rel, splice(src, n, f"{seg(lines, n.func.value)}.full({seg(lines, shp)}, 0.0)"))
                if "intwrap" in kinds and isinstance(n, ast.Subscript) and isinstance(n.ctx, ast.Load) and isinstance(n.value, ast.Attribute) and n.value.attr == "shape" \
                        and isinstance(n.slice, ast.Constant) and not f.decorators:
                    yield ("intwrap", site, rel, splice(src, n, f"int({seg(lines, n)})"))
                if "explicitdefault" in kinds and isinstance(n, ast.Call) and not any(isinstance(a, ast.Starred) for a in n.args) and len(n.args) == 1:
                    from .. import terms as _tm
                    r = ana.res.fq_of_expr(f, n.func)
                    dflt = _tm.KNOWN_DEFAULTS.get(r[1]) if r else None
                    if dflt:
                        have = {k.arg for k in n.keywords}
                        add = [(k, v) for k, v in dflt.items() if k not in have][:2]
                        if add and all(k.arg for k in n.keywords):
                            parts = [seg(lines, a) for a in n.args] + [f"{k.arg}={seg(lines, k.value)}" for k in n.keywords] + [f"{k}={v!r}" for k, v in add]
                            yield ("explicitdefault", site, rel, splice(src, n, f"{seg(lines, n.func)}({', '.join(parts)})"))
                if "condstore" in kinds and isinstance(n, ast.If) and n.orelse and len(n.body) == len(n.orelse) and lines[n.lineno - 1][n.col_offset:].startswith("if ") \
                        and all(isinstance(a, ast.Assign) and isinstance(b_, ast.Assign) and len(a.targets) == 1 and len(b_.targets) == 1
                                and isinstance(a.targets[0], ast.Subscript) and ast.dump(a.targets[0]) == ast.dump(b_.targets[0]) for a, b_ in zip(n.body, n.orelse)):
                    ind = indent_of(lines, n)
                    parts = [f"flag__ = {seg(lines, n.test)}"]
                    for a, b_ in zip(n.body, n.orelse):
                        parts.append(f"{seg(lines, a.targets[0])} = ({seg(lines, a.value)}) if flag__ else ({seg(lines, b_.value)})")
                    whole = type("N", (), {"lineno": n.lineno, "col_offset": n.col_offset, "end_lineno": n.end_lineno, "end_col_offset": n.end_col_offset})
                    yield ("condstore", site, rel, splice(src, whole, ("\n" + ind).join(parts)))
                if "starargs" in kinds and isinstance(n, (ast.Assign, ast.Expr)) and isinstance(n.value, ast.Call) and n.col_offset == len(indent_of(lines, n)) and n.lineno == n.end_lineno:
                    c = n.value
                    cal = ana.res.callee(f, c)
                    if cal.func is not None and cal.kind == "internal" and len(c.args) >= 3 and not c.keywords \
                            and all(isinstance(a, ast.Name) or (isinstance(a, ast.Attribute) and no_calls(a)) for a in c.args[1:]) \
                            and not any(isinstance(a, ast.Starred) for a in c.args):
                        ind = indent_of(lines, n)
                        pack = ", ".join(seg(lines, a) for a in c.args[1:])
                        call_txt = f"{seg(lines, c.func)}({seg(lines, c.args[0])}, *rest__)"
                        txt = f"rest__ = ({pack},)\n{ind}" + splice(seg(lines, n), type("N", (), {"lineno": 1, "col_offset": c.col_offset - n.col_offset, "end_lineno": c.end_lineno - n.lineno + 1, "end_col_offset": c.end_col_offset if c.end_lineno != n.lineno else c.end_col_offset - n.col_offset}), call_txt)
                        yield ("starargs", site, rel, splice(src, n, txt))


def analyse(job):
    kind, site, rel, new_src = job[:4]
    root = job[4] if len(job) > 4 else ROOT
    pids = job[5] if len(job) > 5 else PIDS
    from ..build import Analysis
    from ..report import run_rules, load_known_findings, match_known
    tmp = tempfile.mkdtemp(prefix="sa_mech_")
    try:
        shutil.copytree(os.path.join(root, "src"), os.path.join(tmp, "src"), ignore=shutil.ignore_patterns("__pycache__", "*.pyc"))
        if os.path.exists(os.path.join(root, "pyproject.toml")):
            shutil.copy(os.path.join(root, "pyproject.toml"), tmp)
        try:
            ast.parse(new_src)
        except SyntaxError as e:
            return kind, site, {"_": ("generator", [f"variant does not parse: {e}"])}
        open(os.path.join(tmp, "src", rel), "w").write(new_src)
        findings = load_known_findings()
        out = {}
        try:
            ana = Analysis(tmp)
        except Exception as e:
            return kind, site, {"_": ("loader", [str(e)[:200]])}
        for pid in pids:
            obls, _ = run_rules(ana, pid)
            fails = sorted({o.rule for o in obls if o.status == "fail" and not match_known(o, findings)})
            errs = sorted({o.rule for o in obls if o.status == "error"})
            if fails:
                out[pid] = ("VIOLATION", fails)
            elif errs:
                out[pid] = ("undecided", errs)
        return kind, site, out
    finally:
        shutil.rmtree(tmp, ignore_errors=True)


THIRD = ("privrename", "paramswap", "dbgassert", "tomap", "enumstart", "starargs", "fullzeros", "intwrap", "explicitdefault", "condstore")
ALL_KINDS = ("flip", "negif", "ifexp", "kwargs", "posargs", "rettmp", "acc", "assigntmp", "nop",
             "unpack", "toifexp", "defaultelse", "rangeshift", "for2while", "comp2loop", "kwshuffle")


def run(root, pid, ana=None, jobs=16, stride=4):
    """Thorough tier: a deterministic quarter of the mechanical twins (offset by the property number), analysed for `pid` only."""
    work = list(variants(set(ALL_KINDS), root, ana)) + list(third_generation(set(THIRD), root))
    off = int(pid[1:]) % stride
    work = [w + (root, [pid]) for i, w in enumerate(work) if i % stride == off]
    silent = und = 0
    bad = []
    with ProcessPoolExecutor(jobs) as ex:
        for kind, site, out in ex.map(analyse, work, chunksize=2):
            if not out:
                silent += 1
            elif any(v[0] == "VIOLATION" for v in out.values()):
                bad.append(f"{kind} at {site}: " + "; ".join(",".join(v[1]) for v in out.values()))
            else:
                und += 1
    return {"variants": len(work), "silent": silent, "undecided": und, "not_silent": bad}


def main():
    args = sys.argv[1:]
    kinds = set(ALL_KINDS)
    jobs, mx, outf = 16, None, None
    while args:
        a = args.pop(0)
        if a == "--kinds":
            kinds = set(args.pop(0).split(","))
        elif a == "--jobs":
            jobs = int(args.pop(0))
        elif a == "--max":
            mx = int(args.pop(0))
        elif a == "--out":
            outf = args.pop(0)
    work = list(variants(kinds)) + list(third_generation(kinds if kinds != set(ALL_KINDS) else set(THIRD)))
    if mx:
        work = work[:mx]
    counts = {}
    bad = und = 0
    rows = []
    with ProcessPoolExecutor(jobs) as ex:
        for kind, site, out in ex.map(analyse, work, chunksize=2):
            c = counts.setdefault(kind, [0, 0, 0])
            c[0] += 1
            if any(v[0] == "VIOLATION" for v in out.values()):
                c[2] += 1
                bad += 1
                print(f"VIOLATION {kind} {site} " + "; ".join(f"{p}:{','.join(v[1])}" for p, v in out.items() if v[0] == "VIOLATION"), flush=True)
            elif out:
                c[1] += 1
                und += 1
                print(f"undecided {kind} {site} " + "; ".join(f"{p}:{','.join(v[1])}" for p, v in out.items()), flush=True)
            rows.append((kind, site, out))
    print(f"{len(work)} mechanical twins: {len(work) - bad - und} silent, {und} undecided, {bad} with a false VIOLATION")
    for k, (n, u, v) in sorted(counts.items()):
        print(f"  {k}: {n} variants, {u} undecided, {v} VIOLATION")
    if outf:
        json.dump({"counts": counts, "not_silent": [(k, s, o) for k, s, o in rows if o]}, open(outf, "w"), indent=1)
    sys.exit(1 if bad else 0)


if __name__ == "__main__":
    main()
