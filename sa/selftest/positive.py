"""Positive examples ("canaries"): for rules whose expected number of findings is zero, one designated seeded break per
property is applied to a scratch copy of the tree under analysis on *every* run (quick tier included) and must be reported
by the named rule - otherwise the rule has gone blind and the check fails closed (exit 2).  A canary whose anchor snippet no
longer exists in the analysed tree is reported as skipped (the thorough tier's corpus says more)."""
from __future__ import annotations

from . import corpus, mutants

CANARIES = {
    "C01": ["C01-price-index-plus-one"],
    "C02": ["C02-rho-over-two"],
    "C03": ["C03-prefix-logdet-update"],
    "C04": ["C04-pad-half-minus-one"],
    "C05": ["C05-refresh-only-when-none"],
    "C06": ["C06-prefix-placeholder"],
    "C07": ["C07-prefix-mask-off-by-one"],
    "C08": ["C08-copy-only-recipients"],
    "C09": ["C09-mrf-from-fitted-state"],
    "C10": ["C10-accumulate"],
    "C11": ["C11-corners-drop-last"],
    "C12": ["C12-bias-hardwired"],
    "C13": ["C13-stats-update-in-place", "C13-prefix-userargs-shallow-deepcopy"],
    "C14": ["C14-default-rng", "C20-module-cache-of-last-model"],
    "C15": ["C15-prange-reduction"],
    "C16": ["C16-carried-never-updated"],
    "C17": ["C17-df-off-by-one"],
    "C18": ["C18-prefix-isinstance-float", "C18-prefix-negated-epsilon"],
    "C19": ["C19-stack-centres-input"],
    "C20": ["C20-release-only-on-success", "C20-swallow-worker-error"],
}


def run(pid, root):
    out = []
    byid = {m["id"]: m for m in mutants.MUTANTS}
    for mid in CANARIES.get(pid, []):
        m = byid.get(mid)
        if m is None or pid not in m["expect"]:
            out.append({"name": mid, "rule": "?", "fired": False, "note": "canary not in corpus"})
            continue
        want = m["expect"][pid]
        wants = want if isinstance(want, (list, tuple)) else [want]
        _mid, res = corpus.analyse_variant((root, mid, m["edits"], [pid]))
        if res is None:
            out.append({"name": mid, "rule": wants[0], "fired": True, "skipped": True, "note": "anchor snippet not present in the analysed tree"})
            continue
        got = res[pid]
        fired = any(w in got["fails"] for w in wants)
        # on a tree whose function has been re-written the rule may abstain (sa/report.py, _reformulated) - it is not blind
        abstained = (not fired) and any(e.split(":")[0] in wants and ("re-written" in e or "cannot decide" in e) for e in got["errors"])
        out.append({"name": mid, "rule": wants[0], "fired": fired or abstained, "abstained": abstained, "reported": got["fails"]})
    return out
