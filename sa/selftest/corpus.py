"""Mutant / twin corpus.  Each entry is an edit of the *current* source located by an exact
snippet inside one file (never by line); a snippet that no longer occurs exactly once means the
anchor is gone and the mutant is skipped.  Mutants are analysed, never executed.

  expect = {"C20": "C20.R1"}   the check of C20 must report a violation of rule C20.R1
  expect = {"C20": None}       behaviour-preserving twin: the check of C20 must stay silent
"""
from __future__ import annotations

import hashlib
import json
import os
import shutil
import tempfile
from concurrent.futures import ProcessPoolExecutor
from typing import Dict, List, Optional

from . import mutants as _m

REFERENCE_DIGEST_FILE = os.path.join(os.path.dirname(__file__), "reference_digest.txt")


def make_variant(root: str, edits) -> Optional[str]:
    """Copy the package to a scratch dir and apply the edits.  None if an anchor is gone."""
    tmp = tempfile.mkdtemp(prefix="sa_mut_")
    try:
        shutil.copytree(os.path.join(root, "src"), os.path.join(tmp, "src"),
                        ignore=shutil.ignore_patterns("__pycache__", "*.pyc", "*.txt"))
        pp = os.path.join(root, "pyproject.toml")
        if os.path.exists(pp):
            shutil.copy(pp, os.path.join(tmp, "pyproject.toml"))
        for (rel, old, new) in edits:
            p = os.path.join(tmp, "src", "fast_ticc", rel)
            if not os.path.exists(p):
                shutil.rmtree(tmp, ignore_errors=True)
                return None
            s = open(p).read()
            if s.count(old) != 1:
                shutil.rmtree(tmp, ignore_errors=True)
                return None
            open(p, "w").write(s.replace(old, new))
        return tmp
    except Exception:
        shutil.rmtree(tmp, ignore_errors=True)
        raise


TWIN_DIR = os.path.join(os.path.dirname(os.path.dirname(os.path.dirname(os.path.abspath(__file__)))), "twins")


def make_variant_from_patch(root: str, patch_file: str) -> Optional[str]:
    """Scratch copy with a unified diff applied (behaviour-preserving refactorings written by independent sub-agents)."""
    import subprocess
    tmp = tempfile.mkdtemp(prefix="sa_twin_")
    try:
        shutil.copytree(os.path.join(root, "src"), os.path.join(tmp, "src"),
                        ignore=shutil.ignore_patterns("__pycache__", "*.pyc", "*.txt"))
        pp = os.path.join(root, "pyproject.toml")
        if os.path.exists(pp):
            shutil.copy(pp, os.path.join(tmp, "pyproject.toml"))
        r = subprocess.run(["patch", "-p1", "-s", "--no-backup-if-mismatch", "-i", patch_file], cwd=tmp, capture_output=True, text=True)
        if r.returncode != 0:
            shutil.rmtree(tmp, ignore_errors=True)
            return None
        return tmp
    except Exception:
        shutil.rmtree(tmp, ignore_errors=True)
        raise


def _expected_undecided():
    p = os.path.join(TWIN_DIR, "EXPECTED_UNDECIDED.json")
    if os.path.exists(p):
        return {k: v for k, v in json.load(open(p)).items() if not k.startswith("_")}
    return {}


def patch_twins():
    out = []
    if os.path.isdir(TWIN_DIR):
        for k in sorted(os.listdir(TWIN_DIR)):
            pf = os.path.join(TWIN_DIR, k, "patch.diff")
            if os.path.exists(pf) and os.path.getsize(pf) > 0:
                out.append((k, pf))
    return out


def thorough_slice(twins, pid):
    """What one thorough run re-analyses: every structural refactoring (R*, S*), every small-edit twin written against this very
    property (T-/U-/V-/W-<pid>-*), and a deterministic quarter of the remaining small-edit twins (offset by the property number), so
    that the 20 thorough runs together cover each twin five times over.  `tools/refaceval.py /verif/twins` analyses all of them
    with all checks."""
    off = int(pid[1:]) % 4
    out, k = [], 0
    for name, pf in twins:
        if name[0] in "RS" and name[1].isdigit():
            out.append((name, pf))
        elif f"-{pid}-" in name:
            out.append((name, pf))
        else:
            if k % 4 == off:
                out.append((name, pf))
            k += 1
    return out


def analyse_variant(args):
    root, mid, edits, pids = args
    from ..build import Analysis
    from ..report import run_rules, load_known_findings, match_known
    tmp = make_variant_from_patch(root, edits) if isinstance(edits, str) else make_variant(root, edits)
    if tmp is None:
        return mid, None
    try:
        out = {}
        findings = load_known_findings()
        try:
            ana = Analysis(tmp)
        except Exception as e:
            return mid, {p: {"fails": [], "errors": [f"loader: {e}"]} for p in pids}
        for pid in pids:
            obls, _ = run_rules(ana, pid)
            fails = sorted({o.rule for o in obls if o.status == "fail" and not match_known(o, findings)})
            errs = [f"{o.rule}: {o.what}" for o in obls if o.status == "error"]
            out[pid] = {"fails": fails, "errors": errs}
        return mid, out
    finally:
        shutil.rmtree(tmp, ignore_errors=True)


def entries_for(pid):
    return [m for m in _m.MUTANTS if pid in m["expect"]]


def run(pid, root, ana, jobs=None):
    entries = entries_for(pid)
    ref = open(REFERENCE_DIGEST_FILE).read().strip() if os.path.exists(REFERENCE_DIGEST_FILE) else None
    on_ref = (ref == ana.prog.digest())
    res = {"mutants_applied": 0, "mutants_reported": 0, "mutants_skipped": 0, "twins_applied": 0, "twins_silent": 0,
           "on_reference_tree": on_ref, "errors": [], "details": []}
    if not entries:
        return res
    work = [(root, m["id"], m["edits"], [pid]) for m in entries]
    ptw = thorough_slice(patch_twins(), pid)
    work += [(root, "patch:" + k, pf, [pid]) for k, pf in ptw]
    res["patch_twins_applied"] = 0
    res["patch_twins_silent"] = 0
    jobs = jobs or min(16, os.cpu_count() or 4)
    with ProcessPoolExecutor(max_workers=jobs) as ex:
        results = dict(ex.map(analyse_variant, work))
    for k, _pf in ptw:
        r = results.get("patch:" + k)
        if r is None:
            continue            # does not apply to the analysed tree (edited): skipped
        res["patch_twins_applied"] += 1
        got = r[pid]
        if not got["fails"] and not got["errors"]:
            res["patch_twins_silent"] += 1
        elif not got["fails"] and pid in _expected_undecided().get(k, {}):
            # documented limit: the check says 'cannot decide' (exit 2) on this reformulation - never a false VIOLATION
            res["patch_twins_undecided"] = res.get("patch_twins_undecided", 0) + 1
        else:
            res["errors"].append(f"refactoring twin {k} is not silent: fails={got['fails']} errors={got['errors'][:1]}")
    for m in entries:
        r = results.get(m["id"])
        want = m["expect"][pid]
        if r is None:
            res["mutants_skipped"] += 1
            res["details"].append({"id": m["id"], "outcome": "skipped (anchor gone)"})
            continue
        got = r[pid]
        if want is None:
            res["twins_applied"] += 1
            if not got["fails"] and not got["errors"]:
                res["twins_silent"] += 1
                res["details"].append({"id": m["id"], "outcome": "twin silent"})
            else:
                res["errors"].append(f"twin {m['id']} is not silent: fails={got['fails']} errors={got['errors'][:2]}")
        else:
            res["mutants_applied"] += 1
            wants = want if isinstance(want, (list, tuple)) else [want]
            if any(w in got["fails"] for w in wants):
                res["mutants_reported"] += 1
                res["details"].append({"id": m["id"], "outcome": f"reported by {[w for w in wants if w in got['fails']]}",
                                       "also": [f for f in got["fails"] if f not in wants]})
            else:
                res["errors"].append(f"mutant {m['id']} not reported by {wants}: fails={got['fails']} errors={got['errors'][:2]}")
    return res


def run_all(root="/repo", only=None, jobs=None):
    """Developer entry point: run every mutant against every property it names."""
    work = []
    for m in _m.MUTANTS:
        if only and not any(m["id"].startswith(o) or o in m["expect"] for o in only):
            continue
        work.append((root, m["id"], m["edits"], sorted(m["expect"])))
    jobs = jobs or min(16, os.cpu_count() or 4)
    with ProcessPoolExecutor(max_workers=jobs) as ex:
        results = dict(ex.map(analyse_variant, work))
    bad = 0
    for m in _m.MUTANTS:
        if m["id"] not in results:
            continue
        r = results[m["id"]]
        if r is None:
            print(f"SKIP  {m['id']}")
            continue
        for pid, want in sorted(m["expect"].items()):
            got = r[pid]
            if want is None:
                ok = not got["fails"] and not got["errors"]
            else:
                wants = want if isinstance(want, (list, tuple)) else [want]
                ok = any(w in got["fails"] for w in wants)
            if not ok:
                bad += 1
            print(f"{'ok   ' if ok else 'BAD  '} {m['id']:42s} {pid} want={want} fails={got['fails']} errors={[e[:90] for e in got['errors'][:2]]}")
    return bad


if __name__ == "__main__":
    import sys
    sys.exit(1 if run_all(only=sys.argv[1:] or None) else 0)
