"""L4 (reconstruction part): rebuild, for an expression of the analysed source, the term it
denotes as a function of the enclosing function's inputs, by substituting use-def chains
and inlining package-internal callees.  Nothing is executed.
"""
from __future__ import annotations

import ast
import os
from dataclasses import dataclass, field
from fractions import Fraction
from typing import Callable, Dict, List, Optional, Set, Tuple

from . import terms as tm
from .cfg import CFG, Node, ReachingDefs
from .loader import AnalysisError, FuncInfo, Program
from .resolve import Resolver
from .terms import (And, App, Attr, Cat, Cmp, Comp, Idx, Lit, Lst, Not, Or, Poly, PW, Range, Rep, Slc, Sum, Sym, T,
                    Tup)


class Opaque(Exception):
    """The construct is outside the supported idioms: the caller falls back to an
    uninterpreted application or reports ANALYSIS-ERROR."""


LIST_MUTATORS = {"append", "extend", "insert", "pop", "remove", "sort", "reverse", "clear"}
ARRAY_MUTATORS = {"fill", "resize", "put", "itemset", "partition", "sort", "setfield", "setflags"}
# ndarray methods that write into the receiver only when asked to: x.byteswap(inplace=True), x.clip(..., out=x) is handled by out=
INPLACE_KW_METHODS = {"byteswap": "inplace"}
DICT_MUTATORS = {"update", "setdefault", "popitem", "clear", "pop"}
SET_MUTATORS = {"add", "discard", "remove", "update", "clear", "pop"}
NDARRAY_METHODS = frozenset({"sum", "mean", "max", "min", "argmin", "argmax", "dot", "trace", "cumsum", "prod", "std", "var", "any", "all"})
ALL_MUTATOR_METHODS = LIST_MUTATORS | ARRAY_MUTATORS | DICT_MUTATORS | SET_MUTATORS
NP_INPLACE = {"numpy.copyto": 0, "numpy.put": 0, "numpy.place": 0, "numpy.putmask": 0, "numpy.fill_diagonal": 0,
              "random.shuffle": 0, "numpy.random.shuffle": 0}
EFFECT_FREE_CALLS = {"builtins.print"}


class Analysis:
    """Shared context: program, resolver, per-function CFG / reaching definitions."""

    def __init__(self, root: str, check_floor=True, normalize_helpers=True):
        self.prog = Program(root, check_floor=check_floor)
        kf = os.path.join(os.path.dirname(os.path.abspath(__file__)), "known_functions.txt")
        self.known_functions = set(open(kf).read().split()) if os.path.exists(kf) else set()
        # helpers that are not part of the reference decomposition are expanded in place before anything is analysed
        from .normalize import normalize
        self.norm = normalize(self.prog, Resolver(self.prog), self.known_functions if normalize_helpers else set())
        self.res = Resolver(self.prog)
        self._cfg: Dict[str, CFG] = {}
        self._rd: Dict[str, ReachingDefs] = {}
        self.stats = {"term_builds": 0, "inlined_calls": 0, "cfg_nodes": 0}
        kf = os.path.join(os.path.dirname(os.path.abspath(__file__)), "known_functions.txt")
        self.known_functions = set(open(kf).read().split()) if os.path.exists(kf) else set()

    def own_functions(self) -> List[FuncInfo]:
        """Every function of the package, except helpers that the normaliser expanded at *all* of their call sites: their code
        is analysed where it runs (inside the callers).  For who-may-do-X censuses."""
        norm = getattr(self, "norm", None)
        if norm is None or not norm.helpers:
            return list(self.prog.functions.values())
        kept = {l.split(" call to ")[1].split(" at line")[0] for l in norm.skipped if " call to " in l}
        expanded = {l.split(" <- ")[1].split(" (line")[0].replace("generator ", "") for l in norm.log if " <- " in l}
        out = []
        for q, f in self.prog.functions.items():
            if q in norm.helpers and q in expanded and q not in kept and not self._still_called(f):
                continue
            out.append(f)
        return out

    def _still_called(self, f: FuncInfo) -> bool:
        for g in self.prog.functions.values():
            if g is f:
                continue
            for cs in self.res.calls(g):
                if cs.callee.func is f and g.qualname not in getattr(self.norm, "helpers", {}):
                    return True
        return False

    def known(self, f: FuncInfo) -> bool:
        """Functions confirmed on the reference tree are treated as interface atoms by rules that reason about them by
        name; anything else (a helper extracted later) is inlined."""
        return f.qualname in self.known_functions or f.qualname in getattr(self.prog, "renamed", {}).values()

    def cfg(self, fi: FuncInfo) -> CFG:
        c = self._cfg.get(fi.qualname)
        if c is None:
            c = CFG(fi)
            self._cfg[fi.qualname] = c
            self.stats["cfg_nodes"] += len(c.nodes)
        return c

    def rd(self, fi: FuncInfo) -> ReachingDefs:
        r = self._rd.get(fi.qualname)
        if r is None:
            r = ReachingDefs(self.cfg(fi))
            self._rd[fi.qualname] = r
        return r

    def func(self, q) -> FuncInfo:
        return self.prog.func(q)

    def builder(self, fi: FuncInfo, **kw) -> "TermBuilder":
        return TermBuilder(self, fi, **kw)

    def is_logging_call(self, fi: FuncInfo, call: ast.Call) -> bool:
        f = call.func
        if isinstance(f, ast.Attribute) and f.attr in ("debug", "info", "warning", "error", "critical", "exception", "log"):
            d = self.res.dotted(f.value)
            if d and (d[-1].upper() == "LOGGER" or d[0] == "logging" or d[-1].lower().endswith("logger")):
                return True
        return False


@dataclass
class Store:
    node: Node
    stmt: ast.stmt
    target: ast.expr            # the Subscript / Attribute target
    base: T                     # term of the object written
    base_name: Optional[str]    # root variable name when the base is a plain name
    idx: Optional[Tuple[T, ...]]  # index terms for subscript stores
    attr: Optional[str]         # attribute name for attribute stores
    value: T
    guards: T
    loops: List[ast.AST]
    aug: Optional[str] = None
    loop_ranges: List[Optional[T]] = field(default_factory=list)   # Range of each enclosing loop (None when not a range loop)
    loop_vars: List[Optional[T]] = field(default_factory=list)     # loop variable symbol (range loops) / index symbol
    via: Optional[str] = None                                       # qualname of the inlined callee the store comes from


class TermBuilder:
    MAX_DEPTH = 8

    def __init__(self, ana: Analysis, fi: FuncInfo, bindings: Optional[Dict[str, T]] = None,
                 cuts: Optional[Dict[int, T]] = None, depth: int = 0,
                 no_inline: Optional[Callable[[FuncInfo], bool]] = None,
                 name_cuts: Optional[Dict[str, T]] = None):
        self.ana = ana
        self.fi = fi
        self.cfg = ana.cfg(fi)
        self.rd = ana.rd(fi)
        self.bindings = dict(bindings or {})
        self.cuts = dict(cuts or {})
        self.name_cuts = dict(name_cuts or {})
        self.depth = depth
        self.no_inline = no_inline
        self.ranks = tm.RankEnv()
        self.loopvars: Dict[str, Tuple] = {}
        self.seq_keys: Set[str] = set()
        self._memo: Dict[Tuple[int, str], T] = {}
        self._busy: Set[Tuple[int, str]] = set()
        self._bound: List[Dict[str, T]] = []
        self._comp_depth = 0
        self.mutated: Dict[str, List[ast.AST]] = {}
        self.inplace_calls: Dict[str, List[ast.AST]] = {}
        self.assumptions: Set[str] = set()
        self._scan_mutations()
        self._init_ranks()
        ana.stats["term_builds"] += 1

    # ------------------------------------------------------------ pre-scans
    def _scan_mutations(self):
        for n in Resolver.walk_own(self.fi.node):
            tgt = None
            if isinstance(n, ast.Assign):
                for t in n.targets:
                    for el in (t.elts if isinstance(t, (ast.Tuple, ast.List)) else [t]):
                        if isinstance(el, ast.Subscript):
                            r = _root_name(el.value)
                            if r and isinstance(el.value, ast.Name):
                                self.mutated.setdefault(r, []).append(n)
            elif isinstance(n, ast.AugAssign) and isinstance(n.target, ast.Subscript):
                r = _root_name(n.target.value)
                if r and isinstance(n.target.value, ast.Name):
                    self.mutated.setdefault(r, []).append(n)
            elif isinstance(n, ast.Call) and isinstance(n.func, ast.Attribute) and n.func.attr in ALL_MUTATOR_METHODS and n.func.attr != "setflags":
                # (x.setflags(write=False) changes who may write x, not its value: an ownership matter - sa/heap.py - not a term matter)
                if isinstance(n.func.value, ast.Name):
                    self.mutated.setdefault(n.func.value.id, []).append(n)
            if isinstance(n, ast.Call):
                # library functions that write into an argument (np.fill_diagonal(x, ..), np.putmask(x, ..), out=x): the value of
                # x after such a call is not what its definition says - and the term language has no model of the call
                r = self.ana.res.fq_of_expr(self.fi, n.func)
                if r and r[1] in NP_INPLACE:
                    k = NP_INPLACE[r[1]]
                    if k < len(n.args) and isinstance(n.args[k], ast.Name):
                        self.inplace_calls.setdefault(n.args[k].id, []).append(n)
                for kw_ in n.keywords:
                    if kw_.arg == "out" and isinstance(kw_.value, ast.Name):
                        self.inplace_calls.setdefault(kw_.value.id, []).append(n)

        # a row alias (`row = table[i]`) that is written through is a write into the table
        for n in Resolver.walk_own(self.fi.node):
            if isinstance(n, ast.Assign) and len(n.targets) == 1 and isinstance(n.targets[0], ast.Name) and n.targets[0].id in self.mutated \
                    and isinstance(n.value, ast.Subscript) and isinstance(n.value.value, ast.Name) and not any(isinstance(x, ast.Slice) for x in ast.walk(n.value.slice)):
                for m_ in self.mutated[n.targets[0].id]:
                    if m_ not in self.mutated.setdefault(n.value.value.id, []):
                        self.mutated[n.value.value.id].append(m_)

    def _init_ranks(self):
        # (a, b) = X.shape  =>  rank(X) = 2 ; X.shape[k] => rank >= k+1 (taken as k+1 minimum; only exact when unpacked)
        for n in Resolver.walk_own(self.fi.node):
            if isinstance(n, ast.Assign) and len(n.targets) == 1 and isinstance(n.targets[0], (ast.Tuple, ast.List)):
                v = n.value
                if isinstance(v, ast.Attribute) and v.attr == "shape" and isinstance(v.value, ast.Name):
                    self.ranks.set(Sym(v.value.id), len(n.targets[0].elts))
        changed = True
        rounds = 0
        while changed and rounds < 4:
            changed = False
            rounds += 1
            for n in Resolver.walk_own(self.fi.node):
                if isinstance(n, ast.Assign) and len(n.targets) == 1 and isinstance(n.targets[0], ast.Name):
                    name = n.targets[0].id
                    if Sym(name).key in self.ranks.ranks:
                        continue
                    r = self._alloc_rank(n.value)
                    if r is not None:
                        self.ranks.set(Sym(name), r)
                        changed = True

    def _alloc_rank(self, v) -> Optional[int]:
        if isinstance(v, ast.Call):
            r = self.ana.res.fq_of_expr(self.fi, v.func)
            fq = r[1] if r else None
            if fq in ("numpy.zeros", "numpy.ones", "numpy.empty", "numpy.full"):
                shp = v.args[0] if v.args else next((k.value for k in v.keywords if k.arg == "shape"), None)
                if isinstance(shp, (ast.Tuple, ast.List)):
                    return len(shp.elts)
                if isinstance(shp, ast.Attribute) and shp.attr == "shape" and isinstance(shp.value, ast.Name):
                    return self.ranks.ranks.get(Sym(shp.value.id).key)
                if isinstance(shp, ast.Attribute) and shp.attr == "size":
                    return 1
                if isinstance(shp, ast.Name):
                    # np.zeros(n) with a scalar n
                    return 1
            if fq in ("numpy.copy", "numpy.asarray", "numpy.array") and v.args and isinstance(v.args[0], ast.Name):
                return self.ranks.ranks.get(Sym(v.args[0].id).key)
        if isinstance(v, ast.BinOp):
            a = self._alloc_rank(v.left) if not isinstance(v.left, ast.Name) else self.ranks.ranks.get(Sym(v.left.id).key)
            b = self._alloc_rank(v.right) if not isinstance(v.right, ast.Name) else self.ranks.ranks.get(Sym(v.right.id).key)
            if a is not None and b is not None:
                return max(a, b)
        if isinstance(v, ast.Subscript) and isinstance(v.value, ast.Name):
            rb = self.ranks.ranks.get(Sym(v.value.id).key)
            if rb is not None:
                sl = v.slice
                elts = sl.elts if isinstance(sl, ast.Tuple) else [sl]
                n_int = sum(1 for e in elts if not isinstance(e, ast.Slice))
                return max(rb - n_int, 0)
        return None

    # ------------------------------------------------------------ helpers
    def at(self, expr) -> Node:
        return self.cfg.node_of(expr)

    def guard_term(self, node: Node, relative_to: Optional[Node] = None) -> T:
        gs = self.cfg.guards(node)
        if relative_to is not None:
            base = {(id(o), p) for (_t, p, o) in self.cfg.guards(relative_to)}
            gs = [g for g in gs if (id(g[2]), g[1]) not in base]
        parts = []
        for test, pol, owner in gs:
            t = self.term(test, self.cfg.stmt_node[id(owner)])
            t = self._as_bool(t)
            parts.append(t if pol else tm.negate(t))
        return tm.conj(parts)

    @staticmethod
    def _as_bool(t: T) -> T:
        return t

    def loop_range(self, for_stmt: ast.For) -> Optional[Range]:
        """Range of a `for v in range(...)` / prange loop, else None."""
        it = for_stmt.iter
        if isinstance(it, ast.Call):
            r = self.ana.res.fq_of_expr(self.fi, it.func)
            if r and r[1] in ("builtins.range", "fast_ticc.numba_guard.prange", "numba.prange"):
                t = tm.make_app("builtins.range", [self.term(a, self.cfg.for_init[id(for_stmt)]) for a in it.args])
                return t if isinstance(t, Range) else None
            if r and r[1] == "builtins.reversed" and it.args:
                t = self.term(it, self.cfg.for_init[id(for_stmt)])
                return t if isinstance(t, Range) else None
            if r and r[1] in ("builtins.enumerate", "builtins.zip"):
                # for (i, x) in enumerate(xs): the index runs over range(len(xs))
                if it.keywords or not it.args or any(isinstance(a, ast.Starred) for a in it.args) or (r[1] == "builtins.enumerate" and len(it.args) != 1):
                    return None
                n = tm.length(self.term(it.args[0], self.cfg.for_init[id(for_stmt)]))
                return Range(tm.ZERO, n)
        return None

    # ------------------------------------------------------------ names
    def name_term(self, name: str, at: Node) -> T:
        for scope in reversed(self._bound):
            if name in scope:
                return scope[name]
        if name in self.name_cuts:
            return self.name_cuts[name]
        defs = self.rd.reaching(at, name)
        if not defs:
            if name in self.ana.res.local_names(self.fi):
                # a local that is not (yet) defined on any path: opaque
                return Sym(f"{name}@undef")
            r = self.ana.res.fq_of_expr(self.fi, ast.Name(id=name, ctx=ast.Load()))
            if r is not None:
                kind, fq = r
                if kind == "global":
                    mod, nm = fq.rsplit(".", 1)
                    st = self.ana.prog.modules[mod].globals.get(nm)
                    if isinstance(st, ast.AnnAssign) and st.value is not None and isinstance(st.target, ast.Name):
                        st = ast.copy_location(ast.Assign(targets=[st.target], value=st.value), st)     # NAME: int = 5
                    if isinstance(st, ast.Assign) and isinstance(st.value, ast.Constant) \
                            and self.ana.prog.modules[mod].global_assign_count.get(nm, 0) == 1:
                        return tm.as_term(st.value.value) if not isinstance(st.value.value, float) else tm.const(Fraction(repr(st.value.value)))
                    if isinstance(st, ast.Assign) and isinstance(st.value, ast.Tuple) and self.ana.prog.modules[mod].global_assign_count.get(nm, 0) == 1 \
                            and not self._rebound_by_global_stmt(mod, nm) and all(self._constant_expression(x) for x in st.value.elts):
                        # _COLUMN = (-1, 1): a module-level tuple of numbers is that tuple
                        try:
                            return Tup([self.term(x, at) for x in st.value.elts])
                        except Exception:
                            pass
                    if isinstance(st, ast.Assign) and self.ana.prog.modules[mod].global_assign_count.get(nm, 0) == 1 \
                            and not self._rebound_by_global_stmt(mod, nm) and self._constant_expression(st.value):
                        # LOG_2PI = math.log(2.0 * math.pi): a module constant defined by a closed arithmetic expression
                        try:
                            t = self.term(st.value, at)
                        except Exception:
                            t = None
                        if t is not None and not any(isinstance(x, Sym) and x.name not in ("pi", "e") for x in tm.subterms(t)):
                            return t
                return Sym(fq)
            return Sym(name)
        key = (at.id, name)
        if key in self._memo:
            return self._memo[key]
        if key in self._busy:
            return Sym(f"{name}@carried")
        self._busy.add(key)
        try:
            t = self._name_term(name, at, defs)
        finally:
            self._busy.discard(key)
        if isinstance(t, PW):
            # pieces whose guard is decided (`None is None` after a default was written in): a false piece goes, a true piece is the value
            live = [(g_, v_) for g_, v_ in t.pieces if tm.truth(g_) is not False]
            sure = [v_ for g_, v_ in live if tm.truth(g_) is True]
            if len(sure) == 1 and len(live) == 1:
                t = sure[0]
        # a value computed while a recurrence is being explored may contain a placeholder for the carried variable: it is an
        # intermediate of that exploration, not the value of the name at this point
        exploring = any(isinstance(k[1], str) and "#" in k[1] for k in self._busy)
        if not (exploring and any(isinstance(x, Sym) and "@" in x.name for x in tm.subterms(t))):
            self._memo[key] = t
        return t

    def _name_term(self, name, at, defs: List[Node]) -> T:
        if name in self.inplace_calls:
            # written by a library call somewhere in the function: after that call the definition no longer describes the value
            for c in self.inplace_calls[name]:
                cn = self.cfg.node_of(c)
                if cn is not None and cn.id != at.id and any(self._reaches(d, cn) for d in defs) and self._reaches(cn, at):
                    return Sym(f"{name}@mutated")
        if len(defs) == 1:
            d = defs[0]
            if d.id in self.cuts:
                return self.cuts[d.id]
            if name in self.mutated and d.kind != "for":
                special = self._mutated_value(name, at, d)
                if special is not None:
                    return special
                dv = d.ast.value if d.kind == "stmt" and isinstance(d.ast, ast.Assign) and len(d.ast.targets) == 1 and isinstance(d.ast.targets[0], ast.Name) else None
                if isinstance(dv, ast.Subscript) and isinstance(dv.value, ast.Name) and name not in self.inplace_calls \
                        and not any(isinstance(x, ast.Slice) for x in ast.walk(dv.slice)) and dv.value.id in self.mutated:
                    # `row = table[i]; row[a:b] = v`: a row of an array (or an inner list) is the same storage as table[i]
                    return self._def_term(name, d)
                if isinstance(dv, ast.Attribute) and _root_name(dv) is not None and name not in self.inplace_calls:
                    # `xs = obj.field; xs[k] = v`: the local is another name for the object the attribute path denotes; an element
                    # store through it is a store into obj.field
                    chain_ok = True
                    e_ = dv
                    while isinstance(e_, ast.Attribute):
                        e_ = e_.value
                    if isinstance(e_, ast.Name) and chain_ok:
                        return self._def_term(name, d)
                return Sym(name)
            return self._def_term(name, d)
        # several reaching definitions
        for d in defs:
            if d.id in self.cuts:
                return self.cuts[d.id]
        if name in self.mutated:
            return Sym(name)
        red = self._reduction(name, at, defs)
        if red is not None:
            return red
        pw = self._piecewise(name, at, defs)
        if pw is not None:
            return pw
        lag = self._lagged(name, at, defs)
        if lag is not None:
            return lag
        # an unknown mix of several definitions.  Two program points see the *same* unknown when the same definitions reach both and
        # no loop that separates them redefines the name (reading `state` in the header and in the body of a loop that never assigns
        # it); the symbol is therefore named after the reaching definitions and the enclosing loops that contain one of them
        import zlib
        loops = [l for l in self.cfg.enclosing_loops(at) if any(l in self.cfg.enclosing_loops(d) for d in defs)]
        sig = ",".join(map(str, sorted(d.id for d in defs))) + "|" + ",".join(str(getattr(l, "lineno", 0)) for l in loops)
        return Sym(f"{name}@phi{zlib.crc32(sig.encode()) % 100000}")

    def _constant_expression(self, e: ast.expr) -> bool:
        """Numbers, math.pi / numpy.pi, arithmetic, and math.* / numpy.* functions of such."""
        if isinstance(e, ast.Constant):
            return isinstance(e.value, (int, float)) and not isinstance(e.value, bool)
        if isinstance(e, ast.UnaryOp):
            return self._constant_expression(e.operand)
        if isinstance(e, ast.BinOp):
            return self._constant_expression(e.left) and self._constant_expression(e.right)
        if isinstance(e, ast.Attribute):
            r = self.ana.res.fq_of_expr(self.fi, e)
            return bool(r) and r[1] in ("math.pi", "numpy.pi", "math.e", "numpy.e", "math.tau")
        if isinstance(e, ast.Call) and not e.keywords:
            r = self.ana.res.fq_of_expr(self.fi, e.func)
            return bool(r) and r[1] in ("math.log", "math.sqrt", "math.exp", "numpy.log", "numpy.sqrt", "numpy.exp", "builtins.float", "builtins.int") \
                and all(self._constant_expression(a) for a in e.args)
        return False

    def _rebound_by_global_stmt(self, mod: str, nm: str) -> bool:
        for f in self.ana.prog.functions.values():
            if f.module.name == mod:
                for n in ast.walk(f.node):
                    if isinstance(n, ast.Global) and nm in n.names:
                        return True
        return False

    def _reaches(self, a: Node, b: Node) -> bool:
        if a.id == b.id:
            return True
        return self.cfg.paths_avoiding(a, set(), {b.id}, kinds=("n",)) is not None

    def _lagged(self, name, at: Node, defs: List[Node]) -> Optional[T]:
        """v = init before a range loop; inside the loop v is read first and unconditionally reassigned later in the body:
        at iteration i the read sees init (first iteration) or the value assigned in iteration i - step."""
        if len(defs) != 2:
            return None
        loops = self.cfg.enclosing_loops(at)
        if not loops or not isinstance(loops[-1], ast.For):
            return None
        L = loops[-1]
        d_out = [d for d in defs if L not in self.cfg.enclosing_loops(d)]
        d_in = [d for d in defs if self.cfg.enclosing_loops(d) == loops]
        if len(d_out) != 1 or len(d_in) != 1:
            return None
        d0, d1 = d_out[0], d_in[0]
        if d1.kind != "stmt" or not isinstance(d1.ast, ast.Assign) or self.cfg.dominates(d1, at):
            return None
        hdr = self.cfg.stmt_node[id(L)]
        if not self.cfg.dominates(d0, hdr) and d0.kind != "entry":
            return None
        body = next(self.cfg.nodes[s_] for s_, _k in self.cfg.succ[hdr.id] if self.cfg.nodes[s_].kind == "branch" and self.cfg.nodes[s_].polarity)
        base = {(id(o), p) for (_t, p, o) in self.cfg.guards(body)}
        if [g for g in self.cfg.guards(d1) if (id(g[2]), g[1]) not in base]:
            return None       # conditionally reassigned: a genuine recurrence
        # the reassignment must be reached on every iteration that continues (no continue skipping it)
        if self.cfg.paths_avoiding(body, {d1.id}, {hdr.id}, kinds=("n",)) is not None:
            return None
        rng = self.loop_range(L)
        if rng is None or not isinstance(L.target, ast.Name) or rng.step not in (tm.ONE, tm.const(-1)):
            # not a range loop: a running total over `for x in seq` is still a prefix sum over the position
            return self._prefix_sum(name, L, d0, d1)
        i = Sym(L.target.id)
        key = (d1.id, name + "#lag")
        if key in self._busy:
            return None
        self._busy.add(key)
        try:
            val = self._def_term(name, d1)
        finally:
            self._busy.discard(key)
        if any(isinstance(x, Sym) and "@" in x.name for x in tm.subterms(val)):
            ps = self._prefix_sum(name, L, d0, d1, val=val) if rng.step == tm.ONE else None
            return ps
        prev = tm.substitute(val, {i.key: tm.add(i, tm.neg(rng.step))})
        first = tm.compare("==", i, rng.lo)
        return PW([(first, self._def_term(name, d0)), (tm.negate(first), prev)])

    def _prefix_sum(self, name, L, d0: Node, d1: Node, val: Optional[T] = None) -> Optional[T]:
        """v = c before the loop; the only in-loop definition is v = v + g(position) (possibly through a chain of temporaries,
        executed on every iteration): a read before that update, at position k, sees c + SUM_{j < k} g(j)."""
        try:
            isym, it = self.binder_of(L)
        except Exception:
            return None
        if not isinstance(it, Range) or it.step != tm.ONE:
            return None
        key = (d1.id, name + "#psum")
        if key in self._busy:
            return None
        if val is None:
            self._busy.add(key)
            try:
                val = self._def_term(name, d1)
            finally:
                self._busy.discard(key)
        selfs = [x for x in tm.subterms(val) if isinstance(x, Sym) and "@" in x.name]
        if not selfs or any(x.name.split("@")[0] != name for x in selfs) or len({x.key for x in selfs}) != 1:
            return None
        X = selfs[0]
        g = tm.add(val, tm.neg(X))
        if any((isinstance(x, Sym) and ("@" in x.name or x.name == name)) for x in tm.subterms(g)):
            return None          # not additive in the carried value
        j = Sym("$p%d" % L.lineno)
        body = tm.substitute(g, {isym.key: j})
        init = self._def_term(name, d0)
        if not tm.mentions(body, j):
            # the same amount every iteration: a running offset k * step
            return tm.add(init, tm.mul(body, tm.add(isym, tm.neg(it.lo))))
        return tm.add(init, Sum(body, ((j, Range(it.lo, isym)),)))

    def _def_term(self, name: str, d: Node) -> T:
        if d.kind == "entry":
            if name in self.bindings:
                return self.bindings[name]
            return Sym(name)
        if d.kind == "for":
            return self._loopvar_term(name, d)
        if d.kind == "handler":
            return Sym(f"{name}@exc")
        if d.kind == "with_enter":
            return Sym(f"{name}@ctx")
        st = d.ast
        if isinstance(st, ast.Assign):
            val = None
            for t in st.targets:
                val = self._destructure(t, name, st.value, d)
                if val is not None:
                    break
            if val is None:
                return Sym(f"{name}@{d.id}")
            return val
        if isinstance(st, ast.AnnAssign) and st.value is not None:
            return self.term(st.value, d)
        if isinstance(st, ast.AugAssign):
            old = self.name_term(name, d)
            new = self._binop(st.op, old, self.term(st.value, d), st)
            return new
        if isinstance(st, ast.FunctionDef):
            body = effective_body(st.body)
            if len(body) == 1 and isinstance(body[0], ast.Return) and body[0].value is not None and not st.args.vararg and not st.args.kwarg:
                # a closure with a single return is the same thing as a lambda
                for sub in ast.walk(body[0].value):
                    self.cfg.expr_node.setdefault(id(sub), d)
                return self._lambda_term([a.arg for a in st.args.args], body[0].value, d)
            return Sym(f"{self.fi.qualname}.<locals>.{name}")
        if isinstance(st, ast.ClassDef):
            return Sym(f"{self.fi.qualname}.<locals>.{name}")
        return Sym(f"{name}@{d.id}")

    def _destructure(self, target, name, value_expr, d: Node) -> Optional[T]:
        if isinstance(target, ast.Name):
            if target.id == name:
                return self.term(value_expr, d)
            return None
        if isinstance(target, (ast.Tuple, ast.List)) and any(isinstance(el, ast.Starred) for el in target.elts):
            # a, *rest = value   (star in last position only)
            n = len(target.elts)
            star = [k for k, el in enumerate(target.elts) if isinstance(el, ast.Starred)]
            if len(star) == 1 and star[0] == n - 1:
                v = self.term(value_expr, d)
                for k, el in enumerate(target.elts):
                    if isinstance(el, ast.Name) and el.id == name:
                        return tm.index(v, (tm.const(k),), self.ranks)
                    if isinstance(el, ast.Starred) and isinstance(el.value, ast.Name) and el.value.id == name:
                        return Idx(v, (Slc(tm.const(k), None, None),))
            return Sym(f"{name}@{d.id}")
        if isinstance(target, (ast.Tuple, ast.List)):
            for k, el in enumerate(target.elts):
                if name in _names(el):
                    if isinstance(value_expr, (ast.Tuple, ast.List)) and len(value_expr.elts) == len(target.elts):
                        return self._destructure(el, name, value_expr.elts[k], d)
                    v = self.term(value_expr, d)
                    sub = tm.index(v, (tm.const(k),), self.ranks)
                    if isinstance(el, ast.Name):
                        return sub
                    # nested destructuring of an opaque value
                    return Sym(f"{name}@{d.id}")
        return None

    def _loopvar_term(self, name: str, d: Node) -> T:
        st: ast.For = d.ast
        tgt = st.target
        it = st.iter
        hdr = self.cfg.for_init[id(st)]
        rng = self.loop_range(st)
        if rng is not None and isinstance(tgt, ast.Name):
            s = Sym(name)
            self.loopvars[s.key] = ("range", rng, st)
            self.ranks.set(s, 0)
            return s
        # enumerate / zip / plain container
        if isinstance(it, ast.Call):
            r = self.ana.res.fq_of_expr(self.fi, it.func)
            fq = r[1] if r else None
            if fq == "builtins.enumerate" and isinstance(tgt, (ast.Tuple, ast.List)) and len(tgt.elts) == 2 and it.args:
                cont = self.term(it.args[0], hdr)
                iv = tgt.elts[0]
                if isinstance(iv, ast.Name):
                    isym = Sym(iv.id)
                    self.loopvars[isym.key] = ("index", cont, st)
                    self.ranks.set(isym, 0)
                    if name == iv.id:
                        return isym
                    if isinstance(tgt.elts[1], ast.Name) and tgt.elts[1].id == name:
                        return tm.index(cont, (isym,), self.ranks)
            if fq == "builtins.zip" and isinstance(tgt, (ast.Tuple, ast.List)) and len(tgt.elts) == len(it.args):
                isym = Sym("$zip%d" % st.lineno)
                self.loopvars[isym.key] = ("zip", tuple(self.term(a, hdr) for a in it.args), st)
                for k, el in enumerate(tgt.elts):
                    if isinstance(el, ast.Name) and el.id == name:
                        return tm.index(self.term(it.args[k], hdr), (isym,), self.ranks)
        if isinstance(tgt, ast.Name):
            cont = self.term(it, hdr)
            isym = Sym("$" + name)
            if isinstance(cont, Idx) and len(cont.idx) == 1 and isinstance(cont.idx[0], Attr) and cont.idx[0].name == "member_points":
                # rows selected by an index list: `for x in data[members]` visits data[members[k]] for k in range(len(members))
                sel = cont.idx[0]
                self.loopvars[isym.key] = ("index", sel, st)
                self.ranks.set(isym, 0)
                return tm.index(cont.base, (tm.index(sel, (isym,), self.ranks),), self.ranks)
            self.loopvars[isym.key] = ("index", cont, st)
            self.ranks.set(isym, 0)
            return tm.index(cont, (isym,), self.ranks)
        if isinstance(tgt, (ast.Tuple, ast.List)):
            cont = self.term(it, hdr)
            isym = Sym("$it%d" % st.lineno)
            self.loopvars[isym.key] = ("index", cont, st)
            for k, el in enumerate(tgt.elts):
                if isinstance(el, ast.Name) and el.id == name:
                    return tm.index(tm.index(cont, (isym,), self.ranks), (tm.const(k),), self.ranks)
        return Sym(f"{name}@loop{d.id}")

    def binder_of(self, for_stmt: ast.For) -> Tuple[T, T]:
        """(index symbol, iterable term) of a loop, as used in Sum binders."""
        hdr = self.cfg.stmt_node[id(for_stmt)]
        for nm in hdr.defs:
            self._loopvar_term(nm, hdr)
        for k, v in self.loopvars.items():
            if v[2] is for_stmt:
                if v[0] == "range":
                    return (Sym(k), v[1])
                if v[0] == "index":
                    return (Sym(k), Range(tm.ZERO, tm.length(v[1])))
                if v[0] == "zip":
                    return (Sym(k), Range(tm.ZERO, tm.length(v[1][0])))
        return (Sym("$loop%d" % for_stmt.lineno), App("iter", (self.term(for_stmt.iter, self.cfg.for_init[id(for_stmt)]),)))

    # -- several definitions -------------------------------------------------
    def _piecewise(self, name, at: Node, defs: List[Node]) -> Optional[T]:
        at_loops = set(map(id, self.cfg.enclosing_loops(at)))
        for d in defs:
            if d.kind in ("for", "handler", "entry") and len(defs) > 1 and d.kind != "entry":
                return None
            dl = set(map(id, self.cfg.enclosing_loops(d)))
            if not dl <= at_loops:
                return None  # a definition inside a loop that the use is not in
            if dl and not self.cfg.dominates(d, at) and self._via_back_edge(d, at):
                return None
        base = {(id(o), p) for (_t, p, o) in self.cfg.guards(at)}
        extras = []
        for d in defs:
            gs = [(t, p, o) for (t, p, o) in self.cfg.guards(d) if (id(o), p) not in base]
            extras.append(gs)
        nonempty = [e for e in extras if e]
        if len(nonempty) == len(defs):
            # pairwise exclusive?
            for i in range(len(defs)):
                for j in range(i + 1, len(defs)):
                    si = {(id(o), p) for (_t, p, o) in extras[i]}
                    sj = {(id(o), p) for (_t, p, o) in extras[j]}
                    if not any((o, not p) in sj for (o, p) in si):
                        return None
            pieces = []
            for d, gs in zip(defs, extras):
                g = tm.conj([self._guard_piece(t, p, o) for (t, p, o) in gs])
                pieces.append((g, self._def_term(name, d)))
            return tm.piecewise(pieces)
        if len(defs) == 2 and len(nonempty) == 1:
            d0 = defs[0] if not extras[0] else defs[1]
            d1 = defs[1] if not extras[0] else defs[0]
            gs = extras[1] if not extras[0] else extras[0]
            if self.cfg.dominates(d0, d1):
                g = tm.conj([self._guard_piece(t, p, o) for (t, p, o) in gs])
                return tm.piecewise([(g, self._def_term(name, d1)), (tm.negate(g), self._def_term(name, d0))])
        return None

    def _via_back_edge(self, d: Node, at: Node) -> bool:
        # d is in a loop shared with `at` and does not dominate it: it arrives through the back edge
        # unless it sits in a branch that joins before `at` in the same iteration.
        # Conservative test: if d's line is after at's line it must come round the loop.
        return d.lineno > at.lineno

    def _guard_piece(self, test, pol, owner) -> T:
        t = self.term(test, self.cfg.stmt_node[id(owner)])
        return t if pol else tm.negate(t)

    @staticmethod
    def accumulation(st, name=None):
        """(op, addend expression) when the statement accumulates into a plain name: `x += e`, `x -= e`, or the spelled-out
        `x = x + e`, `x = x - e` (same value; which object holds it is the ownership analysis' business, not the term's)."""
        if isinstance(st, ast.AugAssign) and isinstance(st.target, ast.Name) and (name is None or st.target.id == name):
            return st.op, st.value
        if isinstance(st, ast.Assign) and len(st.targets) == 1 and isinstance(st.targets[0], ast.Name) and isinstance(st.value, ast.BinOp) \
                and isinstance(st.value.op, (ast.Add, ast.Sub)) and isinstance(st.value.left, ast.Name) and st.value.left.id == st.targets[0].id \
                and (name is None or st.targets[0].id == name):
            return st.value.op, st.value.right
        return None

    def _reduction(self, name, at: Node, defs: List[Node]) -> Optional[T]:
        at_loops = self.cfg.enclosing_loops(at)
        init = [d for d in defs if not (d.kind == "stmt" and self.accumulation(d.ast, name))]
        augs = [d for d in defs if d.kind == "stmt" and self.accumulation(d.ast, name)]
        if len(init) != 1 or not augs:
            return None
        i0 = init[0]
        if i0.kind == "entry":
            init_term = self.bindings.get(name, Sym(name))
        elif i0.kind == "stmt" and isinstance(i0.ast, (ast.Assign, ast.AnnAssign)):
            init_term = self._def_term(name, i0)
        else:
            return None
        acc = init_term
        for a in augs:
            st_op, st_value = self.accumulation(a.ast, name)
            if not isinstance(st_op, ast.Add) and not isinstance(st_op, ast.Sub):
                return None
            loops = [l for l in self.cfg.enclosing_loops(a) if l not in at_loops]
            if not loops:
                return None
            if any(not isinstance(l, ast.For) for l in loops):
                return None
            # the accumulator must not be otherwise assigned inside those loops
            for n in self.cfg.nodes:
                if n is not a and name in n.defs and any(l in self.cfg.enclosing_loops(n) for l in loops):
                    return None
            binders = [self.binder_of(l) for l in loops]
            # value is built at the aug node; reads of `name` itself inside the value are not a reduction
            if any(isinstance(x, ast.Name) and x.id == name for x in ast.walk(st_value)):
                return None
            body = self.term(st_value, a)
            if isinstance(st_op, ast.Sub):
                body = tm.neg(body)
            # guard relative to the outermost reduction loop header
            hdr = self.cfg.stmt_node[id(loops[0])]
            base = {(id(o), p) for (_t, p, o) in self.cfg.guards(hdr)}
            gs = [(t, p, o) for (t, p, o) in self.cfg.guards(a) if (id(o), p) not in base]
            g = tm.conj([self._guard_piece(t, p, o) for (t, p, o) in gs]) if gs else None
            acc = tm.add(acc, Sum(body, binders, g))
        return acc

    # -- mutated names -------------------------------------------------------
    def _mutated_value(self, name: str, at: Node, d: Node) -> Optional[T]:
        """Value of a name whose object is mutated in place, for two recognised idioms:
        (a) list built by `x = []` + `x.append(e)` in one for loop that ends before the use;
        (b) `v = e0` + masked overwrite `v[m] = e1` that dominates the use."""
        muts = self.mutated.get(name, [])
        st = d.ast
        if isinstance(st, ast.AnnAssign) and isinstance(st.target, ast.Name) and st.value is not None:
            st = ast.Assign(targets=[st.target], value=st.value, lineno=st.lineno)
        if not isinstance(st, ast.Assign) or len(st.targets) != 1 or not isinstance(st.targets[0], ast.Name):
            return None
        # (a)
        if isinstance(st.value, ast.List) and not st.value.elts:
            appends = [m for m in muts if isinstance(m, ast.Call) and m.func.attr == "append"]
            if len(appends) == len(muts) == 1:
                call = appends[0]
                cn = self.cfg.node_of(call)
                loops = self.cfg.enclosing_loops(cn)
                at_loops = self.cfg.enclosing_loops(at)
                if len(loops) == 1 and loops[0] not in at_loops and isinstance(loops[0], ast.For):
                    # the append must run on every iteration (no guard inside the loop)
                    hdr = self.cfg.stmt_node[id(loops[0])]
                    base = {(id(o), p) for (_t, p, o) in self.cfg.guards(hdr)}
                    extra = [(t, p, o) for (t, p, o) in self.cfg.guards(cn) if (id(o), p) not in base]
                    if isinstance(cn.ast, ast.Expr) and cn.ast.value is call:
                        var, it = self.binder_of(loops[0])
                        elt = self.term(call.args[0], cn)
                        conds = [self._guard_piece(t, p, o) for (t, p, o) in extra]
                        c = Comp(elt, var, it, [tm.conj(conds)] if conds else [])
                        self.seq_keys.add(c.key)
                        return c
            return None
        # (b)
        stores = [m for m in muts if isinstance(m, ast.Assign)]
        if len(stores) == len(muts) == 1:
            s = stores[0]
            tgt = s.targets[0]
            sn = self.cfg.stmt_node.get(id(s))
            if (isinstance(tgt, ast.Subscript) and sn is not None and self.cfg.dominates(sn, at) and sn.id != at.id
                    and not self.cfg.enclosing_loops(sn)):        # (a read inside the storing statement sees the old value)
                base = self.term(st.value, d)
                mask = self.term(tgt.slice, sn)
                if self._is_mask(mask):
                    val = self.term(s.value, sn)
                    val = _strip_mask(val, mask)
                    return PW([(mask, val), (tm.negate(mask), base)])
        return None

    @staticmethod
    def _is_mask(t: T) -> bool:
        return isinstance(t, (Cmp, And, Or, Not))

    # ------------------------------------------------------------ expressions
    def term(self, e: ast.expr, at: Optional[Node] = None) -> T:
        if at is None:
            at = self.cfg.node_of(e)
        m = getattr(self, "_t_" + type(e).__name__, None)
        if m is None:
            return Sym(f"<{type(e).__name__}@{getattr(e, 'lineno', 0)}>")
        return m(e, at)

    def _t_Constant(self, e, at):
        v = e.value
        if isinstance(v, bool) or v is None or isinstance(v, str):
            return Lit(v)
        if isinstance(v, int):
            return tm.const(v)
        if isinstance(v, float):
            return tm.const(Fraction(repr(v)))
        return Lit(repr(v))

    def _t_Name(self, e, at):
        return self.name_term(e.id, at)

    def _t_Tuple(self, e, at):
        return Tup([self.term(x, at) for x in e.elts])

    def _t_List(self, e, at):
        if e.elts and all(isinstance(x, ast.Starred) for x in e.elts):
            # [*xs] is list(xs); [*xs, *ys] is list(xs) + list(ys)
            parts = [tm.make_app("builtins.list", [self.term(x.value, at)]) for x in e.elts]
            t = parts[0] if len(parts) == 1 else Cat(parts)
            self.seq_keys.add(t.key)
            return t
        t = Lst([self.term(x, at) for x in e.elts])
        self.seq_keys.add(t.key)
        return t

    def _t_JoinedStr(self, e, at):
        return Lit("<fstring>")

    def _t_Starred(self, e, at):
        return App("*", (self.term(e.value, at),))

    def _t_IfExp(self, e, at):
        c = self.term(e.test, at)
        return tm.choose(c, self.term(e.body, at), self.term(e.orelse, at))

    def _t_UnaryOp(self, e, at):
        v = self.term(e.operand, at)
        if isinstance(e.op, ast.USub):
            return tm.neg(v)
        if isinstance(e.op, ast.UAdd):
            return v
        if isinstance(e.op, ast.Not):
            return tm.negate(v)
        if isinstance(e.op, ast.Invert):
            if self._is_mask(v):
                return tm.negate(v)
            return App("invert", (v,))
        return App("unary", (v,))

    def _is_seq(self, t: T, e: Optional[ast.expr] = None) -> bool:
        if isinstance(t, (Lst, Rep, Cat, Comp)) or t.key in self.seq_keys:
            return True
        if e is not None:
            ty = self.ana.res.type_of(self.fi, e)
            if ty[0] == "list":
                return True
        return False

    def _binop(self, op, a: T, b: T, node=None, ea=None, eb=None) -> T:
        if isinstance(op, ast.Add):
            if self._is_seq(a, ea) or self._is_seq(b, eb):
                t = Cat([a, b])
                self.seq_keys.add(t.key)
                return t
            return tm.add(a, b)
        if isinstance(op, ast.Sub):
            return tm.add(a, tm.neg(b))
        if isinstance(op, ast.Mult):
            if self._is_seq(a, ea):
                t = Rep(a, b)
                self.seq_keys.add(t.key)
                return t
            if self._is_seq(b, eb):
                t = Rep(b, a)
                self.seq_keys.add(t.key)
                return t
            # k * np.ones(shape) is the broadcast constant k
            a2 = tm.ONE if isinstance(a, App) and a.fn == "numpy.ones" else a
            b2 = tm.ONE if isinstance(b, App) and b.fn == "numpy.ones" else b
            if a2 is not a or b2 is not b:
                self.assumptions.add("k * numpy.ones(shape) is read as the broadcast scalar k")
            return tm.mul(a2, b2)
        if isinstance(op, ast.Div):
            return tm.div(a, b)
        if isinstance(op, ast.FloorDiv):
            return tm.floordiv(a, b)
        if isinstance(op, ast.Mod):
            return App("mod", (a, b))
        if isinstance(op, ast.Pow):
            if isinstance(b, Poly) and b.const_value() is not None and b.const_value().denominator == 1 \
                    and abs(b.const_value()) <= 6:
                return tm.power(a, int(b.const_value()))
            if isinstance(b, Poly) and b.const_value() == Fraction(1, 2):
                return tm.sqrt(a)                     # x ** 0.5
            return App("pow", (a, b))
        if isinstance(op, ast.MatMult):
            return App("matmul", (a, b))
        if isinstance(op, ast.BitAnd):
            if self._is_mask(a) or self._is_mask(b):
                return And([a, b])
            return App("bitand", (a, b))
        if isinstance(op, ast.BitOr):
            if self._is_mask(a) or self._is_mask(b):
                return Or([a, b])
            return App("bitor", (a, b))
        return App(type(op).__name__, (a, b))

    def _t_BinOp(self, e, at):
        a = self.term(e.left, at)
        b = self.term(e.right, at)
        return self._binop(e.op, a, b, e, e.left, e.right)

    def _t_BoolOp(self, e, at):
        vs = [self.term(v, at) for v in e.values]
        return And(vs) if isinstance(e.op, ast.And) else Or(vs)

    def _t_Compare(self, e, at):
        parts = []
        left = self.term(e.left, at)
        for op, rhs_e in zip(e.ops, e.comparators):
            rhs = self.term(rhs_e, at)
            o = {ast.Lt: "<", ast.LtE: "<=", ast.Gt: ">", ast.GtE: ">=", ast.Eq: "==", ast.NotEq: "!="}.get(type(op))
            if o is None:
                name = {ast.Is: "is", ast.IsNot: "isnot", ast.In: "in", ast.NotIn: "notin"}[type(op)]
                if name in ("is", "isnot") and isinstance(left, Lit) and isinstance(rhs, Lit) and left.value is None and rhs.value is None:
                    parts.append(tm.TRUE if name == "is" else tm.FALSE)          # None is None: decided
                    left = rhs
                    continue
                if name == "isnot":
                    parts.append(tm.negate(App("is", (left, rhs))))
                elif name == "notin":
                    parts.append(tm.negate(App("in", (left, rhs))))
                else:
                    parts.append(App(name, (left, rhs)))
            else:
                if self._is_seq(left, e.left) or self._is_seq(rhs, rhs_e) or isinstance(left, Lit) or isinstance(rhs, Lit):
                    t = App("eq", tuple(sorted((left, rhs), key=lambda x: x.key))) if o in ("==", "!=") else App("cmp" + o, (left, rhs))
                    parts.append(tm.negate(t) if o == "!=" else t)
                else:
                    parts.append(tm.compare(o, left, rhs))
            left = rhs
        return tm.conj(parts) if len(parts) > 1 else parts[0]

    def _t_Attribute(self, e, at):
        # module-level / imported symbol?
        r = self.ana.res.fq_of_expr(self.fi, e)
        if r is not None:
            kind, fq = r
            if fq in ("math.tau", "numpy.tau"):
                return tm.mul(tm.const(2), Sym("pi"))
            if fq == "math.pi":
                return Sym("pi")
            if kind == "global":
                mod, nm = fq.rsplit(".", 1)
                st = self.ana.prog.modules.get(mod)
                once = st.global_assign_count.get(nm, 0) == 1 if st else False
                st = st.globals.get(nm) if st else None
                if once and isinstance(st, ast.Assign) and isinstance(st.value, ast.Constant) and not isinstance(st.value.value, str):
                    return self._t_Constant(st.value, at)
            return Sym(fq)
        base = self.term(e.value, at)
        if e.attr == "T":
            return tm.transpose(base)
        # trivial property getter -> canonical public name; other getters are inlined
        ty = self.ana.res.type_of(self.fi, e.value)
        if ty[0] == "cls":
            ci = self.ana.prog.classes.get(ty[1])
            if ci and e.attr in ci.properties:
                g = ci.properties[e.attr]
                body = effective_body(g.node.body)
                if len(body) == 1 and isinstance(body[0], ast.Return) and isinstance(body[0].value, ast.Attribute) \
                        and isinstance(body[0].value.value, ast.Name) and body[0].value.value.id == "self":
                    return Attr(base, e.attr)
                if self.no_inline is not None and self.no_inline(g):
                    return Attr(base, e.attr)
                try:
                    return self._inline(g, [base], {}, at)
                except Opaque:
                    return Attr(base, e.attr)
            if ci:
                # private field behind a trivial getter: canonical public name
                for pname, g in ci.properties.items():
                    body = effective_body(g.node.body)
                    if len(body) == 1 and isinstance(body[0], ast.Return) and isinstance(body[0].value, ast.Attribute) \
                            and body[0].value.attr == e.attr and pname != e.attr:
                        return Attr(base, pname)
        if e.attr == "shape" and isinstance(base, App) and base.fn in ("numpy.zeros", "numpy.ones"):
            shp = base.args[0] if base.args else base.kwarg("shape")
            if shp is not None:
                return shp
        return Attr(base, e.attr)

    def _t_Subscript(self, e, at):
        base = self.term(e.value, at)
        sl = e.slice
        elts = sl.elts if isinstance(sl, ast.Tuple) else [sl]
        idx = tuple(self._slice_term(x, at) for x in elts)
        return tm.index(base, idx, self.ranks)

    def _slice_term(self, s, at):
        if isinstance(s, ast.Slice):
            f = lambda x: None if x is None else self.term(x, at)
            return Slc(f(s.lower), f(s.upper), f(s.step))
        return self.term(s, at)

    def _comp(self, e, at, kind):
        gens = e.generators
        if kind == "list" and len(gens) == 2 and not gens[0].ifs and not gens[1].ifs and isinstance(gens[0].target, ast.Name) \
                and isinstance(gens[1].target, ast.Name) and isinstance(gens[1].iter, ast.Name) and gens[1].iter.id == gens[0].target.id \
                and isinstance(e.elt, ast.Name) and e.elt.id == gens[1].target.id and gens[0].target.id != gens[1].target.id:
            # [x for sub in L for x in sub] flattens one level: list(itertools.chain(*L))
            return App("builtins.list", (App("itertools.chain", (App("*", (self.term(gens[0].iter, at),)),)),))
        scope: Dict[str, T] = {}
        self._bound.append(scope)
        self._comp_depth += 1
        try:
            binders = []
            conds = []
            for k, g in enumerate(gens):
                it = self.term(g.iter, at)
                var = Sym("$c%d_%d" % (self._comp_depth, k))
                # iteration variable(s)
                itc = g.iter
                fq = None
                if isinstance(itc, ast.Call):
                    r = self.ana.res.fq_of_expr(self.fi, itc.func)
                    fq = r[1] if r else None
                if isinstance(it, Range) and isinstance(g.target, ast.Name):
                    scope[g.target.id] = var
                    self.ranks.set(var, 0)
                    binders.append((var, it))
                elif fq == "builtins.enumerate" and isinstance(g.target, (ast.Tuple, ast.List)) and len(g.target.elts) == 2:
                    cont = self.term(itc.args[0], at)
                    if isinstance(g.target.elts[0], ast.Name):
                        scope[g.target.elts[0].id] = var
                    if isinstance(g.target.elts[1], ast.Name):
                        scope[g.target.elts[1].id] = tm.index(cont, (var,), self.ranks)
                    binders.append((var, Range(tm.ZERO, tm.length(cont))))
                elif fq == "builtins.zip" and isinstance(g.target, (ast.Tuple, ast.List)) and len(g.target.elts) == len(itc.args):
                    conts = [self.term(a_, at) for a_ in itc.args]
                    for el, cont in zip(g.target.elts, conts):
                        if isinstance(el, ast.Name):
                            scope[el.id] = tm.index(cont, (var,), self.ranks)
                    binders.append((var, Range(tm.ZERO, tm.length(conts[0]))))
                else:
                    elem = tm.index(it, (var,), self.ranks)
                    if isinstance(it, Comp) and not it.conds:
                        # element of a comprehension: substitute its bound variable
                        elem = tm.substitute(it.elt, {it.var.key: var})
                        binders.append((var, it.iter))
                    else:
                        binders.append((var, Range(tm.ZERO, tm.length(it))))
                    if isinstance(g.target, ast.Name):
                        scope[g.target.id] = elem
                    elif isinstance(g.target, (ast.Tuple, ast.List)):
                        for j, el in enumerate(g.target.elts):
                            if isinstance(el, ast.Name):
                                scope[el.id] = tm.index(elem, (tm.const(j),), self.ranks)
                for c in g.ifs:
                    conds.append(self.term(c, at))
            if kind == "dict":
                elt = Tup([self.term(e.key, at), self.term(e.value, at)])
            else:
                elt = self.term(e.elt, at)
            out = elt
            for (var, it) in reversed(binders):
                out = Comp(out, var, it, conds if (var, it) == binders[-1] else (), kind)
            self.seq_keys.add(out.key)
            return out
        finally:
            self._bound.pop()
            self._comp_depth -= 1

    def _t_ListComp(self, e, at):
        return self._comp(e, at, "list")

    def _t_GeneratorExp(self, e, at):
        return self._comp(e, at, "gen")

    def _t_SetComp(self, e, at):
        return self._comp(e, at, "set")

    def _t_DictComp(self, e, at):
        return self._comp(e, at, "dict")

    def _t_Dict(self, e, at):
        return App("dict", [Tup([self.term(k, at) if k is not None else Lit(None), self.term(v, at)])
                            for k, v in zip(e.keys, e.values)])

    def _t_Set(self, e, at):
        return App("set", [self.term(x, at) for x in e.elts])

    def _t_Lambda(self, e, at):
        return self._lambda_term([a.arg for a in e.args.args], e.body, at)

    def _lambda_term(self, params: List[str], body: ast.expr, at) -> T:
        """lambda p0, p1: body  ->  lambda((p0', p1'), body') with canonical bound names; free variables are resolved in
        the enclosing function at the point of definition."""
        self._comp_depth += 1
        scope = {p: Sym("$l%d_%d" % (self._comp_depth, k)) for k, p in enumerate(params)}
        for v in scope.values():
            self.ranks.set(v, 0)
        self._bound.append(scope)
        try:
            return App("lambda", (Tup(list(scope.values())), self.term(body, at)))
        finally:
            self._bound.pop()
            self._comp_depth -= 1

    # ------------------------------------------------------------ calls
    def _length_of_filled_local(self, e: ast.Call, at) -> Optional[T]:
        """len(x) of a local list / array that is only ever written element-wise (x[i] = v): element stores do not change the
        length, so it is the length of the (single) definition - `tasks = [None] * K; ...; len(tasks)` is K."""
        if len(e.args) != 1 or e.keywords or not isinstance(e.args[0], ast.Name):
            return None
        name = e.args[0].id
        muts = self.mutated.get(name)
        if not muts or name in self.inplace_calls or name in self.fi.own_params:
            return None
        for m in muts:
            if not isinstance(m, (ast.Assign, ast.AugAssign)):
                return None                      # append / extend / pop ...: the length moves
            tgts = m.targets if isinstance(m, ast.Assign) else [m.target]
            for t in tgts:
                for el in (t.elts if isinstance(t, (ast.Tuple, ast.List)) else [t]):
                    if isinstance(el, ast.Subscript) and _root_name(el.value) == name:
                        if isinstance(el.slice, ast.Slice) or (isinstance(el.slice, ast.Tuple) and any(isinstance(x, ast.Slice) for x in el.slice.elts)):
                            return None          # slice assignment can resize a list
        defs = self.rd.reaching(at, name)
        if len(defs) != 1 or defs[0].kind != "stmt" or not isinstance(defs[0].ast, (ast.Assign, ast.AnnAssign)) or defs[0].ast.value is None:
            return None
        if any(isinstance(n, ast.Delete) and any(_root_name(t) == name for t in n.targets) for n in Resolver.walk_own(self.fi.node)):
            return None
        t = self.term(defs[0].ast.value, defs[0])
        n = tm.length(t)
        return None if (isinstance(n, App) and n.fn == "len") else n

    def _row_length(self, t: T, at) -> Optional[T]:
        """len() of an elementwise combination of rows of 2-D arrays (`F[i+1] + A[i+1] + b[i]`): the number of columns, when every
        array-valued operand is a row of a rank-2 array and all of them have the same column count."""
        def cols(base: T) -> Optional[T]:
            if not isinstance(base, Sym) or self.ranks.ranks.get(base.key) != 2:
                return None
            if base.name in self.fi.own_params:
                return Idx(Attr(base, "shape"), (tm.ONE,))
            defs = [n for n in self.cfg.nodes if n.kind == "stmt" and isinstance(n.ast, ast.Assign) and base.name in n.defs]
            if len(defs) != 1 or not isinstance(defs[0].ast.value, ast.Call):
                return None
            a = self.term(defs[0].ast.value, defs[0])
            if isinstance(a, App) and a.fn in ("numpy.zeros", "numpy.ones", "numpy.empty") and (a.args or a.kwarg("shape") is not None):
                shp = a.args[0] if a.args else a.kwarg("shape")
                if isinstance(shp, (Lst, Tup)) and len(shp.elems) == 2:
                    return tm.as_term(shp.elems[1])
                if isinstance(shp, Attr) and shp.name == "shape":
                    return cols(shp.base) if isinstance(shp.base, Sym) else None
            return None
        found = []
        atoms = [a_ for mono, _c in t.terms for a_, _e in mono] if isinstance(t, Poly) else [t]
        if isinstance(t, Poly) and any(len(mono) > 1 or any(e_ != 1 for _a, e_ in mono) for mono, _c in t.terms):
            return None
        for a_ in atoms:
            if isinstance(a_, Idx) and len(a_.idx) == 1 and not isinstance(a_.idx[0], Slc):
                r_ = self.ranks.ranks.get(a_.base.key) if isinstance(a_.base, Sym) else None
                if r_ == 2:
                    c_ = cols(a_.base)
                    if c_ is None:
                        return None
                    found.append(c_)
                elif r_ == 1:
                    continue                 # an element of a vector: a scalar, it broadcasts
                elif not isinstance(a_.base, Sym) and any(isinstance(x, App) and x.fn in ("numpy.zeros", "numpy.ones") and x.args and
                                                           isinstance(x.args[0], (Lst, Tup)) and len(x.args[0].elems) == 1 for x in tm.subterms(a_.base)):
                    continue                 # an element of `scalar-or-vector + np.zeros((n,))`: a scalar as well
                else:
                    return None
            else:
                return None
        if found and all(x == found[0] for x in found):
            return found[0]
        return None

    def _t_Call(self, e: ast.Call, at):
        c = self.ana.res.callee(self.fi, e)
        if c.kind in ("external", "builtin") and c.target == "builtins.len":
            n_ = self._length_of_filled_local(e, at)
            if n_ is not None:
                return n_
            if len(e.args) == 1 and not e.keywords:
                try:
                    n_ = self._row_length(self.term(e.args[0], at), at)
                except Exception:
                    n_ = None
                if n_ is not None:
                    return n_
        args = [self.term(a, at) for a in e.args]
        kw = {k.arg: self.term(k.value, at) for k in e.keywords if k.arg is not None}
        if any(isinstance(a, ast.Starred) for a in e.args) and not any(k.arg is None for k in e.keywords):
            expanded = self._expand_starred(e, at)
            if expanded is not None:
                args = expanded
                e = ast.Call(func=e.func, args=[a for a in e.args if not isinstance(a, ast.Starred)], keywords=e.keywords)
                return self._call_with(c, args, kw, at)
        if any(isinstance(a, ast.Starred) for a in e.args) or any(k.arg is None for k in e.keywords):
            # argument packs cannot be bound statically: keep the call uninterpreted
            args = args + [App("**", (self.term(k.value, at),)) for k in e.keywords if k.arg is None]
            name = c.func.qualname if c.func is not None else (c.cls.qualname if c.cls is not None and c.kind == "ctor" else
                                                               ("." + str(c.target) if c.kind == "method_unknown" else str(c.target)))
            if c.kind == "method_unknown":
                args = [self.term(c.receiver, at)] + args
            if c.kind == "local":
                try:
                    ft = self.name_term(str(c.target), at)
                except Exception:
                    ft = None
                if ft is not None:
                    pieces = tm.pieces_of(ft)
                    if len(pieces) > 1 and all(isinstance(v, Sym) and "." in v.name and "@" not in v.name for _g, v in pieces):
                        return PW([(g_, App(v.name, args, kw)) for g_, v in pieces])
            if c.kind in ("external", "builtin") and name == "builtins.zip":
                return tm.make_app(name, args, kw)       # zip(*pairs) has a sequence-domain meaning (unzip)
            return App(name, args, kw)
        if c.kind in ("internal",) and c.func is not None:
            if self._inlinable(c.func):
                try:
                    return self._inline(c.func, args, kw, at)
                except Opaque:
                    pass
            args, kw = self._positional(c.func, args, kw)
            return App(c.func.qualname, args, kw)
        if c.kind == "method_internal" and c.func is not None:
            recv = self.term(c.receiver, at)
            if c.func.kind == "staticmethod":
                allargs = args
            else:
                allargs = [recv] + args
            if self._inlinable(c.func):
                try:
                    return self._inline(c.func, allargs, kw, at)
                except Opaque:
                    pass
            allargs, kw = self._positional(c.func, allargs, kw)
            return App(c.func.qualname, allargs, kw)
        if c.kind == "ctor":
            return App(c.cls.qualname, args, kw)
        if c.kind in ("external", "builtin", "global"):
            if c.target == "builtins.dict" and not args and kw:
                return App("dict", [Tup([Lit(k), v]) for k, v in kw.items()])
            if c.target in ("builtins.int", "builtins.float", "builtins.bool", "builtins.str") and len(args) == 1 and not kw \
                    and isinstance(args[0], App) and args[0].fn in self.ana.prog.functions:
                # int(f(...)) of a package function annotated `-> int` is f(...): a redundant cast
                g_ = self.ana.prog.functions[args[0].fn]
                if g_.node.returns is not None and ast.unparse(g_.node.returns) == c.target.split(".")[1]:
                    return args[0]
            t = tm.make_app(c.target, args, kw)
            t = self._apply_mapped_functions(t, at)
            if isinstance(t, (Lst, Cat, Rep, Comp)):
                self.seq_keys.add(t.key)
            if c.target in ("builtins.list", "builtins.sorted") or (c.target or "").startswith("itertools."):
                self.seq_keys.add(t.key)
            return t
        if c.kind == "method_unknown":
            recv = self.term(c.receiver, at)
            if c.target == "diagonal" and not args:
                return App("diagonal", (recv,))
            if c.target == "transpose" and not args:
                return tm.transpose(recv)
            if c.target == "copy" and not args:
                return App("numpy.copy", (recv,))
            if c.target == "reshape" and len(args) == 1 and isinstance(args[0], Tup) and not kw:
                args = list(args[0].elems)          # x.reshape((a, b)) is x.reshape(a, b)
            if c.target in NDARRAY_METHODS:
                # x.sum(), x.mean(axis=0), x.dot(y): the ndarray method is the numpy function applied to the receiver (no other
                # type in this code base has methods of these names: lists, dicts and the containers do not)
                return tm.make_app("numpy." + c.target, [recv] + args, kw)
            return App("." + c.target, [recv] + args, kw)
        if c.kind == "local":
            # a local variable that holds one of several known functions:  f = a if c else b;  f(x)   ==   pw{c -> a(x); !c -> b(x)}
            try:
                ft = self.name_term(str(c.target), at)
            except Exception:
                ft = None
            if ft is not None:
                pieces = tm.pieces_of(ft)
                if all(isinstance(v, Sym) and ("." in v.name) and "@" not in v.name for _g, v in pieces):
                    out = []
                    for g_, v in pieces:
                        if v.name in self.ana.prog.functions:
                            out.append((g_, App(v.name, args, kw)))
                        else:
                            out.append((g_, tm.make_app(v.name, args, kw)))
                    return out[0][1] if len(out) == 1 and out[0][0] == tm.TRUE else PW(out)
            return App("local:" + str(c.target), args, kw)
        return App("<call>", args, kw)

    def _apply_mapped_functions(self, t: T, at) -> T:
        """map(f, A, B) came back as [f(A[k], B[k]) for k]: when f is a package function, its application is interpreted like
        a direct call (inlined unless it is an interface atom)."""
        if isinstance(t, Comp) and isinstance(t.elt, App) and t.elt.fn in self.ana.prog.functions and not t.elt.kw:
            g = self.ana.prog.functions[t.elt.fn]
            from .resolve import Callee
            try:
                elt = self._call_with(Callee("internal", g.qualname, func=g), list(t.elt.args), {}, at)
            except Opaque:
                return t
            return Comp(elt, t.var, t.iter, t.conds, t.kind)
        return t

    def _arity(self, t: T) -> Optional[int]:
        if isinstance(t, Tup):
            return len(t.elems)
        if isinstance(t, App) and t.fn in self.ana.prog.functions:
            f = self.ana.prog.functions[t.fn]
            if f.node.returns is not None:
                txt = ast.unparse(f.node.returns)
                if txt.startswith("Tuple[") and "..." not in txt:
                    depth, n = 0, 1
                    for ch in txt[6:-1]:
                        depth += ch == "["
                        depth -= ch == "]"
                        n += (ch == "," and depth == 0)
                    return n
        return None

    def _expand_starred(self, e: ast.Call, at) -> Optional[List[T]]:
        out = []
        for a in e.args:
            if not isinstance(a, ast.Starred):
                out.append(self.term(a, at))
                continue
            v = self.term(a.value, at)
            if isinstance(v, Tup):
                out.extend(v.elems)
                continue
            if isinstance(v, Idx) and len(v.idx) == 1 and isinstance(v.idx[0], Slc) and v.idx[0].hi is None and v.idx[0].step is None:
                n = self._arity(v.base)
                lo = v.idx[0].lo
                lo_v = 0 if lo is None else (int(lo.const_value()) if isinstance(lo, Poly) and lo.const_value() is not None else None)
                if n is not None and lo_v is not None:
                    out.extend(tm.index(v.base, (tm.const(k),), self.ranks) for k in range(lo_v, n))
                    continue
            n = self._arity(v)
            if n is not None:
                out.extend(tm.index(v, (tm.const(k),), self.ranks) for k in range(n))
                continue
            return None
        return out

    @staticmethod
    def _positional(f: FuncInfo, args: List[T], kw: Dict[str, T]):
        """Canonical argument form of a call to a package function: keywords that name the next positional parameters are
        moved into position (f(a, y=c, x=b) and f(a, b, c) denote the same application)."""
        a = f.node.args
        pos = [x.arg for x in a.posonlyargs + a.args]
        args = list(args)
        kw = dict(kw or {})
        while len(args) < len(pos) and pos[len(args)] in kw:
            args.append(kw.pop(pos[len(args)]))
        ref = list(getattr(f, "params", pos))
        if ref != pos and sorted(ref) == sorted(pos) and not kw and len(args) == len(pos) and not a.vararg:
            # the same parameters in another order than on the reference tree (a private helper re-ordered together with its call
            # sites): the application is written in the reference order, which is what the rules index by
            by_name = dict(zip(pos, args))
            args = [by_name[p_] for p_ in ref]
        return args, kw

    def _call_with(self, c, args: List[T], kw: Dict[str, T], at) -> T:
        """Finish a call whose argument terms are already known (used after starred expansion)."""
        if c.kind == "internal" and c.func is not None:
            if self._inlinable(c.func):
                try:
                    return self._inline(c.func, args, kw, at)
                except Opaque:
                    pass
            args, kw = self._positional(c.func, args, kw)
            return App(c.func.qualname, args, kw)
        if c.kind == "method_internal" and c.func is not None:
            recv = self.term(c.receiver, at)
            allargs = args if c.func.kind == "staticmethod" else [recv] + args
            if self._inlinable(c.func):
                try:
                    return self._inline(c.func, allargs, kw, at)
                except Opaque:
                    pass
            allargs, kw = self._positional(c.func, allargs, kw)
            return App(c.func.qualname, allargs, kw)
        if c.kind == "ctor":
            return App(c.cls.qualname, args, kw)
        if c.kind in ("external", "builtin", "global"):
            return tm.make_app(c.target, args, kw)
        if c.kind == "method_unknown":
            return App("." + c.target, [self.term(c.receiver, at)] + args, kw)
        return App("<call>", args, kw)

    def _inlinable(self, f: FuncInfo) -> bool:
        if self.depth >= self.MAX_DEPTH:
            return False
        if self.no_inline is not None and self.no_inline(f):
            return False
        for n in Resolver.walk_own(f.node):
            if isinstance(n, (ast.While, ast.Try, ast.With, ast.Yield, ast.YieldFrom)):
                return False
        return True

    def _inline(self, f: FuncInfo, args: List[T], kw: Dict[str, T], at: Node) -> T:
        params = f.own_params
        bind: Dict[str, T] = {}
        if len(args) > len(params):
            raise Opaque("too many positional arguments")
        for p, a in zip(params, args):
            bind[p] = a
        for k, v in kw.items():
            if k not in params:
                raise Opaque("unknown keyword")
            bind[k] = v
        sub = TermBuilder(self.ana, f, bindings=bind, depth=self.depth + 1, no_inline=self.no_inline)
        for p in params:
            if p not in bind:
                d = f.default_of(p)
                if d is None:
                    raise Opaque(f"missing argument {p}")
                bind[p] = sub.term(d, sub.cfg.entry) if isinstance(d, ast.Constant) else Sym(f"{f.qualname}.{p}.default")
        sub.bindings = bind
        # propagate rank knowledge of arguments
        for p, a in bind.items():
            r = self.ranks.rank(a)
            if r is not None and Sym(p).key not in sub.ranks.ranks:
                pass
        t = sub.return_term()
        self.ana.stats["inlined_calls"] += 1
        self.assumptions |= sub.assumptions
        for k in sub.seq_keys:
            self.seq_keys.add(k)
        for k, v in sub.loopvars.items():
            self.loopvars.setdefault(k, v)
        return t

    def return_term(self) -> T:
        rets = []
        for n in self.cfg.nodes:
            if n.kind == "stmt" and isinstance(n.ast, ast.Return) and n.id in self.cfg.reachable_nodes():
                rets.append(n)
        if not rets:
            return Lit(None)
        # loops containing a return are outside the idiom
        for r in rets:
            if self.cfg.enclosing_loops(r):
                raise Opaque("return inside a loop")
        if len(rets) == 1:
            r = rets[0]
            return self.term(r.ast.value, r) if r.ast.value is not None else Lit(None)
        pieces = []
        for r in rets:
            g = self.guard_term(r)
            v = self.term(r.ast.value, r) if r.ast.value is not None else Lit(None)
            pieces.append((g, v))
        return PW(pieces)

    # ------------------------------------------------------------ stores
    def _loop_meta(self, loops):
        rngs, lvars = [], []
        for lp in loops:
            r = self.loop_range(lp) if isinstance(lp, ast.For) else None
            rngs.append(r)
            if isinstance(lp, ast.For):
                if r is not None and isinstance(lp.target, ast.Name):
                    lvars.append(Sym(lp.target.id))
                else:
                    lvars.append(self.binder_of(lp)[0])
            else:
                lvars.append(None)
        return rngs, lvars

    def stores(self, inline_effects: bool = True, _depth: int = 0) -> List[Store]:
        """Subscript / attribute stores of this function.  With inline_effects, stores performed by inlinable callees on
        objects reachable from their arguments are included, expressed in this function's vocabulary."""
        out = []
        for n in self.cfg.nodes:
            if n.kind != "stmt":
                continue
            st = n.ast
            targets = []
            aug = None
            val_e = None
            if isinstance(st, ast.Assign):
                for t in st.targets:
                    targets += (t.elts if isinstance(t, (ast.Tuple, ast.List)) else [t])
                val_e = st.value
            elif isinstance(st, ast.AugAssign):
                targets = [st.target]
                val_e = st.value
                aug = type(st.op).__name__
            for t in targets:
                loops = self.cfg.enclosing_loops(n)
                rngs, lvars = self._loop_meta(loops)
                if isinstance(t, ast.Subscript):
                    base = self.term(t.value, n)
                    sl = t.slice
                    elts = sl.elts if isinstance(sl, ast.Tuple) else [sl]
                    idx0 = tuple(self._slice_term(x, n) for x in elts)
                    if isinstance(t.value, ast.Name) and isinstance(base, Idx) and not any(isinstance(x, Slc) for x in base.idx) and isinstance(base.base, Sym):
                        # a store through a row alias (`row = table[i]; row[a:b] = v`) is a store into table[i, a:b]
                        idx0 = tuple(base.idx) + idx0
                        base = base.base
                        bname = base.name
                    else:
                        bname = _root_name(t.value) if isinstance(t.value, ast.Name) else None
                    idx = tm.canon_idx(idx0, keep_slices=True)    # (a row store `t[i, :] = row` keeps its shape)
                    val = self.term(val_e, n)
                    out.append(Store(n, st, t, base, bname,
                                     idx, None, val, self.guard_term(n), loops, aug, rngs, lvars))
                elif isinstance(t, ast.Attribute):
                    base = self.term(t.value, n)
                    val = self.term(val_e, n)
                    out.append(Store(n, st, t, base, _root_name(t.value), None, t.attr, val, self.guard_term(n),
                                     loops, aug, rngs, lvars))
            if not inline_effects or _depth >= 3:
                continue
            # effects of inlinable callees invoked by this statement
            for call in [c for c in ast.walk(st) if isinstance(c, ast.Call)] if isinstance(st, (ast.Expr, ast.Assign, ast.AugAssign, ast.AnnAssign, ast.Return)) else []:
                c = self.ana.res.callee(self.fi, call)
                f = c.func
                if f is None or c.kind not in ("internal", "method_internal") or not self._inlinable(f) or f.kind in ("property", "setter"):
                    continue
                if self.cfg.expr_node.get(id(call)) is not n:
                    continue
                try:
                    args = [self.term(a, n) for a in call.args if not isinstance(a, ast.Starred)]
                    if any(isinstance(a, ast.Starred) for a in call.args):
                        ex = self._expand_starred(call, n)
                        if ex is None:
                            continue
                        args = ex
                    kw = {k.arg: self.term(k.value, n) for k in call.keywords if k.arg is not None}
                    if c.kind == "method_internal" and f.kind != "staticmethod":
                        args = [self.term(c.receiver, n)] + args
                    bind = {}
                    for pname, a in zip(f.own_params, args):
                        bind[pname] = a
                    bind.update(kw)
                    sub = TermBuilder(self.ana, f, bindings=bind, depth=self.depth + 1, no_inline=self.no_inline)
                    sub_stores = sub.stores(inline_effects=True, _depth=_depth + 1)
                except (Opaque, AnalysisError):
                    continue
                g_here = self.guard_term(n)
                loops_here = self.cfg.enclosing_loops(n)
                rngs_h, lvars_h = self._loop_meta(loops_here)
                arg_roots = {_root_term(a).key for a in bind.values()}
                for s2 in sub_stores:
                    # only effects on objects that come from the caller: the written object is reached from an argument
                    if _root_term(s2.base).key not in arg_roots:
                        continue
                    out.append(Store(n, s2.stmt, s2.target, s2.base, None, s2.idx, s2.attr, s2.value, tm.conj([g_here, s2.guards]),
                                     loops_here + s2.loops, s2.aug, rngs_h + s2.loop_ranges, lvars_h + s2.loop_vars,
                                     via=s2.via or f.qualname))
                for k_, v_ in sub.loopvars.items():
                    self.loopvars.setdefault(k_, v_)
        return self._fuse_row_buffers(out)

    _FRESH_ARRAYS = ("numpy.zeros", "numpy.empty", "numpy.ones", "numpy.full", "numpy.zeros_like", "numpy.empty_like")

    def _fuse_row_buffers(self, stores: List[Store]) -> List[Store]:
        """row = zeros(K); for k: row[k] = v(k); A[p, :] = row      is the same set of writes as      for k: A[p, k] = v(k)
        when `row` is allocated afresh in the iteration that copies it.  The per-cell stores are re-expressed on A."""
        out = list(stores)
        for s1 in list(stores):
            if s1.idx is None or s1.aug is not None or not isinstance(s1.value, Sym) or not s1.loops:
                continue
            full = [i for i, x in enumerate(s1.idx) if isinstance(x, Slc) and x.lo is None and x.hi is None and x.step is None]
            if len(full) != 1:
                continue
            rname = s1.value.name
            defs = self.rd.reaching(s1.node, rname)
            if not defs:
                continue
            fresh = True
            for d in defs:
                v = d.ast.value if d.kind == "stmt" and isinstance(d.ast, (ast.Assign, ast.AnnAssign)) else None
                r = self.ana.res.fq_of_expr(self.fi, v.func) if isinstance(v, ast.Call) else None
                if not (r and r[1] in self._FRESH_ARRAYS and s1.loops[-1] in self.cfg.enclosing_loops(d)):
                    fresh = False
            if not fresh:
                continue
            cells = [s2 for s2 in stores if s2.base_name == rname and s2.idx is not None]
            if not cells or any(len(s2.idx) != 1 or isinstance(s2.idx[0], Slc) or s2.loops[:len(s1.loops)] != s1.loops
                                or len(s2.loops) != len(s1.loops) + 1 for s2 in cells):
                continue
            # the cell loop finishes before the row is copied
            if any(not self.cfg.dominates(self.cfg.stmt_node[id(s2.loops[-1])], s1.node) or s1.loops[-1] is s2.loops[-1] for s2 in cells):
                continue
            others = [m for m in self.mutated.get(rname, []) if not isinstance(m, ast.Assign)]
            if others:
                continue
            for s2 in cells:
                idx = tuple(s2.idx[0] if i == full[0] else x for i, x in enumerate(s1.idx))
                out.append(Store(s2.node, s2.stmt, s2.target, s1.base, s1.base_name, idx, None, s2.value, tm.conj([s1.guards, s2.guards]),
                                 s2.loops, s2.aug, s2.loop_ranges, s2.loop_vars, via=s2.via))
                out.remove(s2)
            out.remove(s1)
        return out


def _root_term(t: T) -> T:
    """Left-most object of an attribute / subscript chain."""
    while isinstance(t, (Attr, Idx)):
        t = t.base
    return t


def effective_body(stmts):
    """The statements that determine what a function computes: docstrings, `pass`, assertions and logging calls only observe
    (an assertion can abort the call, it cannot change its value)."""
    out = []
    for st in stmts:
        if isinstance(st, ast.Expr) and isinstance(st.value, ast.Constant):
            continue
        if isinstance(st, (ast.Pass, ast.Assert)):
            continue
        if isinstance(st, ast.Expr) and isinstance(st.value, ast.Call) and isinstance(st.value.func, ast.Attribute) \
                and st.value.func.attr in ("debug", "info", "warning", "error", "critical", "exception", "log") \
                and isinstance(st.value.func.value, (ast.Name, ast.Attribute)):
            continue
        out.append(st)
    return out


def _root_name(e) -> Optional[str]:
    while isinstance(e, (ast.Attribute, ast.Subscript)):
        e = e.value
    if isinstance(e, ast.Name):
        return e.id
    return None


def _names(t) -> List[str]:
    if isinstance(t, ast.Name):
        return [t.id]
    if isinstance(t, (ast.Tuple, ast.List)):
        out = []
        for e in t.elts:
            out += _names(e)
        return out
    if isinstance(t, ast.Starred):
        return _names(t.value)
    return []


def _strip_mask(val: T, mask: T) -> T:
    """Inside a masked store v[m] = f(x[m], y[m]) the operands are element-wise restricted to
    m: drop the restriction so that the value reads f(x, y) under guard m."""
    mapping = {}
    for s in tm.subterms(val):
        if isinstance(s, Idx) and len(s.idx) == 1 and s.idx[0].key == mask.key:
            mapping[s.key] = s.base
    return tm.substitute(val, mapping) if mapping else val
