"""L0.5: map a refactored program back onto the reference decomposition.

The rules are stated over the functions that exist on the reference tree (sa/known_functions.txt).  A later change may
split one of them into private helpers, move a helper to a sibling module, or turn a loop into a comprehension over a
helper.  None of that changes behaviour, and none of it may change a verdict.  Before any rule runs, every call to a
function that is *not* part of the reference decomposition is therefore expanded in place, at the AST level:

    x = _helper(a, b)        ==>      p1__h = a ... ; <body of _helper with locals renamed> ; x = <returned value>

The expansion is purely syntactic and conservative; whatever it cannot express exactly (generators, returns that are
not in tail position, star-arguments, recursion, memoised helpers) is left as a call, and the term builder's own
term-level inlining (sa/build.py) still applies to it.  On the reference tree the pass is the identity: there is no
function outside the reference decomposition.
"""
from __future__ import annotations

import ast
import copy
from typing import Dict, List, Optional, Set

from .loader import FuncInfo, Program


from .build import effective_body


def _root(e):
    while isinstance(e, (ast.Attribute, ast.Subscript)):
        e = e.value
    return e.id if isinstance(e, ast.Name) else None


def _read_before_rebound(stmts, v) -> bool:
    """Is the name read in these statements before anything rebinds it?  (Names bound by a comprehension live in the comprehension's
    own scope; textual order decides otherwise: a `for v in ...` header precedes its body.)"""
    names = []

    def visit(node):
        if isinstance(node, (ast.ListComp, ast.SetComp, ast.DictComp, ast.GeneratorExp)):
            bound = {x.id for g in node.generators for x in ast.walk(g.target) if isinstance(x, ast.Name)}
            if v in bound:
                for g in node.generators[:1]:
                    visit(g.iter)                      # only the first iterable is evaluated in the enclosing scope
                return
        if isinstance(node, ast.Name) and node.id == v:
            names.append(node)
        for c in ast.iter_child_nodes(node):
            visit(c)
    for st in stmts:
        visit(st)
    names.sort(key=lambda x: (x.lineno, x.col_offset))
    return bool(names) and isinstance(names[0].ctx, ast.Load)


def _chain(e):
    """attribute path of an access, subscripts ignored: self.clusters[k].size -> ['self', 'clusters', 'size']"""
    out = []
    while isinstance(e, (ast.Attribute, ast.Subscript)):
        if isinstance(e, ast.Attribute):
            out.append(e.attr)
        e = e.value
    if isinstance(e, ast.Name):
        out.append(e.id)
        return out[::-1]
    return []


class CannotInline(Exception):
    pass


PURE_NODES = (ast.Name, ast.Constant, ast.Attribute, ast.Tuple, ast.List, ast.Subscript, ast.Load, ast.Store, ast.Slice,
              ast.UnaryOp, ast.USub, ast.UAdd, ast.Not, ast.BinOp, ast.operator, ast.Compare, ast.cmpop, ast.keyword, ast.Dict,
              ast.expr_context, ast.Starred)


def _contains(stmts, kinds, into_loops=True) -> bool:
    for s in stmts:
        for n in _walk_own_stmt(s, into_loops):
            if isinstance(n, kinds):
                return True
    return False


def _walk_own_stmt(node, into_loops=True):
    """Walk a statement without entering nested function / class definitions (and optionally nested loops)."""
    stack = [node]
    first = True
    while stack:
        n = stack.pop()
        yield n
        for ch in ast.iter_child_nodes(n):
            if isinstance(ch, (ast.FunctionDef, ast.AsyncFunctionDef, ast.ClassDef, ast.Lambda)):
                continue
            if not into_loops and isinstance(ch, (ast.For, ast.While)):
                continue
            stack.append(ch)
        first = False


def always_exits(stmts) -> bool:
    if not stmts:
        return False
    s = stmts[-1]
    if isinstance(s, (ast.Return, ast.Raise)):
        return True
    if isinstance(s, ast.If):
        return always_exits(s.body) and always_exits(s.orelse)
    if isinstance(s, ast.With):
        return always_exits(s.body)
    if isinstance(s, ast.Try):
        if s.finalbody and always_exits(s.finalbody):
            return True
        tail = s.orelse if s.orelse else s.body
        return always_exits(tail) and all(always_exits(h.body) for h in s.handlers)
    return False


class _FoldOffsets(ast.NodeTransformer):
    """(x + a) - b and (x + a) + b with integer literals a, b: x + (a -/+ b), and x when the offsets cancel."""
    def visit_BinOp(self, n):
        n = self.generic_visit(n)
        def lit(e):
            return e.value if isinstance(e, ast.Constant) and isinstance(e.value, int) and not isinstance(e.value, bool) else None
        if isinstance(n.op, (ast.Add, ast.Sub)) and lit(n.right) is not None and isinstance(n.left, ast.BinOp) \
                and isinstance(n.left.op, (ast.Add, ast.Sub)) and lit(n.left.right) is not None:
            a = lit(n.left.right) * (1 if isinstance(n.left.op, ast.Add) else -1)
            b = lit(n.right) * (1 if isinstance(n.op, ast.Add) else -1)
            tot = a + b
            if tot == 0:
                return n.left.left
            return ast.copy_location(ast.BinOp(n.left.left, ast.Add() if tot > 0 else ast.Sub(), ast.Constant(abs(tot))), n)
        return n


class _Renamer(ast.NodeTransformer):
    def __init__(self, mapping: Dict[str, ast.expr]):
        self.mapping = mapping

    def visit_Name(self, n: ast.Name):
        r = self.mapping.get(n.id)
        if r is None:
            return n
        if isinstance(r, str):
            return ast.copy_location(ast.Name(r, n.ctx), n)
        if isinstance(n.ctx, ast.Load):
            return ast.copy_location(copy.deepcopy(r), n)
        raise CannotInline(f"parameter {n.id} substituted by an expression is assigned")

    def visit_arg(self, n: ast.arg):
        r = self.mapping.get(n.arg)
        if isinstance(r, str):
            n.arg = r
        elif r is not None:
            raise CannotInline("nested function shadows a substituted parameter")
        return self.generic_visit(n)

    def visit_FunctionDef(self, n):
        r = self.mapping.get(n.name)
        if isinstance(r, str):
            n.name = r
        return self.generic_visit(n)

    def visit_ExceptHandler(self, n):
        if n.name and isinstance(self.mapping.get(n.name), str):
            n.name = self.mapping[n.name]
        return self.generic_visit(n)


class Normalizer:
    MAX_DEPTH = 6

    def __init__(self, prog: Program, res, known: Set[str]):
        self.prog = prog
        self.res = res
        self.known = set(known)
        self.counter = 0
        self.log: List[str] = []
        self.skipped: List[str] = []
        self.helpers: Dict[str, FuncInfo] = {}
        self._done: Set[str] = set()
        self._active: List[str] = []

    # ------------------------------------------------------------------ which functions are expanded
    def _is_helper(self, f: FuncInfo, allow_nested=False) -> bool:
        if f.qualname in self.known or f.qualname in getattr(self.prog, "renamed", {}).values():
            return False
        if f.kind not in ("function", "method", "staticmethod") and not (f.kind == "nested" and f.parent is not None and allow_nested):
            return False
        if f.name.startswith("__") and f.name.endswith("__"):
            return False
        if isinstance(f.node, ast.AsyncFunctionDef):
            return False
        for d in f.decorators:
            txt = ast.unparse(d)
            if "cache" in txt or "property" in txt or "classmethod" in txt or "contextmanager" in txt or "overload" in txt:
                return False
        a = f.node.args
        if a.vararg or a.kwarg:
            return False
        for n in _walk_own_stmt(f.node):
            if isinstance(n, (ast.Yield, ast.YieldFrom, ast.Await, ast.Global, ast.Nonlocal)):
                return False
        return True

    def _is_generator_helper(self, f: FuncInfo) -> bool:
        if f.qualname in self.known or f.qualname in getattr(self.prog, "renamed", {}).values():
            return False
        if f.kind not in ("function", "staticmethod") or f.decorators or f.parent is not None:
            return False
        a = f.node.args
        if a.vararg or a.kwarg:
            return False
        ys = [n for n in _walk_own_stmt(f.node) if isinstance(n, (ast.Yield, ast.YieldFrom))]
        if len(ys) != 1 or not isinstance(ys[0], ast.Yield) or ys[0].value is None:
            return False
        for n in _walk_own_stmt(f.node):
            if isinstance(n, ast.Return) and n.value is not None:
                return False
            if isinstance(n, (ast.Global, ast.Nonlocal, ast.Await, ast.Try, ast.With)):
                return False
        # the yield must be a statement of its own
        for n in _walk_own_stmt(f.node):
            if isinstance(n, ast.Expr) and n.value is ys[0]:
                return True
        return False

    def _expand_generator_loop(self, f: FuncInfo, s: ast.For) -> Optional[List[ast.stmt]]:
        """for t in gen(args): BODY   ==>   <gen's loops, with `yield v` replaced by `t = v; BODY`>"""
        if not isinstance(s.iter, ast.Call) or s.orelse:
            return None
        try:
            c = self.res.callee(f, s.iter)
        except Exception:
            return None
        g = c.func
        if g is None or c.kind != "internal" or g.qualname not in self.generators:
            return None
        # the consumer's body must not break / continue / return at its own loop level (they would bind to the generator's loops)
        for st in s.body:
            for n in _walk_own_stmt(st, into_loops=False):
                if isinstance(n, (ast.Break, ast.Continue)):
                    return None
            for n in _walk_own_stmt(st):
                if isinstance(n, (ast.Return, ast.Yield, ast.YieldFrom)):
                    return None
        call = s.iter
        if any(isinstance(a, ast.Starred) for a in call.args) or any(k.arg is None for k in call.keywords):
            return None
        self.counter += 1
        tag = f"g{self.counter}"
        params = [p.arg for p in g.node.args.posonlyargs + g.node.args.args] + [p.arg for p in g.node.args.kwonlyargs]
        bound: Dict[str, ast.expr] = {}
        if len(call.args) > len(g.node.args.posonlyargs + g.node.args.args):
            return None
        for p, a in zip(params, call.args):
            bound[p] = a
        for k in call.keywords:
            if k.arg in bound or k.arg not in params:
                return None
            bound[k.arg] = k.value
        for p in params:
            if p not in bound:
                d = g.default_of(p)
                if d is None or not isinstance(d, ast.Constant):
                    return None
                bound[p] = copy.deepcopy(d)
        locals_ = _assigned_names(g.node)
        reassigned = _assigned_names_body(g.node)
        mapping: Dict[str, object] = {}
        prologue: List[ast.stmt] = []
        for p in params:
            a = bound[p]
            if isinstance(a, (ast.Constant, ast.Name)) and p not in reassigned:
                mapping[p] = a
            else:
                nm = f"{p}__{tag}"
                mapping[p] = nm
                prologue.append(ast.copy_location(ast.Assign([ast.Name(nm, ast.Store())], copy.deepcopy(a)), s))
        for nm in locals_:
            mapping.setdefault(nm, f"{nm}__{tag}")
        for k, v in self._free_name_map(f, g).items():
            mapping.setdefault(k, v)
        body = copy.deepcopy(g.node.body)
        if body and isinstance(body[0], ast.Expr) and isinstance(body[0].value, ast.Constant) and isinstance(body[0].value.value, str):
            body = body[1:]
        ren = _Renamer(mapping)
        body = [ren.visit(b) for b in body]
        consumer_target, consumer_body = s.target, s.body

        class Y(ast.NodeTransformer):
            def visit_Expr(self_, n):
                if isinstance(n.value, ast.Yield):
                    asg = ast.copy_location(ast.Assign([copy.deepcopy(consumer_target)], n.value.value), n)
                    return [asg] + consumer_body
                return n

            def visit_FunctionDef(self_, n):
                return n

            def visit_Return(self_, n):
                raise CannotInline("bare return in a generator")
        try:
            body = [x for b in body for x in (lambda r: r if isinstance(r, list) else [r])(Y().visit(b))]
        except CannotInline:
            return None
        out = prologue + body
        for st in out:
            ast.fix_missing_locations(st)
        self.log.append(f"{f.qualname} <- generator {g.qualname} (line {s.lineno})")
        self.res._envs.pop(f.qualname, None)
        self.res._calls.pop(f.qualname, None)
        return out

    def known_nested_hosts(self) -> Set[str]:
        """Reference functions that already had a nested helper on the reference tree (their closures are left alone)."""
        return {q.split(".<locals>.")[0] for q in self.known if ".<locals>." in q}

    def _canonical_pool_calls(self):
        """`pool.apply_async(func=f, args=a, kwds=k)` is `pool.apply_async(f, a, k)`: the three leading parameters of
        Pool.apply / Pool.apply_async are written positionally (callbacks stay keywords)."""
        order = ("func", "args", "kwds")
        for f in self.prog.functions.values():
            for n in ast.walk(f.node):
                if isinstance(n, ast.Call) and isinstance(n.func, ast.Attribute) and n.func.attr in ("apply_async", "apply") and n.keywords \
                        and not any(isinstance(a, ast.Starred) for a in n.args) and all(k.arg is not None for k in n.keywords):
                    kw = {k.arg: k for k in n.keywords}
                    pos = list(n.args)
                    while len(pos) < 3:
                        name = order[len(pos)]
                        if name in kw:
                            pos.append(kw.pop(name).value)
                        elif name == "args" and "kwds" in kw:
                            pos.append(ast.copy_location(ast.Tuple(elts=[], ctx=ast.Load()), n))
                        else:
                            break
                    if len(pos) != len(n.args):
                        n.args = pos
                        n.keywords = [k for k in n.keywords if k.arg in kw]
                        self.log.append(f"{f.qualname}:{n.lineno} <- positional apply_async arguments")

    def _canonical_sorts(self):
        """`v = list(e)` (or any other fresh list) immediately followed by `v.sort(key=..., reverse=...)` is `v = sorted(e, ...)`:
        the list is fresh and nothing can observe it between the two statements."""
        def fresh_list(e):
            if isinstance(e, (ast.List, ast.ListComp)):
                return e
            if isinstance(e, ast.Call) and isinstance(e.func, ast.Name) and e.func.id in ("list", "sorted") and len(e.args) == 1 and not e.keywords:
                return e.args[0] if e.func.id == "list" else e
            if isinstance(e, ast.Subscript) and isinstance(e.slice, ast.Slice) and e.slice.lower is None and e.slice.upper is None and e.slice.step is None:
                return e.value
            return None
        for f in self.prog.functions.values():
            for n in ast.walk(f.node):
                for fld in ("body", "orelse", "finalbody"):
                    lst = getattr(n, fld, None)
                    if not (isinstance(lst, list) and lst and isinstance(lst[0], ast.stmt)):
                        continue
                    i = 0
                    while i + 1 < len(lst):
                        a, b = lst[i], lst[i + 1]
                        if isinstance(a, ast.Assign) and len(a.targets) == 1 and isinstance(a.targets[0], ast.Name) and isinstance(b, ast.Expr) \
                                and isinstance(b.value, ast.Call) and isinstance(b.value.func, ast.Attribute) and b.value.func.attr == "sort" \
                                and isinstance(b.value.func.value, ast.Name) and b.value.func.value.id == a.targets[0].id and not b.value.args \
                                and all(k.arg in ("key", "reverse") for k in b.value.keywords):
                            src = fresh_list(a.value)
                            v = a.targets[0].id
                            if src is not None and not any(isinstance(x, ast.Name) and x.id == v for k in b.value.keywords for x in ast.walk(k.value)):
                                call = ast.Call(func=ast.Name("sorted", ast.Load()), args=[src], keywords=list(b.value.keywords))
                                a.value = ast.fix_missing_locations(ast.copy_location(call, b.value))
                                del lst[i + 1]
                                self.log.append(f"{f.qualname}:{a.lineno} <- list + .sort() written as sorted()")
                                continue
                        i += 1

    def _canonical_temps(self):
        """A single-use temporary that is copied by the very next statement is that statement's value:
        `t = E; x = t` is `x = E`, and a function whose whole body is `t = E; return t` is `return E`.  (t is stored once and read
        once in the function, so nothing else can observe it.)"""
        for f in self.prog.functions.values():
            names = {}
            for n in ast.walk(f.node):
                if isinstance(n, ast.Name):
                    c = names.setdefault(n.id, [0, 0])
                    c[0 if isinstance(n.ctx, ast.Load) else 1] += 1
                elif isinstance(n, (ast.Global, ast.Nonlocal)):
                    for nm in n.names:
                        names.setdefault(nm, [0, 0])[1] += 5
            params = {a.arg for a in f.node.args.args + f.node.args.kwonlyargs + f.node.args.posonlyargs}
            single = {k for k, (ld, st) in names.items() if ld == 1 and st == 1 and k not in params}
            if not single:
                continue
            body = effective_body(f.node.body)
            for n in ast.walk(f.node):
                for fld in ("body", "orelse", "finalbody"):
                    lst = getattr(n, fld, None)
                    if not (isinstance(lst, list) and lst and isinstance(lst[0], ast.stmt)):
                        continue
                    i = 0
                    while i + 1 < len(lst):
                        a, b = lst[i], lst[i + 1]
                        if isinstance(a, ast.Assign) and len(a.targets) == 1 and isinstance(a.targets[0], ast.Name) and a.targets[0].id in single:
                            t = a.targets[0].id
                            if isinstance(b, ast.Assign) and isinstance(b.value, ast.Name) and b.value.id == t \
                                    and not any(isinstance(x, ast.Name) and x.id == t for tg in b.targets for x in ast.walk(tg)):
                                b.value = a.value
                                del lst[i]
                                self.log.append(f"{f.qualname}:{b.lineno} <- single-use temporary `{t}` folded into the assignment")
                                continue
                            if isinstance(b, ast.Raise) and isinstance(b.exc, ast.Name) and b.exc.id == t \
                                    and not (b.cause is not None and any(isinstance(x, ast.Name) and x.id == t for x in ast.walk(b.cause))):
                                b.exc = a.value
                                del lst[i]
                                self.log.append(f"{f.qualname}:{b.lineno} <- single-use temporary `{t}` folded into the raise")
                                continue
                            if isinstance(b, ast.If) and isinstance(b.test, ast.Name) and b.test.id == t and not any(isinstance(x, ast.Call) for x in ast.walk(a.value)):
                                b.test = a.value
                                del lst[i]
                                self.log.append(f"{f.qualname}:{b.lineno} <- single-use temporary `{t}` folded into the test")
                                continue
                            if isinstance(b, ast.Return) and isinstance(b.value, ast.Name) and b.value.id == t and lst is f.node.body and body == [a, b]:
                                b.value = a.value
                                del lst[i]
                                self.log.append(f"{f.qualname}:{b.lineno} <- single-use temporary `{t}` folded into the return")
                                continue
                        i += 1

    def _canonical_defaults(self):
        """`v = D` immediately followed by an if / elif chain without `else` whose every branch (re)assigns v is the same chain
        with `else: v = D` (D a constant, a name or an attribute: evaluating it later cannot be observed; the tests do not read v)."""
        for f in self.prog.functions.values():
            for n in ast.walk(f.node):
                for fld in ("body", "orelse", "finalbody"):
                    lst = getattr(n, fld, None)
                    if not (isinstance(lst, list) and lst and isinstance(lst[0], ast.stmt)):
                        continue
                    i = 0
                    while i + 1 < len(lst):
                        a, b = lst[i], lst[i + 1]
                        ok = isinstance(a, ast.Assign) and len(a.targets) == 1 and isinstance(a.targets[0], ast.Name) \
                            and isinstance(a.value, (ast.Constant, ast.Name, ast.Attribute)) and isinstance(b, ast.If)
                        if ok:
                            v = a.targets[0].id
                            chain, cur = [], b
                            while True:
                                chain.append(cur)
                                if len(cur.orelse) == 1 and isinstance(cur.orelse[0], ast.If):
                                    cur = cur.orelse[0]
                                    continue
                                break
                            last = chain[-1]
                            assigns_v = lambda body: any(isinstance(s_, ast.Assign) and len(s_.targets) == 1 and isinstance(s_.targets[0], ast.Name)
                                                         and s_.targets[0].id == v for s_ in body)
                            reads_v = any(isinstance(x, ast.Name) and x.id == v for c in chain for x in ast.walk(c.test))
                            dep = {x.id for x in ast.walk(a.value) if isinstance(x, ast.Name)}
                            writes_dep = any(isinstance(x, ast.Name) and x.id in dep and not isinstance(x.ctx, ast.Load) for c in chain for x in ast.walk(c))
                            if not last.orelse and all(assigns_v(c.body) for c in chain) and not reads_v and not writes_dep \
                                    and not any(isinstance(x, (ast.Call, ast.NamedExpr)) for c in chain for x in ast.walk(c.test) if False):
                                last.orelse = [a]
                                del lst[i]
                                self.log.append(f"{f.qualname}:{a.lineno} <- default assignment of `{v}` moved into the else branch")
                                continue
                        i += 1

    def _canonical_range_offsets(self):
        """`for j in range(c, E)` with an integer constant c != 0 (step 1) is `for j__0 in range(0, E - c): j = j__0 + c`: loops
        are counted from zero, the shifted index is an ordinary local (`range(1, W + 1)` with `(j-1)*N` is `range(W)` with `j*N`)."""
        for f in self.prog.functions.values():
            taken = {n.id for n in ast.walk(f.node) if isinstance(n, ast.Name)}
            for n in ast.walk(f.node):
                if not (isinstance(n, ast.For) and isinstance(n.target, ast.Name) and isinstance(n.iter, ast.Call) and isinstance(n.iter.func, ast.Name)
                        and n.iter.func.id == "range" and len(n.iter.args) == 2 and not n.iter.keywords):
                    continue
                lo, hi = n.iter.args
                c = lo.value if isinstance(lo, ast.Constant) and isinstance(lo.value, int) and not isinstance(lo.value, bool) else None
                if isinstance(lo, ast.UnaryOp) and isinstance(lo.op, ast.USub) and isinstance(lo.operand, ast.Constant) and isinstance(lo.operand.value, int):
                    c = -lo.operand.value
                if not c:
                    continue
                v = n.target.id
                v0 = v + "__0"
                if v0 in taken:
                    continue
                new_hi = ast.BinOp(left=hi, op=ast.Sub() if c > 0 else ast.Add(), right=ast.Constant(abs(c)))
                # (E + c) - c is E: fold the constant when the upper bound is already written as `E + k` / `E - k`
                if isinstance(hi, ast.BinOp) and isinstance(hi.op, (ast.Add, ast.Sub)) and isinstance(hi.right, ast.Constant) \
                        and isinstance(hi.right.value, int) and not isinstance(hi.right.value, bool):
                    k = hi.right.value if isinstance(hi.op, ast.Add) else -hi.right.value
                    rest = k - c
                    new_hi = hi.left if rest == 0 else ast.BinOp(left=hi.left, op=ast.Add() if rest > 0 else ast.Sub(), right=ast.Constant(abs(rest)))
                n.iter.args = [new_hi]
                n.target = ast.Name(v0, ast.Store())
                shift = ast.Assign(targets=[ast.Name(v, ast.Store())],
                                   value=ast.BinOp(left=ast.Name(v0, ast.Load()), op=ast.Add() if c > 0 else ast.Sub(), right=ast.Constant(abs(c))))
                n.body.insert(0, shift)
                for x in (n.iter, n.target, shift):
                    ast.copy_location(x, n)
                    ast.fix_missing_locations(x)
                ast.fix_missing_locations(n)
                self.log.append(f"{f.qualname}:{n.lineno} <- range({c}, ...) counted from zero")

    def _canonical_annotated_assignments(self):
        """Inside a function `target: T = value` is `target = value`: the annotation of a local is never evaluated and that of an
        attribute or subscript target is evaluated and dropped.  (Class-level and module-level annotations are left alone.)"""
        for f in self.prog.functions.values():
            for n in ast.walk(f.node):
                for fld in ("body", "orelse", "finalbody"):
                    lst = getattr(n, fld, None)
                    if not (isinstance(lst, list) and lst and isinstance(lst[0], ast.stmt)):
                        continue
                    for i, st in enumerate(lst):
                        if isinstance(st, ast.AnnAssign) and st.value is not None and not isinstance(n, ast.ClassDef):
                            lst[i] = ast.copy_location(ast.Assign(targets=[st.target], value=st.value), st)
                            ast.fix_missing_locations(lst[i])
                            self.log.append(f"{f.qualname}:{st.lineno} <- annotated assignment read as a plain assignment")

    def _canonical_counting_whiles(self):
        """`i = E0; while i >= c: BODY; i -= 1` is `for i in range(E0, c - 1, -1): BODY`, and `while i < E: BODY; i += 1` is
        `for i in range(E0, E): BODY` - provided the counter is stepped exactly once, as the last statement of the body, nothing in
        BODY jumps (`continue` would skip the step, `break` is fine) or assigns it, the bound does not change in BODY, and the counter
        is not read after the loop (a `for` leaves it one step earlier)."""
        for f in self.prog.functions.values():
            for n in ast.walk(f.node):
                for fld in ("body", "orelse", "finalbody"):
                    lst = getattr(n, fld, None)
                    if not (isinstance(lst, list) and lst and isinstance(lst[0], ast.stmt)):
                        continue
                    i = 0
                    while i + 1 < len(lst):
                        a, w = lst[i], lst[i + 1]
                        i += 1
                        if not (isinstance(a, ast.Assign) and len(a.targets) == 1 and isinstance(a.targets[0], ast.Name) and isinstance(w, ast.While)
                                and not w.orelse and isinstance(w.test, ast.Compare) and len(w.test.ops) == 1 and isinstance(w.test.left, ast.Name)
                                and w.test.left.id == a.targets[0].id and len(w.body) >= 2):
                            continue
                        v = a.targets[0].id
                        step = w.body[-1]
                        if not (isinstance(step, ast.AugAssign) and isinstance(step.target, ast.Name) and step.target.id == v
                                and isinstance(step.value, ast.Constant) and step.value.value == 1 and isinstance(step.op, (ast.Add, ast.Sub))):
                            continue
                        body = w.body[:-1]
                        op = w.test.ops[0]
                        bound = w.test.comparators[0]
                        down = isinstance(step.op, ast.Sub)
                        if down and not isinstance(op, (ast.GtE, ast.Gt)) or (not down and not isinstance(op, (ast.Lt, ast.LtE))):
                            continue
                        inner = [x for st in body for x in ast.walk(st)]
                        if any(isinstance(x, ast.Continue) for x in inner):
                            continue
                        if any(isinstance(x, ast.Name) and x.id == v and not isinstance(x.ctx, ast.Load) for x in inner):
                            continue
                        bnames = {x.id for x in ast.walk(bound) if isinstance(x, ast.Name)} - {"len"}
                        # the bound is re-evaluated by the while loop on every round and once by range(): it must be a plain
                        # expression (names, attributes, constant subscripts, arithmetic, len(name)) of things the body leaves alone
                        plain = all(isinstance(x, (ast.Name, ast.Attribute, ast.Constant, ast.BinOp, ast.UnaryOp, ast.operator, ast.unaryop, ast.expr_context,
                                                   ast.Subscript, ast.Call)) for x in ast.walk(bound)) and all(
                            (isinstance(x.func, ast.Name) and x.func.id == "len" and len(x.args) == 1 and not x.keywords) for x in ast.walk(bound) if isinstance(x, ast.Call)) and all(
                            isinstance(x.slice, ast.Constant) for x in ast.walk(bound) if isinstance(x, ast.Subscript))
                        if not plain:
                            continue
                        if any(isinstance(x, ast.Name) and x.id in bnames and not isinstance(x.ctx, ast.Load) for x in inner):
                            continue
                        if any(isinstance(x, ast.Call) and isinstance(x.func, ast.Attribute) and _root(x.func.value) in bnames
                               and x.func.attr in ("append", "extend", "insert", "pop", "remove", "clear", "resize", "add", "discard", "update") for x in inner):
                            continue
                        inner_of = {id(x.value) for x in ast.walk(bound) if isinstance(x, (ast.Attribute, ast.Subscript))}
                        bound_chains = [_chain(x) for x in ast.walk(bound) if isinstance(x, (ast.Attribute, ast.Subscript, ast.Name)) and id(x) not in inner_of]
                        clash = False
                        for x in inner:
                            if isinstance(x, (ast.Assign, ast.AugAssign)):
                                for t in (x.targets if isinstance(x, ast.Assign) else [x.target]):
                                    if isinstance(t, (ast.Attribute, ast.Subscript)):
                                        tc = _chain(t)
                                        if any(bc[:len(tc)] == tc or tc[:len(bc)] == bc for bc in bound_chains if bc and tc):
                                            clash = True
                        if clash:
                            continue
                        # the counter must not be read after the loop (in this block or, conservatively, anywhere later in the function)
                        if _read_before_rebound(lst[i + 1:], v):
                            continue
                        one = ast.Constant(1)
                        if down:
                            stop = ast.BinOp(bound, ast.Sub(), one) if isinstance(op, ast.GtE) else bound
                            rng = [a.value, stop, ast.UnaryOp(ast.USub(), ast.Constant(1))]
                        else:
                            stop = ast.BinOp(bound, ast.Add(), one) if isinstance(op, ast.LtE) else bound
                            rng = [a.value, stop]
                        loop = ast.For(target=ast.Name(v, ast.Store()), iter=ast.Call(ast.Name("range", ast.Load()), rng, []), body=body, orelse=[],
                                       type_comment=None)
                        ast.copy_location(loop, w)
                        ast.fix_missing_locations(loop)
                        lst[i - 1:i + 1] = [loop]
                        self.log.append(f"{f.qualname}:{w.lineno} <- counting while loop read as for {v} in range(...)")
                        i -= 1

    def _canonical_chained_assignments(self):
        """`a = b = E` (plain names) is `a = E; b = a`: E is evaluated once and both names are bound to that object."""
        for f in self.prog.functions.values():
            for n in ast.walk(f.node):
                for fld in ("body", "orelse", "finalbody"):
                    lst = getattr(n, fld, None)
                    if not (isinstance(lst, list) and lst and isinstance(lst[0], ast.stmt)):
                        continue
                    out = []
                    changed = False
                    for st in lst:
                        if isinstance(st, ast.Assign) and len(st.targets) > 1 and all(isinstance(t, ast.Name) for t in st.targets):
                            first = st.targets[0]
                            out.append(ast.copy_location(ast.Assign(targets=[first], value=st.value), st))
                            for t in st.targets[1:]:
                                out.append(ast.copy_location(ast.Assign(targets=[t], value=ast.Name(first.id, ast.Load())), st))
                            for x in out[-len(st.targets):]:
                                ast.fix_missing_locations(x)
                            changed = True
                            self.log.append(f"{f.qualname}:{st.lineno} <- chained assignment split")
                        elif isinstance(st, ast.Assign) and len(st.targets) > 1 and not any(isinstance(x, (ast.Call, ast.NamedExpr, ast.Await)) for x in ast.walk(st.value)) \
                                and all(isinstance(t, (ast.Name, ast.Attribute, ast.Subscript)) for t in st.targets):
                            # a = obj.f = E with a call-free E (a name, an attribute path, arithmetic): each target gets E, left to right;
                            # no target may feed E or a later target's own expression
                            tnames = {x.id for t in st.targets for x in ast.walk(t) if isinstance(x, ast.Name) and not isinstance(x.ctx, ast.Load)}
                            reads = {x.id for x in ast.walk(st.value) if isinstance(x, ast.Name)} | \
                                {x.id for t in st.targets for x in ast.walk(t) if isinstance(x, ast.Name) and isinstance(x.ctx, ast.Load)}
                            if tnames & reads:
                                out.append(st)
                                continue
                            for t in st.targets:
                                out.append(ast.fix_missing_locations(ast.copy_location(ast.Assign(targets=[t], value=copy.deepcopy(st.value)), st)))
                            changed = True
                            self.log.append(f"{f.qualname}:{st.lineno} <- chained assignment split")
                        else:
                            out.append(st)
                    if changed:
                        lst[:] = out

    def _canonical_literal_loops(self):
        """`for (a, b) in ((x1, y1), (x2, y2)): BODY` over a short literal of names and constants is BODY[x1, y1]; BODY[x2, y2]:
        the loop is written out.  Only when BODY has no break/continue of its own, assigns neither the targets nor a name the
        literal reads, and the targets are not read after the loop."""
        def simple(e):
            return isinstance(e, (ast.Name, ast.Constant)) or (isinstance(e, ast.Attribute) and simple(e.value)) or \
                (isinstance(e, ast.UnaryOp) and isinstance(e.operand, ast.Constant))
        for f in self.prog.functions.values():
            for n in ast.walk(f.node):
                for fld in ("body", "orelse", "finalbody"):
                    lst = getattr(n, fld, None)
                    if not (isinstance(lst, list) and lst and isinstance(lst[0], ast.stmt)):
                        continue
                    out, changed = [], False
                    for st in lst:
                        rows = None
                        if isinstance(st, ast.For) and not st.orelse and isinstance(st.iter, (ast.Tuple, ast.List)) and 1 <= len(st.iter.elts) <= 4:
                            tg = st.target
                            names = [tg.id] if isinstance(tg, ast.Name) else [x.id for x in tg.elts] if isinstance(tg, (ast.Tuple, ast.List)) and \
                                all(isinstance(x, ast.Name) for x in tg.elts) else None
                            if names is not None:
                                rows = []
                                for e in st.iter.elts:
                                    if isinstance(tg, ast.Name):
                                        rows.append([e] if simple(e) else None)
                                    else:
                                        rows.append(list(e.elts) if isinstance(e, (ast.Tuple, ast.List)) and len(e.elts) == len(names) and all(simple(x) for x in e.elts) else None)
                                if any(r is None for r in rows):
                                    rows = None
                        if rows is not None:
                            body_nodes = [x for b_ in st.body for x in ast.walk(b_)]
                            jumps = any(isinstance(x, (ast.Break, ast.Continue)) for x in body_nodes)
                            nested = any(isinstance(x, (ast.FunctionDef, ast.Lambda, ast.ClassDef)) for x in body_nodes)
                            stores = {x.id for x in body_nodes if isinstance(x, ast.Name) and not isinstance(x.ctx, ast.Load)}
                            reads = {x.id for r in rows for e in r for x in ast.walk(e) if isinstance(x, ast.Name)}
                            if lst is f.node.body:
                                rest = lst[lst.index(st) + 1:]
                                later = any(_read_before_rebound(rest, v) for v in names)
                            else:
                                later = {x.id for x in ast.walk(f.node) if isinstance(x, ast.Name) and isinstance(x.ctx, ast.Load) and x.id in names
                                         and not any(x is y for y in body_nodes)}
                            if jumps or nested or stores & (set(names) | reads) or later:
                                rows = None
                        if rows is None:
                            out.append(st)
                            continue
                        for r in rows:
                            for b_ in st.body:
                                c = _Renamer(dict(zip(names, r))).visit(copy.deepcopy(b_))
                                out.append(ast.fix_missing_locations(c))
                        changed = True
                        self.log.append(f"{f.qualname}:{st.lineno} <- loop over a literal written out")
                    if changed:
                        lst[:] = out

    def _canonical_enumerated_slices(self):
        """`for (i, x) in enumerate(A[lo:hi]): BODY` with constant lo >= 0 (or none) and constant hi < 0 (or none) is
        `for i in range(len(A) - lo - |hi|): BODY[x := A[i + lo]]` (range() clamps a negative count just as the slice does).  Only for a
        plain name A that BODY does not rebind, targets that BODY does not assign and that are not read after the loop."""
        for f in self.prog.functions.values():
            for st in [n for n in ast.walk(f.node) if isinstance(n, ast.For)]:
                it, tg = st.iter, st.target
                if not (isinstance(it, ast.Call) and isinstance(it.func, ast.Name) and it.func.id == "enumerate" and len(it.args) == 1 and not it.keywords
                        and isinstance(tg, (ast.Tuple, ast.List)) and len(tg.elts) == 2 and all(isinstance(e, ast.Name) for e in tg.elts) and not st.orelse):
                    continue
                a = it.args[0]
                if not (isinstance(a, ast.Subscript) and isinstance(a.value, ast.Name) and isinstance(a.slice, ast.Slice) and a.slice.step is None):
                    continue

                def const(e):
                    if e is None:
                        return 0
                    if isinstance(e, ast.Constant) and isinstance(e.value, int) and not isinstance(e.value, bool):
                        return e.value
                    if isinstance(e, ast.UnaryOp) and isinstance(e.op, ast.USub) and isinstance(e.operand, ast.Constant) and isinstance(e.operand.value, int):
                        return -e.operand.value
                    return None
                lo, hi = const(a.slice.lower), const(a.slice.upper)
                if lo is None or hi is None or lo < 0 or hi > 0:
                    continue
                iname, xname, aname = tg.elts[0].id, tg.elts[1].id, a.value.id
                body_nodes = [x for b_ in st.body for x in ast.walk(b_)]
                stores = {x.id for x in body_nodes if isinstance(x, ast.Name) and not isinstance(x.ctx, ast.Load)}
                nested = any(isinstance(x, (ast.FunctionDef, ast.Lambda, ast.ClassDef)) for x in body_nodes)
                if st in f.node.body:
                    rest = f.node.body[f.node.body.index(st) + 1:]
                    later = any(_read_before_rebound(rest, v) for v in (iname, xname))
                else:
                    later = any(isinstance(x, ast.Name) and isinstance(x.ctx, ast.Load) and x.id in (iname, xname) and not any(x is y for y in body_nodes)
                                for x in ast.walk(f.node))
                if stores & {iname, xname, aname} or nested or later:
                    continue
                idx = ast.Name(iname, ast.Load()) if lo == 0 else ast.BinOp(ast.Name(iname, ast.Load()), ast.Add(), ast.Constant(lo))
                elem = ast.Subscript(value=ast.Name(aname, ast.Load()), slice=idx, ctx=ast.Load())
                st.body = [ast.fix_missing_locations(_Renamer({xname: elem}).visit(b_)) for b_ in st.body]
                n_ = ast.Call(ast.Name("len", ast.Load()), [ast.Name(aname, ast.Load())], [])
                if lo - hi:
                    n_ = ast.BinOp(n_, ast.Sub(), ast.Constant(lo - hi))
                st.iter = ast.copy_location(ast.Call(ast.Name("range", ast.Load()), [n_], []), it)
                st.target = ast.copy_location(ast.Name(iname, ast.Store()), tg)
                ast.fix_missing_locations(st)
                self.log.append(f"{f.qualname}:{st.lineno} <- enumerate over a slice written as a counting loop")

    def _canonical_conditional_stores(self):
        """`x[i] = A if c else B` is `if c: x[i] = A else: x[i] = B` (the target is evaluated after the value either way), and two
        adjacent `if`s on the same call-free test whose first one cannot change the test are one `if`."""
        for f in self.prog.functions.values():
            for n in ast.walk(f.node):
                for fld in ("body", "orelse", "finalbody"):
                    lst = getattr(n, fld, None)
                    if not (isinstance(lst, list) and lst and isinstance(lst[0], ast.stmt)):
                        continue
                    for i, st in enumerate(lst):
                        if isinstance(st, ast.Assign) and len(st.targets) == 1 and isinstance(st.targets[0], ast.Subscript) and isinstance(st.value, ast.IfExp):
                            v = st.value
                            mk = lambda val: ast.copy_location(ast.Assign(targets=[copy.deepcopy(st.targets[0])], value=val), st)
                            lst[i] = ast.fix_missing_locations(ast.copy_location(ast.If(test=v.test, body=[mk(v.body)], orelse=[mk(v.orelse)]), st))
                            self.log.append(f"{f.qualname}:{st.lineno} <- conditional store written as an if")
                    i = 0
                    while i + 1 < len(lst):
                        a, b = lst[i], lst[i + 1]
                        if isinstance(a, ast.If) and isinstance(b, ast.If) and a.orelse and b.orelse and ast.dump(a.test) == ast.dump(b.test) \
                                and all(isinstance(x, PURE_NODES) and not isinstance(x, ast.Call) for x in ast.walk(a.test)):
                            read = {x.id for x in ast.walk(a.test) if isinstance(x, ast.Name)}
                            wrote = set()
                            for x in [y for blk in (a.body, a.orelse) for s_ in blk for y in ast.walk(s_)]:
                                if isinstance(x, ast.Name) and not isinstance(x.ctx, ast.Load):
                                    wrote.add(x.id)
                                elif isinstance(x, (ast.Subscript, ast.Attribute)) and not isinstance(x.ctx, ast.Load):
                                    wrote.add(_root(x))
                                elif isinstance(x, ast.Call):
                                    wrote.add("*")
                            if not (wrote & read) and "*" not in wrote and "" not in wrote and None not in wrote:
                                a.body = a.body + b.body
                                a.orelse = a.orelse + b.orelse
                                del lst[i + 1]
                                self.log.append(f"{f.qualname}:{a.lineno} <- adjacent ifs on one test merged")
                                continue
                        i += 1

    def _canonical_star_args(self):
        """`t = (a, b, c)` bound once to a literal of names / constants / attribute paths and only ever read as `*t` in calls later in
        the same block (nested statements included), with none of a, b, c rebound in between, is the arguments written out."""
        def simple(e):
            return isinstance(e, (ast.Name, ast.Constant)) or (isinstance(e, ast.Attribute) and simple(e.value))
        for f in self.prog.functions.values():
            for n in ast.walk(f.node):
                for fld in ("body", "orelse", "finalbody"):
                    lst = getattr(n, fld, None)
                    if not (isinstance(lst, list) and lst and isinstance(lst[0], ast.stmt)):
                        continue
                    i = 0
                    while i < len(lst):
                        st = lst[i]
                        i += 1
                        if not (isinstance(st, ast.Assign) and len(st.targets) == 1 and isinstance(st.targets[0], ast.Name)
                                and isinstance(st.value, (ast.Tuple, ast.List)) and st.value.elts and all(simple(e) for e in st.value.elts)):
                            continue
                        t = st.targets[0].id
                        occ = [x for x in ast.walk(f.node) if isinstance(x, ast.Name) and x.id == t]
                        if sum(1 for x in occ if not isinstance(x.ctx, ast.Load)) != 1:
                            continue
                        rest = lst[i:]
                        rest_nodes = [x for s_ in rest for x in ast.walk(s_)]
                        starred = [x for x in rest_nodes if isinstance(x, ast.Starred) and isinstance(x.value, ast.Name) and x.value.id == t]
                        loads = [x for x in occ if isinstance(x.ctx, ast.Load)]
                        if not starred or len(starred) != len(loads) or not all(any(x.value is l for x in starred) for l in loads):
                            continue
                        calls = [c for c in rest_nodes if isinstance(c, ast.Call) and any(a in starred for a in c.args)]
                        if sum(sum(1 for a in c.args if a in starred) for c in calls) != len(starred):
                            continue            # a starred use outside a call's positional arguments ([*t], print(*t, sep=..) is fine, f(x=[*t]) is not)
                        elems = {x.id for e in st.value.elts for x in ast.walk(e) if isinstance(x, ast.Name)}
                        def stores_elem(node):
                            return any(isinstance(x, ast.Name) and not isinstance(x.ctx, ast.Load) and x.id in elems for x in ast.walk(node))
                        dirty = bad = False
                        for s_ in rest:
                            uses_here = any(any(x is y for y in starred) for x in ast.walk(s_))
                            if uses_here and (dirty or (isinstance(s_, (ast.For, ast.While, ast.If, ast.With, ast.Try)) and stores_elem(s_))):
                                bad = True
                            if stores_elem(s_):
                                dirty = True
                        in_loop = any(isinstance(p_, (ast.For, ast.While)) and any(x is st for x in ast.walk(p_)) for p_ in ast.walk(f.node))
                        if bad or any(isinstance(x, (ast.FunctionDef, ast.Lambda)) for x in rest_nodes):
                            continue
                        for c in calls:
                            new_args = []
                            for a in c.args:
                                if a in starred:
                                    new_args.extend(copy.deepcopy(e) for e in st.value.elts)
                                else:
                                    new_args.append(a)
                            c.args = new_args
                            ast.fix_missing_locations(c)
                        i -= 1
                        del lst[i]
                        if not lst:
                            lst.append(ast.copy_location(ast.Pass(), st))
                        self.log.append(f"{f.qualname}:{st.lineno} <- *{t} written out at {len(starred)} call(s)")

    def _canonical_maps(self):
        """`map(f, A)` is `(f(x) for x in A)`; `map(f, A, itertools.repeat(c))` is `(f(x, c) for x in A)` for a constant / name c;
        `map(lambda p: E, A)` is `(E for p in A)`.  Both are lazy and visit A once, in order."""
        for f in self.prog.functions.values():
            mod_names = set()
            counter = [0]

            class X(ast.NodeTransformer):
                def visit_Call(self_, n):
                    n = self_.generic_visit(n)
                    if not (isinstance(n.func, ast.Name) and n.func.id == "map" and len(n.args) >= 2 and not n.keywords
                            and not any(isinstance(a, ast.Starred) for a in n.args)):
                        return n
                    fn, seqs = n.args[0], n.args[1:]
                    if isinstance(fn, ast.Name) and fn.id in ("list", "tuple", "set", "frozenset", "dict", "sorted") and \
                            isinstance(seqs[0], ast.Call) and isinstance(seqs[0].func, ast.Name) and seqs[0].func.id == "zip":
                        return n          # map(list, zip(*pairs)) is the unzip idiom: it has its own sequence-domain meaning (sa/terms.py)

                    def repeated(e):
                        if isinstance(e, ast.Call) and not e.keywords and len(e.args) == 1 and \
                                ((isinstance(e.func, ast.Attribute) and e.func.attr == "repeat" and isinstance(e.func.value, ast.Name) and e.func.value.id == "itertools")
                                 or (isinstance(e.func, ast.Name) and e.func.id == "repeat")) \
                                and isinstance(e.args[0], (ast.Name, ast.Constant, ast.Attribute)):
                            return e.args[0]
                        return None
                    real = [a for a in seqs if repeated(a) is None]
                    if len(real) != 1 or real[0] is not seqs[0]:
                        return n
                    if isinstance(fn, ast.Lambda):
                        a_ = fn.args
                        if len(seqs) != 1 or len(a_.args) != 1 or a_.vararg or a_.kwarg or a_.kwonlyargs or a_.defaults or a_.posonlyargs \
                                or any(isinstance(x, (ast.Lambda, ast.ListComp, ast.GeneratorExp, ast.SetComp, ast.DictComp)) for x in ast.walk(fn.body)):
                            return n
                        var, elt = a_.args[0].arg, fn.body
                    elif isinstance(fn, ast.Attribute) and fn.attr == "__getitem__" and len(seqs) == 1:
                        counter[0] += 1
                        var = f"_m{counter[0]}_{n.lineno}"
                        elt = ast.Subscript(value=fn.value, slice=ast.Name(var, ast.Load()), ctx=ast.Load())       # map(xs.__getitem__, ids) is (xs[i] for i in ids)
                    elif isinstance(fn, ast.Call) and isinstance(fn.func, ast.Attribute) and isinstance(fn.func.value, ast.Name) and fn.func.value.id == "operator" \
                            and fn.func.attr in ("methodcaller", "itemgetter", "attrgetter") and len(fn.args) == 1 and not fn.keywords and len(seqs) == 1 \
                            and isinstance(fn.args[0], ast.Constant):
                        counter[0] += 1
                        var = f"_m{counter[0]}_{n.lineno}"
                        x_ = ast.Name(var, ast.Load())
                        if fn.func.attr == "itemgetter":
                            elt = ast.Subscript(value=x_, slice=fn.args[0], ctx=ast.Load())
                        elif not (isinstance(fn.args[0].value, str) and fn.args[0].value.isidentifier()):
                            return n
                        elif fn.func.attr == "attrgetter":
                            elt = ast.Attribute(value=x_, attr=fn.args[0].value, ctx=ast.Load())
                        else:
                            elt = ast.Call(func=ast.Attribute(value=x_, attr=fn.args[0].value, ctx=ast.Load()), args=[], keywords=[])
                    elif isinstance(fn, (ast.Name, ast.Attribute)):
                        counter[0] += 1
                        var = f"_m{counter[0]}_{n.lineno}"
                        elt = ast.Call(func=fn, args=[ast.Name(var, ast.Load())] + [repeated(a) for a in seqs[1:]], keywords=[])
                    else:
                        return n
                    g = ast.GeneratorExp(elt=elt, generators=[ast.comprehension(target=ast.Name(var, ast.Store()), iter=real[0], ifs=[], is_async=0)])
                    self.log.append(f"{f.qualname}:{n.lineno} <- map() written as a generator expression")
                    return ast.fix_missing_locations(ast.copy_location(g, n))
            X().visit(f.node)

    def _canonical_running_totals(self):
        """`out = []; acc = 0; for x in XS: acc = acc + x; out.append(acc)` is `out = list(itertools.accumulate(XS))` (left-to-right
        partial sums starting from 0 + x_0 = x_0) when the running scalar is not read after the loop."""
        for f in self.prog.functions.values():
            for n in ast.walk(f.node):
                for fld in ("body", "orelse", "finalbody"):
                    lst = getattr(n, fld, None)
                    if not (isinstance(lst, list) and lst and isinstance(lst[0], ast.stmt)):
                        continue
                    for i, st in enumerate(lst):
                        if not (isinstance(st, ast.For) and not st.orelse and isinstance(st.target, ast.Name) and len(st.body) == 2 and i >= 2):
                            continue
                        x = st.target.id
                        upd, app = st.body
                        acc = None
                        if isinstance(upd, ast.AugAssign) and isinstance(upd.op, ast.Add) and isinstance(upd.target, ast.Name) \
                                and isinstance(upd.value, ast.Name) and upd.value.id == x:
                            acc = upd.target.id
                        elif isinstance(upd, ast.Assign) and len(upd.targets) == 1 and isinstance(upd.targets[0], ast.Name) and isinstance(upd.value, ast.BinOp) \
                                and isinstance(upd.value.op, ast.Add) and isinstance(upd.value.left, ast.Name) and upd.value.left.id == upd.targets[0].id \
                                and isinstance(upd.value.right, ast.Name) and upd.value.right.id == x:
                            acc = upd.targets[0].id
                        if acc is None or acc == x:
                            continue
                        if not (isinstance(app, ast.Expr) and isinstance(app.value, ast.Call) and isinstance(app.value.func, ast.Attribute)
                                and app.value.func.attr == "append" and isinstance(app.value.func.value, ast.Name) and len(app.value.args) == 1
                                and not app.value.keywords and isinstance(app.value.args[0], ast.Name) and app.value.args[0].id == acc):
                            continue
                        out = app.value.func.value.id
                        inits = lst[i - 2:i]

                        def is_init(s_, name, pred):
                            return isinstance(s_, ast.Assign) and len(s_.targets) == 1 and isinstance(s_.targets[0], ast.Name) and s_.targets[0].id == name and pred(s_.value)
                        empty = lambda v: isinstance(v, ast.List) and not v.elts
                        zero = lambda v: isinstance(v, ast.Constant) and v.value == 0 and not isinstance(v.value, (bool, float))
                        if not ((is_init(inits[0], out, empty) and is_init(inits[1], acc, zero)) or (is_init(inits[0], acc, zero) and is_init(inits[1], out, empty))):
                            continue
                        if out in (x, acc) or any(isinstance(y, ast.Name) and y.id in (out, acc, x) for y in ast.walk(st.iter)):
                            continue
                        rest = lst[i + 1:]
                        if lst is not f.node.body or _read_before_rebound(rest, acc) or _read_before_rebound(rest, x):
                            continue
                        call = ast.Call(ast.Name("list", ast.Load()), [ast.Call(ast.Attribute(ast.Name("itertools", ast.Load()), "accumulate", ast.Load()), [st.iter], [])], [])
                        new = ast.fix_missing_locations(ast.copy_location(ast.Assign([ast.Name(out, ast.Store())], call), inits[0]))
                        lst[i - 2:i + 1] = [new]
                        f.module.imports.setdefault("itertools", "itertools")
                        self.log.append(f"{f.qualname}:{st.lineno} <- running-total loop written as itertools.accumulate")
                        break

    def _canonical_asserts(self):
        """`if __debug__ and not C: raise AssertionError(msg)` (also nested: `if __debug__:` around `if not C: raise ...`) is `assert C, msg`."""
        def as_assert(st):
            if not (isinstance(st, ast.If) and not st.orelse and len(st.body) == 1):
                return None
            inner = st.body[0]
            test = st.test
            if isinstance(test, ast.Name) and test.id == "__debug__" and isinstance(inner, ast.If) and not inner.orelse and len(inner.body) == 1:
                test, inner = ast.BoolOp(ast.And(), [test, inner.test]), inner.body[0]
            if not (isinstance(test, ast.BoolOp) and isinstance(test.op, ast.And) and len(test.values) >= 2 and isinstance(test.values[0], ast.Name)
                    and test.values[0].id == "__debug__" and isinstance(inner, ast.Raise) and inner.cause is None and inner.exc is not None):
                return None
            exc = inner.exc
            if isinstance(exc, ast.Name) and exc.id == "AssertionError":
                msg = None
            elif isinstance(exc, ast.Call) and isinstance(exc.func, ast.Name) and exc.func.id == "AssertionError" and len(exc.args) <= 1 and not exc.keywords:
                msg = exc.args[0] if exc.args else None
            else:
                return None
            rest = test.values[1] if len(test.values) == 2 else ast.BoolOp(ast.And(), test.values[1:])
            cond = rest.operand if isinstance(rest, ast.UnaryOp) and isinstance(rest.op, ast.Not) else ast.UnaryOp(ast.Not(), rest)
            return ast.fix_missing_locations(ast.copy_location(ast.Assert(test=cond, msg=msg), st))
        for f in self.prog.functions.values():
            for n in ast.walk(f.node):
                for fld in ("body", "orelse", "finalbody"):
                    lst = getattr(n, fld, None)
                    if not (isinstance(lst, list) and lst and isinstance(lst[0], ast.stmt)):
                        continue
                    for i, st in enumerate(lst):
                        a = as_assert(st)
                        if a is not None:
                            lst[i] = a
                            self.log.append(f"{f.qualname}:{st.lineno} <- `if __debug__ and not ...: raise AssertionError` written as an assert")

    def _canonical_local_lambdas(self):
        """`h = lambda a, b: E` bound once to a local that is only ever called positionally (`h(x, y)`) is E with the arguments
        written in: `E[a := x, b := y]`.  Only for simple arguments (names, constants, attribute paths) or parameters used once,
        and when nothing E reads is rebound after the lambda is made."""
        def simple(e):
            return isinstance(e, (ast.Name, ast.Constant)) or (isinstance(e, ast.Attribute) and simple(e.value))
        for f in self.prog.functions.values():
            for n in ast.walk(f.node):
                for fld in ("body", "orelse", "finalbody"):
                    lst = getattr(n, fld, None)
                    if not (isinstance(lst, list) and lst and isinstance(lst[0], ast.stmt)):
                        continue
                    i = 0
                    while i < len(lst):
                        st = lst[i]
                        i += 1
                        if not (isinstance(st, ast.Assign) and len(st.targets) == 1 and isinstance(st.targets[0], ast.Name) and isinstance(st.value, ast.Lambda)):
                            continue
                        lam, h = st.value, st.targets[0].id
                        a_ = lam.args
                        if a_.vararg or a_.kwarg or a_.kwonlyargs or a_.defaults or a_.posonlyargs:
                            continue
                        params = [x.arg for x in a_.args]
                        if any(isinstance(x, (ast.Lambda, ast.ListComp, ast.GeneratorExp, ast.SetComp, ast.DictComp, ast.NamedExpr)) for x in ast.walk(lam.body)):
                            continue
                        occ = [x for x in ast.walk(f.node) if isinstance(x, ast.Name) and x.id == h]
                        if sum(1 for x in occ if not isinstance(x.ctx, ast.Load)) != 1:
                            continue
                        loads = [x for x in occ if isinstance(x.ctx, ast.Load)]
                        rest_nodes = [x for s_ in lst[i:] for x in ast.walk(s_)]
                        calls = [c for c in rest_nodes if isinstance(c, ast.Call) and any(c.func is l for l in loads)]
                        if not loads or len(calls) != len(loads) or any(c.keywords or len(c.args) != len(params) or any(isinstance(x, ast.Starred) for x in c.args) for c in calls):
                            continue
                        uses = {p_: sum(1 for x in ast.walk(lam.body) if isinstance(x, ast.Name) and x.id == p_) for p_ in params}
                        if any(not simple(a) and uses[p_] != 1 for c in calls for p_, a in zip(params, c.args)):
                            continue
                        free = {x.id for x in ast.walk(lam.body) if isinstance(x, ast.Name)} - set(params)
                        if any(isinstance(x, ast.Name) and not isinstance(x.ctx, ast.Load) and x.id in free for x in rest_nodes) or \
                                any(isinstance(x, (ast.FunctionDef, ast.Lambda)) for x in rest_nodes):
                            continue
                        repl = {id(c): ast.fix_missing_locations(ast.copy_location(_Renamer(dict(zip(params, c.args))).visit(copy.deepcopy(lam.body)), c)) for c in calls}

                        class X(ast.NodeTransformer):
                            def visit_Call(self_, c):
                                if id(c) in repl:
                                    return repl[id(c)]
                                return self_.generic_visit(c)
                        for k in range(i, len(lst)):
                            lst[k] = X().visit(lst[k])
                        i -= 1
                        del lst[i]
                        self.log.append(f"{f.qualname}:{st.lineno} <- local lambda `{h}` written out at {len(calls)} call(s)")

    def _canonical_enumerate_start(self):
        """`for (p, x) in enumerate(XS, start=c)` (or `enumerate(XS, c)`) with a constant c is `for (p, x) in enumerate(XS)` with every
        read of p in the body written `p + c`."""
        for f in self.prog.functions.values():
            for st in [n for n in ast.walk(f.node) if isinstance(n, ast.For)]:
                it, tg = st.iter, st.target
                if not (isinstance(it, ast.Call) and isinstance(it.func, ast.Name) and it.func.id == "enumerate" and isinstance(tg, (ast.Tuple, ast.List))
                        and len(tg.elts) == 2 and isinstance(tg.elts[0], ast.Name)):
                    continue
                start = None
                if len(it.args) == 2 and not it.keywords:
                    start = it.args[1]
                elif len(it.args) == 1 and len(it.keywords) == 1 and it.keywords[0].arg == "start":
                    start = it.keywords[0].value
                if not (isinstance(start, ast.Constant) and isinstance(start.value, int) and not isinstance(start.value, bool)):
                    continue
                pname = tg.elts[0].id
                body_nodes = [x for b_ in st.body + st.orelse for x in ast.walk(b_)]
                if any(isinstance(x, ast.Name) and x.id == pname and not isinstance(x.ctx, ast.Load) for x in body_nodes) or \
                        any(isinstance(x, (ast.FunctionDef, ast.Lambda)) for x in body_nodes):
                    continue
                outside = [x for x in ast.walk(f.node) if isinstance(x, ast.Name) and x.id == pname and isinstance(x.ctx, ast.Load) and not any(x is y for y in body_nodes)]
                if outside:
                    continue
                if start.value != 0:
                    shifted = ast.BinOp(ast.Name(pname, ast.Load()), ast.Add(), ast.Constant(start.value))
                    st.body = [ast.fix_missing_locations(_FoldOffsets().visit(_Renamer({pname: shifted}).visit(b_))) for b_ in st.body]
                it.args = it.args[:1]
                it.keywords = []
                self.log.append(f"{f.qualname}:{st.lineno} <- enumerate(start={start.value}) counted from zero")

    def _canonical_unpack_targets(self):
        """`(a, obj.f) = E` (a tuple target with an attribute or subscript element, E not a tuple literal) is `t = E; a = t[0];
        obj.f = t[1]`: the right-hand side is evaluated once, the elements are assigned left to right."""
        for f in self.prog.functions.values():
            for n in ast.walk(f.node):
                for fld in ("body", "orelse", "finalbody"):
                    lst = getattr(n, fld, None)
                    if not (isinstance(lst, list) and lst and isinstance(lst[0], ast.stmt)):
                        continue
                    out, changed = [], False
                    for st in lst:
                        if isinstance(st, ast.Assign) and len(st.targets) == 1 and isinstance(st.targets[0], (ast.Tuple, ast.List)) \
                                and any(isinstance(e, (ast.Attribute, ast.Subscript)) for e in st.targets[0].elts) \
                                and not any(isinstance(e, (ast.Starred, ast.Tuple, ast.List)) for e in st.targets[0].elts) \
                                and not isinstance(st.value, (ast.Tuple, ast.List)):
                            tmp = f"_u{st.lineno}_{st.col_offset}"
                            out.append(ast.fix_missing_locations(ast.copy_location(ast.Assign([ast.Name(tmp, ast.Store())], st.value), st)))
                            for k, e in enumerate(st.targets[0].elts):
                                val = ast.Subscript(value=ast.Name(tmp, ast.Load()), slice=ast.Constant(k), ctx=ast.Load())
                                out.append(ast.fix_missing_locations(ast.copy_location(ast.Assign([e], val), st)))
                            changed = True
                            self.log.append(f"{f.qualname}:{st.lineno} <- tuple target with an attribute element written as indexed assignments")
                        else:
                            out.append(st)
                    if changed:
                        lst[:] = out

    def _canonical_enumerated_pairs(self):
        """`for (i, (a, b)) in enumerate(L)` over a plain local name L is `for i in range(len(L))` with a, b read as L[i][0], L[i][1]
        (L, i, a, b not rebound in the body, the targets not read after the loop)."""
        for f in self.prog.functions.values():
            for st in [n for n in ast.walk(f.node) if isinstance(n, ast.For)]:
                it, tg = st.iter, st.target
                if not (isinstance(it, ast.Call) and isinstance(it.func, ast.Name) and it.func.id == "enumerate" and len(it.args) == 1 and not it.keywords
                        and isinstance(it.args[0], ast.Name) and isinstance(tg, (ast.Tuple, ast.List)) and len(tg.elts) == 2 and isinstance(tg.elts[0], ast.Name)
                        and isinstance(tg.elts[1], (ast.Tuple, ast.List)) and all(isinstance(e, ast.Name) for e in tg.elts[1].elts) and not st.orelse):
                    continue
                iname, lname = tg.elts[0].id, it.args[0].id
                parts = [e.id for e in tg.elts[1].elts]
                body_nodes = [x for b_ in st.body for x in ast.walk(b_)]
                stores = {x.id for x in body_nodes if isinstance(x, ast.Name) and not isinstance(x.ctx, ast.Load)}
                if stores & ({iname, lname} | set(parts)) or any(isinstance(x, (ast.FunctionDef, ast.Lambda, ast.ClassDef)) for x in body_nodes):
                    continue
                # the list itself must not be mutated in the body either
                if any(isinstance(x, ast.Call) and isinstance(x.func, ast.Attribute) and isinstance(x.func.value, ast.Name) and x.func.value.id == lname for x in body_nodes) or \
                        any(isinstance(x, ast.Subscript) and not isinstance(x.ctx, ast.Load) and _root(x) == lname for x in body_nodes):
                    continue
                comp_scoped = set()
                for c_ in ast.walk(f.node):
                    if isinstance(c_, (ast.ListComp, ast.SetComp, ast.DictComp, ast.GeneratorExp)):
                        bound = {x.id for g_ in c_.generators for x in ast.walk(g_.target) if isinstance(x, ast.Name)}
                        comp_scoped |= {id(x) for x in ast.walk(c_) if isinstance(x, ast.Name) and x.id in bound}
                outside = [x for x in ast.walk(f.node) if isinstance(x, ast.Name) and x.id in [iname] + parts and isinstance(x.ctx, ast.Load)
                           and not any(x is y for y in body_nodes) and id(x) not in comp_scoped]
                if outside and not (st in f.node.body and not any(_read_before_rebound(f.node.body[f.node.body.index(st) + 1:], v) for v in [iname] + parts)
                                    and not any(x.lineno < st.lineno for x in outside)):
                    continue
                row = lambda: ast.Subscript(value=ast.Name(lname, ast.Load()), slice=ast.Name(iname, ast.Load()), ctx=ast.Load())
                mapping = {p_: ast.Subscript(value=row(), slice=ast.Constant(k), ctx=ast.Load()) for k, p_ in enumerate(parts)}
                st.body = [ast.fix_missing_locations(_Renamer(mapping).visit(b_)) for b_ in st.body]
                st.iter = ast.copy_location(ast.Call(ast.Name("range", ast.Load()), [ast.Call(ast.Name("len", ast.Load()), [ast.Name(lname, ast.Load())], [])], []), it)
                st.target = ast.copy_location(ast.Name(iname, ast.Store()), tg)
                ast.fix_missing_locations(st)
                self.log.append(f"{f.qualname}:{st.lineno} <- enumerate with a destructuring target written as a counting loop")

    def _canonical_unpassed_defaults(self):
        """A parameter of a *private* package function that has a constant default and that no call site in the package passes (the
        function is never used as a value either) has its default as its value: `def _f(x, eps=0): ... eps ...` is `... 0 ...`.
        A parameter that the body rebinds gets `p = <default>` as the body's first statement instead."""
        sites = {}
        refs = {}
        for g in self.prog.functions.values():
            for n in ast.walk(g.node):
                if isinstance(n, ast.Call):
                    try:
                        c = self.res.callee(g, n)
                    except Exception:
                        continue
                    if c.func is not None:
                        sites.setdefault(c.func.qualname, []).append((c, n))
                if isinstance(n, (ast.Name, ast.Attribute)):
                    nm = n.id if isinstance(n, ast.Name) else n.attr
                    refs[nm] = refs.get(nm, 0) + 1
        for f in self.prog.functions.values():
            if not f.name.startswith("_") or f.name.startswith("__") or f.parent is not None or f.kind not in ("function", "method", "staticmethod"):
                continue
            a = f.node.args
            if a.vararg or a.kwarg or not a.defaults or f.node.decorator_list:
                continue
            calls = sites.get(f.qualname, [])
            if not calls or refs.get(f.name, 0) != len(calls):
                continue          # used as a value somewhere (passed to a pool, stored): its parameters may be bound by anybody
            pos = [x.arg for x in a.posonlyargs + a.args]
            with_default = dict(zip(pos[len(pos) - len(a.defaults):], a.defaults))
            skip_self = 1 if f.kind == "method" else 0
            for p_, d_ in with_default.items():
                if not (isinstance(d_, ast.Constant) or (isinstance(d_, ast.UnaryOp) and isinstance(d_.op, (ast.USub, ast.UAdd)) and isinstance(d_.operand, ast.Constant))):
                    continue
                k_ = pos.index(p_) - skip_self
                passed = False
                for c, n in calls:
                    if any(isinstance(x, ast.Starred) for x in n.args) or any(kw.arg is None or kw.arg == p_ for kw in n.keywords) or len(n.args) > k_:
                        passed = True
                if passed:
                    continue
                body_nodes = [x for st in f.node.body for x in ast.walk(st)]
                if any(isinstance(x, (ast.FunctionDef, ast.Lambda)) for x in body_nodes):
                    continue
                stored = any(isinstance(x, ast.Name) and x.id == p_ and not isinstance(x.ctx, ast.Load) for x in body_nodes)
                if stored:
                    init = ast.fix_missing_locations(ast.copy_location(ast.Assign([ast.Name(p_, ast.Store())], copy.deepcopy(d_)), f.node.body[0]))
                    k0 = 1 if (isinstance(f.node.body[0], ast.Expr) and isinstance(f.node.body[0].value, ast.Constant) and isinstance(f.node.body[0].value.value, str)) else 0
                    f.node.body.insert(k0, init)
                else:
                    f.node.body = [ast.fix_missing_locations(_Renamer({p_: copy.deepcopy(d_)}).visit(st)) for st in f.node.body]
                # the parameter itself goes: nobody binds it
                idx_ = [x.arg for x in a.args].index(p_) if p_ in [x.arg for x in a.args] else None
                if idx_ is not None:
                    nd = len(a.defaults)
                    di = idx_ - (len(a.args) - nd)
                    del a.args[idx_]
                    if 0 <= di < nd:
                        del a.defaults[di]
                self.log.append(f"{f.qualname} <- parameter `{p_}` that no caller passes has its default {ast.unparse(d_)}")

    def _canonical_branch_locals(self):
        """`if c: a = X; b = Y else: a = X2; b = Y2` followed by single uses of a and b (nothing else reads them) is those uses with
        `X if c else X2` and `Y if c else Y2` written in - c call-free and not affected by what lies between."""
        for f in self.prog.functions.values():
            for n in ast.walk(f.node):
                for fld in ("body", "orelse", "finalbody"):
                    lst = getattr(n, fld, None)
                    if not (isinstance(lst, list) and lst and isinstance(lst[0], ast.stmt)):
                        continue
                    i = 0
                    while i < len(lst):
                        st = lst[i]
                        i += 1
                        if not (isinstance(st, ast.If) and st.orelse and len(st.body) == len(st.orelse) >= 1):
                            continue
                        simple = lambda s_: isinstance(s_, ast.Assign) and len(s_.targets) == 1 and isinstance(s_.targets[0], ast.Name) \
                            and all(isinstance(x, PURE_NODES) and not isinstance(x, ast.Call) for x in ast.walk(s_.value))
                        if not all(simple(s_) for s_ in st.body + st.orelse):
                            continue
                        names = [s_.targets[0].id for s_ in st.body]
                        if names != [s_.targets[0].id for s_ in st.orelse] or len(set(names)) != len(names):
                            continue
                        if not all(isinstance(x, PURE_NODES) and not isinstance(x, ast.Call) for x in ast.walk(st.test)):
                            continue
                        reads_in_branches = {x.id for s_ in st.body + st.orelse for x in ast.walk(s_.value) if isinstance(x, ast.Name)}
                        if reads_in_branches & set(names):
                            continue
                        k = len(names)
                        following = lst[i:i + k]
                        occ = {nm: [x for x in ast.walk(f.node) if isinstance(x, ast.Name) and x.id == nm] for nm in names}
                        ok = len(following) == k
                        for nm in names:
                            loads = [x for x in occ[nm] if isinstance(x.ctx, ast.Load)]
                            stores = [x for x in occ[nm] if not isinstance(x.ctx, ast.Load)]
                            if len(stores) != 2 or len(loads) != 1 or not any(loads[0] is y for s_ in following for y in ast.walk(s_)):
                                ok = False
                        if not ok or not all(isinstance(s_, ast.Assign) and len(s_.targets) == 1 and isinstance(s_.targets[0], (ast.Subscript, ast.Attribute, ast.Name))
                                             for s_ in following):
                            continue
                        # the test must read the same values at every use: nothing it mentions is written by the statements in between
                        test_names = {x.id for x in ast.walk(st.test) if isinstance(x, ast.Name)}
                        written = set()
                        for s_ in following:
                            written.add(_root(s_.targets[0]) if not isinstance(s_.targets[0], ast.Name) else s_.targets[0].id)
                        if written & test_names or None in written:
                            continue
                        mapping = {nm: ast.IfExp(test=copy.deepcopy(st.test), body=b_.value, orelse=o_.value) for nm, b_, o_ in zip(names, st.body, st.orelse)}
                        for j in range(i, i + k):
                            lst[j] = ast.fix_missing_locations(_Renamer({nm: mapping[nm] for nm in names}).visit(lst[j]))
                        i -= 1
                        del lst[i]
                        self.log.append(f"{f.qualname}:{st.lineno} <- branch-assigned locals written into their single uses")

    def _canonical_generator_loops(self):
        """`for x in (y for y in XS if c): BODY` is `for y in XS: if c: BODY[x := y]` (one generator, the element is the bound name)."""
        for f in self.prog.functions.values():
            # a generator bound to a local by the statement just before the loop that consumes it (its only use) is that loop's iterable
            for n in ast.walk(f.node):
                for fld in ("body", "orelse", "finalbody"):
                    lst = getattr(n, fld, None)
                    if not (isinstance(lst, list) and lst and isinstance(lst[0], ast.stmt)):
                        continue
                    for i in range(len(lst) - 1):
                        a_, b_ = lst[i], lst[i + 1]
                        if isinstance(a_, ast.Assign) and len(a_.targets) == 1 and isinstance(a_.targets[0], ast.Name) and isinstance(a_.value, ast.GeneratorExp) \
                                and isinstance(b_, ast.For) and isinstance(b_.iter, ast.Name) and b_.iter.id == a_.targets[0].id \
                                and sum(1 for x in ast.walk(f.node) if isinstance(x, ast.Name) and x.id == a_.targets[0].id) == 2:
                            b_.iter = a_.value
                            lst[i] = ast.copy_location(ast.Pass(), a_)
            for st in [n for n in ast.walk(f.node) if isinstance(n, ast.For)]:
                it = st.iter
                if not (isinstance(it, ast.GeneratorExp) and len(it.generators) == 1 and not it.generators[0].is_async and isinstance(it.generators[0].target, ast.Name)
                        and isinstance(it.elt, ast.Name) and it.elt.id == it.generators[0].target.id and isinstance(st.target, ast.Name) and not st.orelse):
                    continue
                g = it.generators[0]
                inner, outer = g.target.id, st.target.id
                body_nodes = [x for b_ in st.body for x in ast.walk(b_)]
                if any(isinstance(x, (ast.Break, ast.FunctionDef, ast.Lambda)) for x in body_nodes):
                    continue
                if inner != outer:
                    if any(isinstance(x, ast.Name) and x.id == inner for x in body_nodes) or \
                            any(isinstance(x, ast.Name) and x.id == outer and not isinstance(x.ctx, ast.Load) for x in body_nodes):
                        continue
                    st.body = [ast.fix_missing_locations(_Renamer({outer: inner}).visit(b_)) for b_ in st.body]
                    if any(isinstance(x, ast.Name) and x.id == outer and isinstance(x.ctx, ast.Load) and not any(x is y for b_ in st.body for y in ast.walk(b_))
                           for x in ast.walk(f.node)):
                        continue
                if g.ifs:
                    test = g.ifs[0] if len(g.ifs) == 1 else ast.BoolOp(ast.And(), list(g.ifs))
                    st.body = [ast.fix_missing_locations(ast.copy_location(ast.If(test=test, body=st.body, orelse=[]), st))]
                st.iter = g.iter
                st.target = ast.copy_location(ast.Name(inner, ast.Store()), st.target)
                ast.fix_missing_locations(st)
                self.log.append(f"{f.qualname}:{st.lineno} <- loop over a filtering generator written as a guarded loop")

    def _canonical_descending_index(self):
        """`for v in range(N): i = A - v; BODY` (v used for nothing else, i not rebound, A loop-invariant) is
        `for i in range(A, A - N, -1): BODY`: the same values of i in the same order."""
        for f in self.prog.functions.values():
            for st in [n for n in ast.walk(f.node) if isinstance(n, ast.For)]:
                if not (isinstance(st.target, ast.Name) and isinstance(st.iter, ast.Call) and isinstance(st.iter.func, ast.Name) and st.iter.func.id == "range"
                        and len(st.iter.args) == 1 and not st.iter.keywords and not st.orelse and len(st.body) >= 2):
                    continue
                v = st.target.id
                first = st.body[0]
                if not (isinstance(first, ast.Assign) and len(first.targets) == 1 and isinstance(first.targets[0], ast.Name) and isinstance(first.value, ast.BinOp)
                        and isinstance(first.value.op, ast.Sub) and isinstance(first.value.right, ast.Name) and first.value.right.id == v):
                    continue
                i_ = first.targets[0].id
                A, N = first.value.left, st.iter.args[0]
                if not all(isinstance(x, PURE_NODES) and not isinstance(x, ast.Call) for e in (A, N) for x in ast.walk(e)):
                    continue
                inv = {x.id for e in (A, N) for x in ast.walk(e) if isinstance(x, ast.Name)}
                if v in inv or i_ in inv or i_ == v:
                    continue
                rest_nodes = [x for b_ in st.body[1:] for x in ast.walk(b_)]
                if any(isinstance(x, ast.Name) and x.id == v for x in rest_nodes) or \
                        any(isinstance(x, ast.Name) and x.id in inv | {i_} and not isinstance(x.ctx, ast.Load) for x in rest_nodes) or \
                        any(isinstance(x, (ast.FunctionDef, ast.Lambda)) for x in rest_nodes):
                    continue
                all_body = [x for b_ in st.body for x in ast.walk(b_)]
                if any(isinstance(x, ast.Name) and x.id == v and isinstance(x.ctx, ast.Load) and not any(x is y for y in all_body) for x in ast.walk(f.node)):
                    continue
                stop = ast.BinOp(left=copy.deepcopy(A), op=ast.Sub(), right=copy.deepcopy(N))
                st.iter = ast.copy_location(ast.Call(ast.Name("range", ast.Load()), [copy.deepcopy(A), stop, ast.UnaryOp(ast.USub(), ast.Constant(1))], []), st.iter)
                st.target = ast.copy_location(ast.Name(i_, ast.Store()), st.target)
                st.body = st.body[1:]
                ast.fix_missing_locations(st)
                self.log.append(f"{f.qualname}:{st.lineno} <- counting loop with a descending index written as a descending range")

    def _canonical_default_stores(self):
        """`X[i] = A; Y[i] = B; if c: X[i] = A2; Y[i] = B2` (the `if` has no else and re-stores exactly the targets just stored, its test
        call-free and not reading X or Y) is `if c: X[i] = A2; Y[i] = B2 else: X[i] = A; Y[i] = B`."""
        for f in self.prog.functions.values():
            for n in ast.walk(f.node):
                for fld in ("body", "orelse", "finalbody"):
                    lst = getattr(n, fld, None)
                    if not (isinstance(lst, list) and lst and isinstance(lst[0], ast.stmt)):
                        continue
                    i = 0
                    while i < len(lst):
                        st = lst[i]
                        i += 1
                        if not (isinstance(st, ast.If) and not st.orelse and st.body and all(
                                isinstance(b_, ast.Assign) and len(b_.targets) == 1 and isinstance(b_.targets[0], ast.Subscript) for b_ in st.body)):
                            continue
                        k = len(st.body)
                        j0 = i - 1 - k
                        if j0 < 0:
                            continue
                        prev = lst[j0:i - 1]
                        if not all(isinstance(p_, ast.Assign) and len(p_.targets) == 1 and isinstance(p_.targets[0], ast.Subscript) for p_ in prev):
                            continue
                        if sorted(ast.dump(p_.targets[0]) for p_ in prev) != sorted(ast.dump(b_.targets[0]) for b_ in st.body) or \
                                len({ast.dump(p_.targets[0]) for p_ in prev}) != k:
                            continue
                        roots = {_root(p_.targets[0]) for p_ in prev}
                        reads = {x.id for x in ast.walk(st.test) if isinstance(x, ast.Name)} | \
                            {x.id for b_ in st.body for x in ast.walk(b_.value) if isinstance(x, ast.Name)} | \
                            {x.id for p_ in prev for x in ast.walk(p_.value) if isinstance(x, ast.Name)}
                        if None in roots or roots & reads or not all(isinstance(x, PURE_NODES) and not isinstance(x, ast.Call) for x in ast.walk(st.test)):
                            continue
                        if any(isinstance(x, ast.Call) for p_ in prev for x in ast.walk(p_.value)):
                            continue
                        st.orelse = list(prev)
                        del lst[j0:i - 1]
                        i = j0 + 1
                        self.log.append(f"{f.qualname}:{st.lineno} <- default stores overwritten under a condition written as if/else")

    def _canonical_return_for_break(self):
        """A `return E` directly inside a top-level loop whose only successor statement is the function's final `return E` (E a plain
        name that the code in between cannot rebind - there is none) is a `break`."""
        for f in self.prog.functions.values():
            body = f.node.body
            if len(body) < 2 or not isinstance(body[-1], ast.Return) or not isinstance(body[-1].value, ast.Name) or not isinstance(body[-2], (ast.For, ast.While)):
                continue
            loop, final = body[-2], body[-1]
            if loop.orelse:
                continue

            def own_returns(stmts, depth=0):
                for s_ in stmts:
                    if isinstance(s_, ast.Return):
                        yield s_, stmts
                    elif isinstance(s_, (ast.For, ast.While, ast.FunctionDef, ast.ClassDef, ast.Try, ast.With)):
                        if any(isinstance(x, ast.Return) for x in ast.walk(s_)):
                            yield None, None          # a return somewhere a break would not reach the same place: give up
                    elif isinstance(s_, ast.If):
                        yield from own_returns(s_.body, depth + 1)
                        yield from own_returns(s_.orelse, depth + 1)
            found = list(own_returns(loop.body))
            if not found or any(r is None for r, _l in found):
                continue
            if not all(isinstance(r.value, ast.Name) and r.value.id == final.value.id for r, _l in found):
                continue
            for r, l_ in found:
                l_[l_.index(r)] = ast.copy_location(ast.Break(), r)
            self.log.append(f"{f.qualname}:{loop.lineno} <- `return {final.value.id}` inside the final loop written as break")

    def _canonical_dict_buckets(self):
        """A local `d = {}` / `dict()` that is only ever used as `d.setdefault(k, []).append(v)`, `d.get(k, [])` and `d[k]` is a
        `collections.defaultdict(list)` used as `d[k].append(v)` and `d[k]` (which keys exist is never observed)."""
        for f in self.prog.functions.values():
            for st in [n for n in ast.walk(f.node) if isinstance(n, ast.Assign)]:
                if not (len(st.targets) == 1 and isinstance(st.targets[0], ast.Name) and (
                        (isinstance(st.value, ast.Dict) and not st.value.keys) or
                        (isinstance(st.value, ast.Call) and isinstance(st.value.func, ast.Name) and st.value.func.id == "dict" and not st.value.args and not st.value.keywords))):
                    continue
                d = st.targets[0].id
                occ = [x for x in ast.walk(f.node) if isinstance(x, ast.Name) and x.id == d]
                if sum(1 for x in occ if not isinstance(x.ctx, ast.Load)) != 1:
                    continue
                parents = {}
                for p_ in ast.walk(f.node):
                    for c_ in ast.iter_child_nodes(p_):
                        parents[id(c_)] = p_
                sd, gets, subs, ok = [], [], [], True
                for x in occ:
                    if not isinstance(x.ctx, ast.Load):
                        continue
                    par = parents.get(id(x))
                    gp = parents.get(id(par)) if par is not None else None
                    if isinstance(par, ast.Attribute) and par.attr in ("setdefault", "get") and isinstance(gp, ast.Call) and gp.func is par and len(gp.args) == 2 \
                            and not gp.keywords and isinstance(gp.args[1], ast.List) and not gp.args[1].elts:
                        (sd if par.attr == "setdefault" else gets).append(gp)
                    elif isinstance(par, ast.Subscript) and par.value is x and isinstance(par.ctx, ast.Load):
                        subs.append(par)
                    else:
                        ok = False
                if not ok or not sd:
                    continue
                # every setdefault call must be the receiver of an .append(...)
                for c in sd:
                    par = parents.get(id(c))
                    gp = parents.get(id(par)) if par is not None else None
                    if not (isinstance(par, ast.Attribute) and par.attr == "append" and isinstance(gp, ast.Call) and gp.func is par):
                        ok = False
                if not ok:
                    continue

                class X(ast.NodeTransformer):
                    def visit_Call(self_, c):
                        c = self_.generic_visit(c)
                        if isinstance(c.func, ast.Attribute) and c.func.attr in ("setdefault", "get") and isinstance(c.func.value, ast.Name) and c.func.value.id == d \
                                and len(c.args) == 2 and isinstance(c.args[1], ast.List) and not c.args[1].elts:
                            return ast.copy_location(ast.Subscript(value=c.func.value, slice=c.args[0], ctx=ast.Load()), c)
                        return c
                X().visit(f.node)
                st.value = ast.copy_location(ast.Call(ast.Attribute(ast.Name("collections", ast.Load()), "defaultdict", ast.Load()), [ast.Name("list", ast.Load())], []), st.value)
                ast.fix_missing_locations(f.node)
                f.module.imports.setdefault("collections", "collections")
                self.log.append(f"{f.qualname}:{st.lineno} <- plain dict used as list buckets written as defaultdict(list)")

    def _canonical_continues(self):
        """Inside a loop body `if c: A; continue` followed by REST is `if c: A else: REST` (when the `if` has no else and its body ends
        with the `continue`): the same iterations run the same statements, written without a jump."""
        for f in self.prog.functions.values():
            for loop in [n for n in ast.walk(f.node) if isinstance(n, (ast.For, ast.While))]:
                changed = True
                while changed:
                    changed = False
                    stack = [loop.body]
                    while stack:
                        lst = stack.pop()
                        for i, st in enumerate(lst):
                            if isinstance(st, ast.If) and not st.orelse and st.body and isinstance(st.body[-1], ast.Continue) and i + 1 < len(lst) \
                                    and lst is loop.body:
                                rest = lst[i + 1:]
                                st.body = st.body[:-1] or [ast.copy_location(ast.Pass(), st)]
                                st.orelse = rest
                                del lst[i + 1:]
                                self.log.append(f"{f.qualname}:{st.lineno} <- `continue` written as an else branch")
                                changed = True
                                break
                        if changed:
                            break

    def _canonical_partials(self):
        """`p = functools.partial(f, *A, **K)` bound once to a local that is only called (`p(x)`) or mapped (`map(p, xs)`) is f with
        the frozen arguments written out: `f(*A, x, **K)` and `(f(*A, v, **K) for v in xs)`."""
        for f in self.prog.functions.values():
            for n in ast.walk(f.node):
                for fld in ("body", "orelse", "finalbody"):
                    lst = getattr(n, fld, None)
                    if not (isinstance(lst, list) and lst and isinstance(lst[0], ast.stmt)):
                        continue
                    for i, st in enumerate(list(lst)):
                        if not (isinstance(st, ast.Assign) and len(st.targets) == 1 and isinstance(st.targets[0], ast.Name) and isinstance(st.value, ast.Call)):
                            continue
                        c = st.value
                        fn_txt = ast.unparse(c.func)
                        if fn_txt not in ("functools.partial", "partial") or not c.args or any(isinstance(a, ast.Starred) for a in c.args) \
                                or any(k.arg is None for k in c.keywords):
                            continue
                        p = st.targets[0].id
                        occ = [x for x in ast.walk(f.node) if isinstance(x, ast.Name) and x.id == p]
                        stores = [x for x in occ if not isinstance(x.ctx, ast.Load)]
                        loads = [x for x in occ if isinstance(x.ctx, ast.Load)]
                        if len(stores) != 1 or not loads:
                            continue
                        calls = [x for x in ast.walk(f.node) if isinstance(x, ast.Call) and isinstance(x.func, ast.Name) and x.func.id == p]
                        maps = [x for x in ast.walk(f.node) if isinstance(x, ast.Call) and isinstance(x.func, ast.Name) and x.func.id == "map"
                                and len(x.args) == 2 and isinstance(x.args[0], ast.Name) and x.args[0].id == p and not x.keywords]
                        if len(calls) + len(maps) != len(loads):
                            continue
                        target, frozen, frozen_kw = c.args[0], list(c.args[1:]), list(c.keywords)
                        for x in calls:
                            x.func = copy.deepcopy(target)
                            x.args = [copy.deepcopy(a) for a in frozen] + x.args
                            x.keywords = x.keywords + [copy.deepcopy(k) for k in frozen_kw]
                            ast.fix_missing_locations(x)
                        for x in maps:
                            self.counter += 1
                            v = f"item__{self.counter}"
                            call = ast.Call(func=copy.deepcopy(target), args=[copy.deepcopy(a) for a in frozen] + [ast.Name(v, ast.Load())],
                                            keywords=[copy.deepcopy(k) for k in frozen_kw])
                            gen = ast.GeneratorExp(elt=call, generators=[ast.comprehension(target=ast.Name(v, ast.Store()), iter=x.args[1], ifs=[], is_async=0)])
                            ast.copy_location(gen, x)
                            ast.fix_missing_locations(gen)
                            _replace_expr(f.node, x, gen)
                        lst.remove(st)
                        if not lst:
                            lst.append(ast.copy_location(ast.Pass(), st))
                        self.log.append(f"{f.qualname}:{st.lineno} <- functools.partial `{p}` written out at its uses")

    def run(self):
        self._canonical_annotated_assignments()
        self._canonical_unpack_targets()
        self._canonical_asserts()
        self._canonical_partials()
        self._canonical_maps()
        self._canonical_local_lambdas()
        self._canonical_literal_loops()
        self._canonical_enumerate_start()
        self._canonical_enumerated_pairs()
        self._canonical_enumerated_slices()
        self._canonical_generator_loops()
        self._canonical_unpassed_defaults()
        self._canonical_branch_locals()
        self._canonical_running_totals()
        self._canonical_star_args()
        self._canonical_default_stores()
        self._canonical_conditional_stores()
        self._canonical_return_for_break()
        self._canonical_dict_buckets()
        self._canonical_continues()
        self._canonical_chained_assignments()
        self._canonical_counting_whiles()
        self._canonical_pool_calls()
        self._canonical_sorts()
        self._canonical_temps()
        self._canonical_defaults()
        self._canonical_descending_index()
        self._canonical_range_offsets()
        if not self.known:
            return self
        # stand-ins for renamed reference helpers are fixed first: they stay functions
        self.prog.match_renamed(self.res)
        ref = self.prog._reference_signatures()
        for q in ref:
            if q not in self.prog.functions:
                try:
                    self.prog.func(q)
                except Exception:
                    pass
        self.generators: Dict[str, FuncInfo] = {}
        for q, f in list(self.prog.functions.items()):
            if self._is_helper(f):
                self.helpers[q] = f
            elif f.kind == "nested" and f.parent is not None and f.parent.qualname not in self.known_nested_hosts() \
                    and self._is_helper(f, allow_nested=True):
                # a closure: a call from its own host function can be expanded in place (its free variables are the
                # host's variables, read at call time either way)
                self.helpers[q] = f
            elif self._is_generator_helper(f):
                self.generators[q] = f
        for q, f in self.helpers.items():
            # a helper written with guarded returns (`if c: return A` ... `return B`) is the conditional expression `A if c else B`
            body = effective_body(f.node.body)
            if len(body) >= 2 and isinstance(body[-1], ast.Return) and body[-1].value is not None and \
                    all(isinstance(b_, ast.If) and not b_.orelse and len(effective_body(b_.body)) == 1 and isinstance(effective_body(b_.body)[0], ast.Return)
                        and effective_body(b_.body)[0].value is not None for b_ in body[:-1]):
                expr = body[-1].value
                for b_ in reversed(body[:-1]):
                    expr = ast.IfExp(test=b_.test, body=effective_body(b_.body)[0].value, orelse=expr)
                ret = ast.fix_missing_locations(ast.copy_location(ast.Return(value=expr), body[0]))
                f.node.body = [x for x in f.node.body if x not in body] + [ret]
                self.log.append(f"{q} <- guarded returns written as one conditional expression")
        if self.helpers or self.generators:
            for q, f in list(self.prog.functions.items()):
                self._normalize_function(f)
        for q, f in list(self.prog.functions.items()):
            if f.parent is None:
                try:
                    self._expand_splats(f)
                except CannotInline:
                    pass
        touched = {l.split(" <- ")[0].split(":")[0] for l in self.log}
        for q in touched:
            f = self.prog.functions.get(q)
            if f is not None:
                self._coalesce_copies(f)
                self._drop_noops(f)
        return self

    def _drop_noops(self, f: FuncInfo):
        """`x = x` and stray `pass` statements left behind by the expansion."""
        for n in ast.walk(f.node):
            for fld in ("body", "orelse", "finalbody"):
                lst = getattr(n, fld, None)
                if isinstance(lst, list) and lst and isinstance(lst[0], ast.stmt):
                    keep = [st for st in lst if not (
                        (isinstance(st, ast.Assign) and len(st.targets) == 1 and isinstance(st.targets[0], ast.Name)
                         and isinstance(st.value, ast.Name) and st.value.id == st.targets[0].id)
                        or (isinstance(st, ast.Pass) and len(lst) > 1))]
                    if not keep:
                        keep = [ast.copy_location(ast.Pass(), lst[0])]
                    if len(keep) != len(lst):
                        lst[:] = keep

    # ------------------------------------------------------------------ t__h = e; ...; a = t__h   ==>   a = e; ...
    def _coalesce_copies(self, f: FuncInfo):
        """A temporary introduced by an expansion that is defined once, then copied into a host variable that nothing touches
        in between, *is* that variable.  Removes the copy so that def-use chains look as they did before the extraction."""
        import re
        tmp_re = re.compile(r".*__(h|c|r|d)\d+$")

        def blocks(node):
            for n in ast.walk(node):
                if isinstance(n, (ast.FunctionDef, ast.AsyncFunctionDef)) and n is not node:
                    continue
                for fld in ("body", "orelse", "finalbody"):
                    lst = getattr(n, fld, None)
                    if isinstance(lst, list) and lst and isinstance(lst[0], ast.stmt):
                        yield lst

        def names_in(node, nm):
            return [n for n in ast.walk(node) if isinstance(n, ast.Name) and n.id == nm]

        changed = True
        rounds = 0
        while changed and rounds < 50:
            changed = False
            rounds += 1
            for lst in list(blocks(f.node)):
                for c, st in enumerate(lst):
                    if not (isinstance(st, ast.Assign) and len(st.targets) == 1 and isinstance(st.targets[0], ast.Name)
                            and isinstance(st.value, ast.Name) and tmp_re.match(st.value.id)):
                        continue
                    a, t = st.targets[0].id, st.value.id
                    if a == t:
                        continue
                    ds = [d for d in range(c) if isinstance(lst[d], (ast.Assign, ast.AnnAssign)) and
                          isinstance(lst[d].targets[0] if isinstance(lst[d], ast.Assign) and len(lst[d].targets) == 1 else getattr(lst[d], "target", None), ast.Name)
                          and (lst[d].targets[0] if isinstance(lst[d], ast.Assign) else lst[d].target).id == t and lst[d].value is not None]
                    if not ds:
                        continue
                    d = ds[-1]
                    all_t = names_in(f.node, t)
                    inside = [n for k in range(d, c + 1) for n in names_in(lst[k], t)]
                    if len(all_t) != len(inside):
                        continue        # the temporary lives on elsewhere
                    stores_t = [n for n in inside if not isinstance(n.ctx, ast.Load)]
                    if len(stores_t) != 1:
                        continue
                    if any(names_in(lst[k], a) for k in range(d + 1, c)):
                        continue        # the host variable is read or written in between
                    tgt_d = lst[d].targets[0] if isinstance(lst[d], ast.Assign) else lst[d].target
                    if _read_on_exceptional_exit(f.node, a):
                        continue
                    for k in range(d, c):
                        for n in names_in(lst[k], t):
                            n.id = a
                    del lst[c]
                    changed = True
                    break
                if changed:
                    break

    # ------------------------------------------------------------------ f(**{'a': x})  /  d = {'a': x}; d['b'] = y; f(**d)
    def _expand_splats(self, f: FuncInfo, _depth=0):
        if _depth > 10:
            return

        def const_strings(e):
            if isinstance(e, (ast.Tuple, ast.List)) and e.elts and all(isinstance(x, ast.Constant) and isinstance(x.value, str) for x in e.elts):
                return [x.value for x in e.elts]
            if isinstance(e, ast.Name):
                stores = [n for n in ast.walk(f.node) if isinstance(n, (ast.Assign, ast.AnnAssign)) and
                          any(isinstance(t, ast.Name) and t.id == e.id for t in (n.targets if isinstance(n, ast.Assign) else [n.target]))]
                others = [n for n in ast.walk(f.node) if isinstance(n, ast.Name) and n.id == e.id and not isinstance(n.ctx, ast.Load)]
                if len(stores) == 1 and len(others) == 1 and stores[0].value is not None:
                    return const_strings(stores[0].value)
                g = f.module.globals.get(e.id)
                if not stores and not others and g is not None and f.module.global_assign_count.get(e.id, 1) == 1 and getattr(g, "value", None) is not None:
                    return const_strings(g.value)
            return None

        class _Subst(ast.NodeTransformer):
            def __init__(self_, nm, val):
                self_.nm, self_.val = nm, val

            def visit_Name(self_, n):
                if n.id == self_.nm and isinstance(n.ctx, ast.Load):
                    return ast.copy_location(ast.Constant(self_.val), n)
                return n

            def visit_Call(self_, n):
                n = self_.generic_visit(n)
                if isinstance(n.func, ast.Name) and n.func.id == "getattr" and len(n.args) == 2 and not n.keywords \
                        and isinstance(n.args[1], ast.Constant) and isinstance(n.args[1].value, str):
                    return ast.copy_location(ast.Attribute(n.args[0], n.args[1].value, ast.Load()), n)
                return n

        def const_dict(e):
            if isinstance(e, ast.DictComp) and len(e.generators) == 1 and not e.generators[0].ifs and isinstance(e.generators[0].target, ast.Name) \
                    and isinstance(e.key, ast.Name) and e.key.id == e.generators[0].target.id:
                # {name: getattr(obj, name) for name in ("a", "b")}: unrolled over the constant names
                names = const_strings(e.generators[0].iter)
                if names:
                    return [(nm, ast.fix_missing_locations(_Subst(e.key.id, nm).visit(copy.deepcopy(e.value)))) for nm in names]
                return None
            if isinstance(e, ast.Dict) and all(isinstance(k, ast.Constant) and isinstance(k.value, str) for k in e.keys):
                return [(k.value, v) for k, v in zip(e.keys, e.values)]
            if isinstance(e, ast.Call) and isinstance(e.func, ast.Name) and e.func.id == "dict" and not e.args \
                    and all(k.arg for k in e.keywords):
                return [(k.arg, k.value) for k in e.keywords]
            return None

        def blocks(node):
            for n in ast.walk(node):
                for fld in ("body", "orelse", "finalbody"):
                    lst = getattr(n, fld, None)
                    if isinstance(lst, list) and lst and isinstance(lst[0], ast.stmt):
                        yield lst

        def occurrences(nm):
            loads = [n for n in ast.walk(f.node) if isinstance(n, ast.Name) and n.id == nm and isinstance(n.ctx, ast.Load)]
            stores = [n for n in ast.walk(f.node) if isinstance(n, ast.Name) and n.id == nm and not isinstance(n.ctx, ast.Load)]
            return loads, stores

        for lst in list(blocks(f.node)):
            for i, st in enumerate(lst):
                if isinstance(st, (ast.FunctionDef, ast.ClassDef, ast.For, ast.While, ast.If, ast.Try, ast.With)):
                    continue
                for call in [n for n in ast.walk(st) if isinstance(n, ast.Call)]:
                    for kw in list(call.keywords):
                        if kw.arg is not None:
                            continue
                        items = const_dict(kw.value)
                        if items is not None and items:
                            present = {k.arg for k in call.keywords if k.arg}
                            if present & {k for k, _ in items}:
                                continue
                            idx = call.keywords.index(kw)
                            call.keywords[idx:idx + 1] = [ast.copy_location(ast.keyword(k, v), call) for k, v in items]
                            ast.fix_missing_locations(call)
                            self.log.append(f"{f.qualname}: **{{...}} at line {call.lineno} expanded into keywords")
                            continue
                        if not isinstance(kw.value, ast.Name):
                            continue
                        # follow plain copies back to the variable that holds the dictionary
                        nm = kw.value.id
                        use = kw.value
                        drop = []
                        ok = True
                        for _ in range(4):
                            loads, stores = occurrences(nm)
                            if len(stores) != 1:
                                ok = False
                                break
                            src = [j for j, s2 in enumerate(lst[:i]) if isinstance(s2, ast.Assign) and len(s2.targets) == 1 and s2.targets[0] is stores[0]]
                            if len(src) != 1 and not drop:
                                # the dictionary may be built once in an enclosing block (before a loop whose body makes the call):
                                # continue in that block, at the statement that contains the call
                                outer = None
                                for blk in blocks(f.node):
                                    for j2, s2 in enumerate(blk):
                                        if isinstance(s2, ast.Assign) and len(s2.targets) == 1 and s2.targets[0] is stores[0]:
                                            holder = [k2 for k2, s3 in enumerate(blk) if k2 > j2 and any(n_ is call for n_ in ast.walk(s3))]
                                            if len(holder) == 1:
                                                outer = (blk, j2, holder[0])
                                if outer is not None:
                                    lst, i = outer[0], outer[2]
                                    src = [outer[1]]
                            if len(src) != 1:
                                ok = False
                                break
                            j = src[0]
                            if isinstance(lst[j].value, ast.Name) and len(loads) == 1 and loads[0] is use:
                                drop.append(lst[j])
                                use = lst[j].value
                                nm = use.id
                                continue
                            break
                        if not ok:
                            continue
                        d_items = const_dict(lst[j].value)
                        if d_items is None:
                            continue
                        # every other read of the variable must be the base of `nm['key'] = value` in this block, before the call
                        updates = []
                        fine = True
                        for ld in loads:
                            if ld is use:
                                continue
                            hit = [k for k, s2 in enumerate(lst[:i]) if k > j and isinstance(s2, ast.Assign) and len(s2.targets) == 1
                                   and isinstance(s2.targets[0], ast.Subscript) and s2.targets[0].value is ld
                                   and isinstance(s2.targets[0].slice, ast.Constant) and isinstance(s2.targets[0].slice.value, str)]
                            if len(hit) != 1:
                                fine = False
                                break
                            updates.append(hit[0])
                        if not fine:
                            continue
                        self.counter += 1
                        tag = f"d{self.counter}"
                        keys = []
                        repl = {}
                        temps = []
                        for k, v in d_items:
                            temps.append(ast.fix_missing_locations(ast.copy_location(ast.Assign([ast.Name(f"{k}__{tag}", ast.Store())], v), lst[j])))
                            if k not in keys:
                                keys.append(k)
                        repl[id(lst[j])] = temps
                        for u in updates:
                            k = lst[u].targets[0].slice.value
                            repl[id(lst[u])] = [ast.fix_missing_locations(ast.copy_location(ast.Assign([ast.Name(f"{k}__{tag}", ast.Store())], lst[u].value), lst[u]))]
                            if k not in keys:
                                keys.append(k)
                        for dstmt in drop:
                            repl[id(dstmt)] = []
                        present = {k.arg for k in call.keywords if k.arg}
                        if present & set(keys):
                            continue
                        idx = call.keywords.index(kw)
                        call.keywords[idx:idx + 1] = [ast.copy_location(ast.keyword(k, ast.Name(f"{k}__{tag}", ast.Load())), call) for k in keys]
                        ast.fix_missing_locations(call)
                        newlst = []
                        for s2 in lst:
                            newlst.extend(repl.get(id(s2), [s2]))
                        lst[:] = newlst
                        self.log.append(f"{f.qualname}: **{nm} at line {call.lineno} expanded into keywords")
                        return self._expand_splats(f, _depth + 1)     # indices moved: start over

    def _normalize_function(self, f: FuncInfo):
        if f.qualname in self._done:
            return
        if f.qualname in self._active:
            return   # recursion: leave the inner call alone
        self._active.append(f.qualname)
        try:
            self._rewrite_block_owner(f, f.node)
        finally:
            self._active.pop()
        self._done.add(f.qualname)

    # ------------------------------------------------------------------ statement lists
    def _rewrite_block_owner(self, f: FuncInfo, node):
        for fld in ("body", "orelse", "finalbody"):
            lst = getattr(node, fld, None)
            if isinstance(lst, list) and lst and isinstance(lst[0], ast.stmt):
                setattr(node, fld, self._rewrite_list(f, lst))
        for h in getattr(node, "handlers", []) or []:
            h.body = self._rewrite_list(f, h.body)
        for c in getattr(node, "cases", []) or []:
            c.body = self._rewrite_list(f, c.body)

    def _rewrite_list(self, f: FuncInfo, stmts: List[ast.stmt], depth=0) -> List[ast.stmt]:
        out: List[ast.stmt] = []
        for s in stmts:
            if isinstance(s, (ast.FunctionDef, ast.AsyncFunctionDef, ast.ClassDef)):
                out.append(s)   # nested definitions are functions of their own
                continue
            new = self._rewrite_stmt(f, s, depth)
            out.extend(new)
        return out

    def _rewrite_stmt(self, f: FuncInfo, s: ast.stmt, depth) -> List[ast.stmt]:
        if depth > self.MAX_DEPTH:
            return [s]
        pre: List[ast.stmt] = []
        try:
            s, pre = self._decomprehend(f, s)
            if pre is None:
                pre = []
            else:
                # `pre` already is the full replacement (a loop); rewrite it recursively
                return self._rewrite_list(f, pre, depth + 1)
        except CannotInline:
            pre = []
        if isinstance(s, ast.For):
            rep = self._expand_generator_loop(f, s)
            if rep is not None:
                return pre + self._rewrite_list(f, rep, depth + 1)
        guard = 0
        while guard < 12:
            guard += 1
            site = self._first_helper_call(f, s)
            if site is None:
                break
            call, callee, position = site
            try:
                if position == "whole":
                    repl = self._expand_statement(f, s, call, callee)
                    repl = self._rewrite_list(f, repl, depth + 1)
                    return pre + repl
                # hoist into a temporary, then continue with the simplified statement
                self.counter += 1
                tmp = f"{callee.name.strip('_')}__r{self.counter}"
                asg = ast.copy_location(ast.Assign([ast.Name(tmp, ast.Store())], call, lineno=call.lineno), s)
                ast.fix_missing_locations(asg)
                _replace_expr(s, call, ast.copy_location(ast.Name(tmp, ast.Load()), call))
                repl = self._expand_statement(f, asg, call, callee)
                pre += self._rewrite_list(f, repl, depth + 1)
            except CannotInline as e:
                self.skipped.append(f"{f.qualname}: call to {callee.qualname} at line {getattr(call, 'lineno', 0)} kept ({e})")
                _mark_kept(call)
        # compound statements: recurse into their blocks
        self._rewrite_block_owner(f, s)
        return pre + [s]

    # ------------------------------------------------------------------ finding the call
    def _callee_of(self, f: FuncInfo, call: ast.Call) -> Optional[FuncInfo]:
        if getattr(call, "_sa_kept", False):
            return None
        try:
            c = self.res.callee(f, call)
        except Exception:
            return None
        g = c.func
        if c.kind == "method_unknown" and isinstance(call.func, ast.Attribute):
            # receiver of unknown type: a method name that only one (new) helper method in the package carries
            cands = [h for h in self.helpers.values() if h.kind == "method" and h.name == call.func.attr]
            others = [x for x in self.prog.functions.values() if x.name == call.func.attr and x.qualname not in self.helpers]
            if len(cands) == 1 and not others and call.func.attr.startswith("_"):
                g = cands[0]
                call._sa_method = g
                return g if g.qualname not in self._active and g.qualname != f.qualname else None
            return None
        if g is None or c.kind not in ("internal", "method_internal"):
            return None
        if g.qualname not in self.helpers or g.qualname in self._active or g.qualname == f.qualname:
            return None
        if g.parent is not None and g.parent is not f:
            return None
        return g

    def _first_helper_call(self, f: FuncInfo, s: ast.stmt):
        """First helper call of the statement's *own* expressions, in evaluation order, provided everything evaluated
        before it is side-effect free.  Returns (call, callee, 'whole' | 'inner')."""
        exprs = _own_expressions(s)
        for top in exprs:
            order = list(_eval_order(top))
            for i, n in enumerate(order):
                if isinstance(n, ast.Call):
                    g = self._callee_of(f, n)
                    if g is None:
                        # an opaque call evaluated first: later helper calls cannot be hoisted over it
                        if any(isinstance(m, ast.Call) and self._callee_of(f, m) is not None for m in order[i + 1:]):
                            # allow it when the earlier call is nested *inside* a later helper call's arguments
                            pass
                        continue
                    # everything evaluated before n, outside n's own subtree, must be pure
                    sub = set(map(id, ast.walk(n)))
                    before = [m for m in order[:i] if id(m) not in sub]
                    if any(not isinstance(m, PURE_NODES) for m in before):
                        raise_free = False
                        self.skipped.append(f"{f.qualname}: helper call {g.qualname} at line {n.lineno} follows an impure sub-expression; kept")
                        _mark_kept(n)
                        continue
                    if _conditionally_evaluated(top, n):
                        _mark_kept(n)
                        continue
                    whole = _is_whole(s, n)
                    return n, g, "whole" if whole else "inner"
            # only the first expression list entry that contains calls matters for ordering, but keep scanning: the
            # expressions of one simple statement are evaluated left to right and the purity test above covers them
        return None

    # ------------------------------------------------------------------ expansion
    def _expand_statement(self, f: FuncInfo, s: ast.stmt, call: ast.Call, g: FuncInfo) -> List[ast.stmt]:
        """`s` is Expr(call) | Assign(t, call) | AnnAssign(t, ann, call) | AugAssign(t, op, call) | Return(call)."""
        self._normalize_function(g)      # the helper's own helper calls first
        self.counter += 1
        tag = f"h{self.counter}"
        body = copy.deepcopy(g.node.body)
        if body and isinstance(body[0], ast.Expr) and isinstance(body[0].value, ast.Constant) and isinstance(body[0].value.value, str):
            body = body[1:]
        if not body:
            body = [ast.Pass()]
        # ---- bind arguments
        params = g.node.args.posonlyargs + g.node.args.args
        kwonly = g.node.args.kwonlyargs
        bound: Dict[str, ast.expr] = {}
        pos = list(call.args)
        if any(isinstance(a, ast.Starred) for a in pos) or any(k.arg is None for k in call.keywords):
            raise CannotInline("star arguments")
        recv = None
        c = self.res.callee(f, call)
        pnames = [p.arg for p in params]
        if (c.kind == "method_internal" or getattr(call, "_sa_method", None) is g) and g.kind == "method":
            recv = c.receiver if c.receiver is not None else call.func.value
            bound[pnames[0]] = recv
            pnames_rest = pnames[1:]
        else:
            pnames_rest = pnames
        if len(pos) > len(pnames_rest):
            raise CannotInline("too many positional arguments")
        for p, a in zip(pnames_rest, pos):
            bound[p] = a
        for k in call.keywords:
            if k.arg in bound or k.arg not in pnames + [x.arg for x in kwonly]:
                raise CannotInline(f"keyword {k.arg} does not bind")
            bound[k.arg] = k.value
        order = [p for p in pnames + [x.arg for x in kwonly]]
        defaults_in_callee_scope: Set[str] = set()
        for p in order:
            if p not in bound:
                d = g.default_of(p)
                if d is None:
                    raise CannotInline(f"parameter {p} unbound")
                if not all(isinstance(x, (ast.Constant, ast.Name, ast.Attribute, ast.UnaryOp, ast.unaryop, ast.Load, ast.Tuple, ast.BinOp, ast.operator)) for x in ast.walk(d)):
                    # a list / dict / set / call default is evaluated ONCE, when the function is defined, and shared by every call that
                    # omits the argument: writing it out at the call site would give each call a fresh object and hide that sharing
                    raise CannotInline(f"default of {p} is an object shared between calls")
                bound[p] = copy.deepcopy(d)
                defaults_in_callee_scope.add(p)
        # ---- names
        local_names = _assigned_names(g.node)
        reassigned = _assigned_names_body(g.node)
        mapping: Dict[str, object] = {}
        prologue: List[ast.stmt] = []
        evaluated_in_order = [a for a in ([recv] if recv is not None else []) + pos + [k.value for k in call.keywords]]
        free_map = self._free_name_map(f, g)
        # state threading `x = helper(x, ...)`: the helper's (reassigned) parameter may simply *be* x - the call rebinds x
        # anyway, and nothing can observe x in between (no other argument mentions it, no handler of the host reads it)
        threaded = None
        tname = None
        if isinstance(s, ast.Assign) and len(s.targets) == 1 and isinstance(s.targets[0], ast.Name):
            tname = s.targets[0].id
        elif isinstance(s, ast.AnnAssign) and isinstance(s.target, ast.Name):
            tname = s.target.id
        if tname is not None:
            users = [p for p in order if any(isinstance(n, ast.Name) and n.id == tname for n in ast.walk(bound[p]))]
            if len(users) == 1 and isinstance(bound[users[0]], ast.Name) and users[0] not in defaults_in_callee_scope \
                    and not _read_on_exceptional_exit(f.node, tname):
                threaded = users[0]
        host_locals = _assigned_names(f.node)

        def module_constant(e):
            # dotted name rooted at an imported module (np.linalg.LinAlgError, data_preparation.stack_training_data)
            while isinstance(e, ast.Attribute):
                e = e.value
            return isinstance(e, ast.Name) and e.id in f.module.imports and e.id not in host_locals

        for p in order:
            a = bound[p]
            simple = isinstance(a, (ast.Constant, ast.Name)) or (isinstance(a, ast.Attribute) and module_constant(a))
            if not simple and isinstance(a, ast.Attribute) and _root(a) is not None and all(isinstance(x, (ast.Attribute, ast.Name, ast.Load)) for x in ast.walk(a)):
                # a one-expression helper that reads the parameter once: the attribute path is read once either way
                eb = effective_body(g.node.body)
                if len(eb) == 1 and isinstance(eb[0], ast.Return) and eb[0].value is not None and \
                        sum(1 for x in ast.walk(eb[0].value) if isinstance(x, ast.Name) and x.id == p) == 1 and \
                        not any(isinstance(x, (ast.Lambda, ast.ListComp, ast.GeneratorExp, ast.SetComp, ast.DictComp)) for x in ast.walk(eb[0].value)):
                    simple = True
            if p == threaded:
                mapping[p] = a.id
                continue
            if p in defaults_in_callee_scope and free_map:
                a = _Renamer(dict(free_map)).visit(copy.deepcopy(a))
            if simple and p not in reassigned and not _captured_by_nested(g.node, p):
                mapping[p] = a
            else:
                nm = f"{p}__{tag}"
                mapping[p] = nm
                ann = g.param_annotation(p)
                tgt = ast.Name(nm, ast.Store())
                if ann is not None:
                    ann2 = copy.deepcopy(ann)
                    if free_map:
                        ann2 = _Renamer(dict(free_map)).visit(ann2)
                    st = ast.AnnAssign(tgt, ann2, copy.deepcopy(a), 1)
                else:
                    st = ast.Assign([tgt], copy.deepcopy(a))
                prologue.append(ast.copy_location(st, call))
        for nm in local_names:
            if nm not in mapping:
                mapping[nm] = f"{nm}__{tag}"
        for k, v in free_map.items():
            mapping.setdefault(k, v)
        # a substituted Name argument must not be captured by a renamed local of the same name
        ren = _Renamer(mapping)
        body = [ren.visit(b) for b in body]
        # ---- returns
        if isinstance(s, ast.Expr):
            target = None
        elif isinstance(s, ast.Return):
            target = ast.Name(f"ret__{tag}", ast.Store())
        elif isinstance(s, ast.Assign):
            if len(s.targets) != 1:
                raise CannotInline("chained assignment")
            target = s.targets[0]
        elif isinstance(s, ast.AnnAssign):
            target = s.target
        elif isinstance(s, ast.AugAssign):
            target = ast.Name(f"ret__{tag}", ast.Store())
        else:
            raise CannotInline("statement form")
        if not always_exits(body):
            body = body + [ast.Return(None)]
        simple_target = target is None or isinstance(target, ast.Name) or \
            (isinstance(target, (ast.Tuple, ast.List)) and all(isinstance(e, ast.Name) for e in target.elts))
        ret_name = None
        if not simple_target:
            # subscript / attribute / tuple target: evaluate into a temporary first (the target is stored exactly once)
            ret_name = f"ret__{tag}"
        body2 = _TailReturns(target if simple_target else ast.Name(ret_name, ast.Store()), s).block(body)
        out = prologue + body2
        if isinstance(s, ast.Return):
            out.append(ast.copy_location(ast.Return(ast.Name(f"ret__{tag}", ast.Load())), s))
        elif isinstance(s, ast.AugAssign):
            out.append(ast.copy_location(ast.AugAssign(s.target, s.op, ast.Name(f"ret__{tag}", ast.Load())), s))
        elif not simple_target:
            if isinstance(s, ast.AnnAssign):
                out.append(ast.copy_location(ast.AnnAssign(s.target, s.annotation, ast.Name(ret_name, ast.Load()), s.simple), s))
            else:
                out.append(ast.copy_location(ast.Assign([s.targets[0]], ast.Name(ret_name, ast.Load())), s))
        elif isinstance(s, ast.AnnAssign) and out:
            pass
        for st in out:
            ast.fix_missing_locations(st)
            for n in ast.walk(st):
                if not hasattr(n, "_sa_from"):
                    try:
                        n._sa_from = g.qualname
                    except Exception:
                        pass
        # nested function definitions of the copy become functions of the host
        for st in out:
            for n in ast.walk(st):
                if isinstance(n, ast.FunctionDef):
                    q = f"{f.qualname}.<locals>.{n.name}"
                    if q not in self.prog.functions:
                        self.prog.functions[q] = FuncInfo(q, n.name, f.module, n, f.cls, f, list(n.decorator_list), "nested")
        self.log.append(f"{f.qualname} <- {g.qualname} (line {getattr(call, 'lineno', 0)})")
        self.res._envs.pop(f.qualname, None)
        self.res._calls.pop(f.qualname, None)
        if isinstance(s, ast.AnnAssign) and simple_target:
            out.insert(0, ast.fix_missing_locations(ast.copy_location(ast.AnnAssign(copy.deepcopy(s.target), s.annotation, None, 1), s)))
        return out

    def _free_name_map(self, f: FuncInfo, g: FuncInfo) -> Dict[str, str]:
        """Module-level names the helper uses, when it lives in another module: aliased into the host module."""
        if g.module is f.module:
            return {}
        gm, fm = g.module, f.module
        locals_ = _assigned_names(g.node)
        out: Dict[str, str] = {}
        mtag = gm.name.rsplit(".", 1)[-1]
        for n in ast.walk(g.node):
            if isinstance(n, ast.Name) and n.id not in locals_ and n.id not in out:
                nm = n.id
                target = None
                if nm in gm.imports:
                    target = gm.imports[nm]
                elif nm in gm.functions or nm in gm.classes or nm in gm.globals:
                    target = f"{gm.name}.{nm}"
                if target is None:
                    continue
                # same binding already visible under the same name in the host module?
                if fm.imports.get(nm) == target:
                    continue
                if nm not in fm.imports and nm not in fm.functions and nm not in fm.classes and nm not in fm.globals \
                        and nm not in _assigned_names(f.node):
                    fm.imports[nm] = target      # the host module does not use the name: bind it there as it is
                    continue
                alias = f"m_{mtag}__{nm}"
                fm.imports[alias] = target
                out[nm] = alias
        return out

    # ------------------------------------------------------------------ comprehensions over helpers
    def _decomprehend(self, f: FuncInfo, s: ast.stmt):
        """`t = [elt for v in it if c]` with a helper call inside elt / c   ==>   t = []; for v in it: if c: t.append(elt).
        Returns (s, None) when not applicable, or (None, replacement statements)."""
        if not isinstance(s, (ast.Assign, ast.AnnAssign, ast.Return, ast.Expr)):
            return s, None
        value = s.value
        if value is None:
            return s, None
        comp = None
        if isinstance(value, ast.ListComp):
            comp = value
        else:
            # a list comprehension nested in the statement: hoist it first if nothing impure precedes it
            for top in _own_expressions(s):
                order = list(_eval_order(top))
                for i, n in enumerate(order):
                    if isinstance(n, ast.ListComp) and self._has_helper_call(f, n):
                        sub = set(map(id, ast.walk(n)))
                        before = [m for m in order[:i] if id(m) not in sub]
                        if all(isinstance(m, PURE_NODES) for m in before) and not _conditionally_evaluated(top, n):
                            self.counter += 1
                            tmp = f"comp__c{self.counter}"
                            asg = ast.copy_location(ast.Assign([ast.Name(tmp, ast.Store())], n), s)
                            _replace_expr(s, n, ast.copy_location(ast.Name(tmp, ast.Load()), n))
                            ast.fix_missing_locations(asg)
                            first, repl = self._decomprehend(f, asg)
                            if repl is None:
                                raise CannotInline("hoisted comprehension not expandable")
                            return None, repl + [s]
                        break
            return s, None
        if len(comp.generators) != 1 or comp.generators[0].is_async:
            return s, None
        if not self._has_helper_call(f, comp):
            return s, None
        gen = comp.generators[0]
        self.counter += 1
        tag = f"c{self.counter}"
        # loop variables are scoped to the comprehension: rename them
        names = [n.id for n in ast.walk(gen.target) if isinstance(n, ast.Name)]
        mapping = {nm: f"{nm}__{tag}" for nm in names}
        ren = _Renamer(mapping)
        target = ren.visit(copy.deepcopy(gen.target))
        elt = ren.visit(copy.deepcopy(comp.elt))
        conds = [ren.visit(copy.deepcopy(c)) for c in gen.ifs]
        if isinstance(s, ast.Assign) and len(s.targets) == 1 and isinstance(s.targets[0], ast.Name):
            lst = s.targets[0].id
            post = []
        elif isinstance(s, ast.AnnAssign) and isinstance(s.target, ast.Name):
            lst = s.target.id
            post = []
        elif isinstance(s, ast.Return):
            lst = f"comp__{tag}"
            post = [ast.Return(ast.Name(lst, ast.Load()))]
        else:
            return s, None
        # the list variable must not be read by the comprehension itself
        if any(isinstance(n, ast.Name) and n.id == lst for n in ast.walk(comp)):
            return s, None
        init = ast.Assign([ast.Name(lst, ast.Store())], ast.List([], ast.Load()))
        app = ast.Expr(ast.Call(ast.Attribute(ast.Name(lst, ast.Load()), "append", ast.Load()), [elt], []))
        inner: List[ast.stmt] = [app]
        for c in reversed(conds):
            inner = [ast.If(c, inner, [])]
        loop = ast.For(target, copy.deepcopy(gen.iter), inner, [], None)
        out = [init, loop] + post
        for st in out:
            ast.copy_location(st, s)
            ast.fix_missing_locations(st)
        self.log.append(f"{f.qualname}: comprehension at line {s.lineno} expanded into a loop")
        return None, out

    def _has_helper_call(self, f: FuncInfo, node) -> bool:
        return any(isinstance(n, ast.Call) and self._callee_of(f, n) is not None for n in ast.walk(node))


# ---------------------------------------------------------------------- return elimination
class _TailReturns:
    """Rewrite `return v` into an assignment to the call's target.  Only returns in tail position (or directly inside
    one loop level, using for/else) are supported; anything else raises CannotInline."""

    def __init__(self, target: Optional[ast.expr], at: ast.stmt):
        self.target = target
        self.at = at

    def _assign(self, value, ret: ast.Return) -> List[ast.stmt]:
        value = value if value is not None else ast.Constant(None)
        if self.target is None:
            if isinstance(value, (ast.Constant, ast.Name)):
                return [ast.copy_location(ast.Pass(), ret)]
            return [ast.copy_location(ast.Expr(value), ret)]
        t = self.target
        if isinstance(t, (ast.Tuple, ast.List)) and isinstance(value, ast.Tuple) and len(t.elts) == len(value.elts) \
                and all(isinstance(e, ast.Name) for e in t.elts) and not any(isinstance(e, ast.Starred) for e in value.elts):
            # (a, b) = (x, y)  ==>  a = x; b = y   when no later value reads an earlier target
            names = [e.id for e in t.elts]
            safe = True
            for i, v in enumerate(value.elts):
                if any(isinstance(n, ast.Name) and n.id in names[:i] for n in ast.walk(v)):
                    safe = False
            if safe:
                return [ast.copy_location(ast.Assign([copy.deepcopy(te)], v), ret) for te, v in zip(t.elts, value.elts)]
        return [ast.copy_location(ast.Assign([copy.deepcopy(self.target)], value), ret)]

    def block(self, stmts: List[ast.stmt]) -> List[ast.stmt]:
        """stmts is in tail position and always exits."""
        out: List[ast.stmt] = []
        for i, s in enumerate(stmts):
            rest = stmts[i + 1:]
            if isinstance(s, ast.Return):
                out += self._assign(s.value, s)
                return out
            if isinstance(s, ast.Raise):
                out.append(s)
                return out
            if not _contains([s], ast.Return):
                out.append(s)
                continue
            if isinstance(s, ast.If):
                b_exit, e_exit = always_exits(s.body), always_exits(s.orelse)
                b_has, e_has = _contains(s.body, ast.Return), _contains(s.orelse, ast.Return)
                if b_exit and e_exit:
                    s.body = self.block(s.body)
                    s.orelse = self.block(s.orelse)
                    out.append(s)
                    return out
                if b_exit and not e_has:
                    s.body = self.block(s.body)
                    s.orelse = self.block(list(s.orelse) + rest)
                    out.append(s)
                    return out
                if e_exit and not b_has:
                    s.orelse = self.block(s.orelse)
                    s.body = self.block(list(s.body) + rest)
                    out.append(s)
                    return out
                # a return on some path of an arm that can also fall through: both arms continue with (a copy of) the rest
                if len(rest) <= 4 and not _contains(rest, (ast.For, ast.While, ast.FunctionDef)):
                    s.body = self.block(list(s.body) + copy.deepcopy(rest))
                    s.orelse = self.block(list(s.orelse) + rest)
                    out.append(s)
                    return out
                raise CannotInline("return on a path that can also fall through")
            if isinstance(s, (ast.For, ast.While)):
                if s.orelse or _contains(s.body, ast.Break, into_loops=False):
                    raise CannotInline("return inside a loop that already uses break / else")
                for inner in s.body:
                    for n in _walk_own_stmt(inner, into_loops=False):
                        if isinstance(n, (ast.For, ast.While)) and _contains([n], ast.Return):
                            raise CannotInline("return inside nested loops")
                        if isinstance(n, ast.Try) and _contains([n], ast.Return):
                            raise CannotInline("return inside try inside a loop")
                s.body = self._loop_body(s.body)
                s.orelse = self.block(rest) if rest else [ast.Pass()]
                out.append(s)
                return out
            if isinstance(s, ast.With):
                if not always_exits(s.body):
                    raise CannotInline("return inside a with block that can fall through")
                s.body = self.block(s.body)
                out.append(s)
                return out
            if isinstance(s, ast.Try):
                if rest:
                    raise CannotInline("return inside try with code after it")
                if s.orelse and _contains(s.body, ast.Return):
                    raise CannotInline("return in a try body that has an else clause")
                if _contains(s.finalbody, ast.Return):
                    raise CannotInline("return in finally")
                if not (always_exits(s.body if not s.orelse else s.orelse) and all(always_exits(h.body) for h in s.handlers)):
                    raise CannotInline("try that can fall through")
                if s.orelse:
                    s.orelse = self.block(s.orelse)
                else:
                    s.body = self.block(s.body)
                for h in s.handlers:
                    h.body = self.block(h.body)
                out.append(s)
                return out
            raise CannotInline(f"return inside {type(s).__name__}")
        raise CannotInline("block does not always exit")

    def _loop_body(self, stmts: List[ast.stmt]) -> List[ast.stmt]:
        out = []
        for s in stmts:
            if isinstance(s, ast.Return):
                out += self._assign(s.value, s)
                out.append(ast.copy_location(ast.Break(), s))
                return out
            if isinstance(s, ast.If):
                s.body = self._loop_body(s.body)
                s.orelse = self._loop_body(s.orelse)
            elif isinstance(s, ast.With):
                s.body = self._loop_body(s.body)
            out.append(s)
        return out


def always_exits_assigned(stmts) -> bool:
    return True


# ---------------------------------------------------------------------- small AST utilities
def _mark_kept(call):
    try:
        call._sa_kept = True
    except Exception:
        pass


def _own_expressions(s: ast.stmt) -> List[ast.expr]:
    """Expressions evaluated by the statement itself (not by statements nested in it), in evaluation order."""
    if isinstance(s, ast.Expr):
        return [s.value]
    if isinstance(s, ast.Assign):
        return [s.value]          # targets are evaluated after the value; they are checked by _is_whole only
    if isinstance(s, ast.AnnAssign):
        return [s.value] if s.value is not None else []
    if isinstance(s, ast.AugAssign):
        return [s.value] if isinstance(s.target, ast.Name) else []
    if isinstance(s, ast.Return):
        return [s.value] if s.value is not None else []
    if isinstance(s, ast.If):
        return [s.test]
    if isinstance(s, ast.For):
        return [s.iter]
    if isinstance(s, ast.Assert):
        return []
    if isinstance(s, ast.With):
        return []
    if isinstance(s, ast.Raise):
        return []
    return []


def _eval_order(e: ast.expr):
    """Sub-expressions in (approximate) evaluation order: operands before the operation, left to right."""
    if isinstance(e, ast.Call):
        yield from _eval_order(e.func)
        for a in e.args:
            yield from _eval_order(a)
        for k in e.keywords:
            yield from _eval_order(k.value)
        yield e
    elif isinstance(e, (ast.Lambda, ast.ListComp, ast.SetComp, ast.DictComp, ast.GeneratorExp)):
        if not isinstance(e, ast.Lambda):
            yield from _eval_order(e.generators[0].iter)
        yield e
    elif isinstance(e, ast.Starred):
        yield from _eval_order(e.value)
    else:
        for ch in ast.iter_child_nodes(e):
            if isinstance(ch, ast.expr):
                yield from _eval_order(ch)
        yield e


def _conditionally_evaluated(top: ast.expr, n: ast.expr) -> bool:
    """n sits in a position that is not always evaluated (IfExp arm, later operand of and/or, comprehension body, lambda)."""
    path = _path_to(top, n)
    if path is None:
        return True
    for parent, child in zip(path, path[1:]):
        if isinstance(parent, ast.IfExp) and child is not parent.test:
            return True
        if isinstance(parent, ast.BoolOp) and child is not parent.values[0]:
            return True
        if isinstance(parent, ast.Lambda):
            return True
        if isinstance(parent, (ast.ListComp, ast.SetComp, ast.DictComp, ast.GeneratorExp)):
            if not any(child is g.iter for g in parent.generators[:1]):
                return True
            # child may be inside a generator object: handled through comprehension node
        if isinstance(parent, ast.comprehension):
            return True
        if isinstance(parent, ast.Compare) and len(parent.ops) > 1 and child is not parent.left and child is not parent.comparators[0]:
            return True
    return False


def _path_to(top, n):
    if top is n:
        return [top]
    for ch in ast.iter_child_nodes(top):
        p = _path_to(ch, n)
        if p is not None:
            return [top] + p
    return None


def _is_whole(s: ast.stmt, call: ast.Call) -> bool:
    if isinstance(s, ast.Expr) and s.value is call:
        return True
    if isinstance(s, ast.Return) and s.value is call:
        return True
    if isinstance(s, ast.Assign) and s.value is call and len(s.targets) == 1:
        t = s.targets[0]
        # the target's own sub-expressions are evaluated after the call: they must be pure
        return all(isinstance(n, PURE_NODES) for n in ast.walk(t))
    if isinstance(s, ast.AnnAssign) and s.value is call:
        return all(isinstance(n, PURE_NODES) for n in ast.walk(s.target))
    if isinstance(s, ast.AugAssign) and s.value is call and isinstance(s.target, ast.Name):
        return True
    return False


def _replace_expr(root: ast.AST, old: ast.expr, new: ast.expr):
    for parent in ast.walk(root):
        for fld, val in ast.iter_fields(parent):
            if val is old:
                setattr(parent, fld, new)
                return
            if isinstance(val, list):
                for i, x in enumerate(val):
                    if x is old:
                        val[i] = new
                        return
    raise CannotInline("expression to replace not found")


def _assigned_names(fn: ast.FunctionDef) -> Set[str]:
    """Every local name of the function: parameters, assignment / loop / with / except / import targets, nested defs,
    comprehension variables."""
    out: Set[str] = set()
    a = fn.args
    for x in a.posonlyargs + a.args + a.kwonlyargs:
        out.add(x.arg)
    for st in fn.body:
        for n in _walk_own_stmt(st):
            if isinstance(n, ast.Name) and isinstance(n.ctx, (ast.Store, ast.Del)):
                out.add(n.id)
            elif isinstance(n, ast.ExceptHandler) and n.name:
                out.add(n.name)
            elif isinstance(n, (ast.Import, ast.ImportFrom)):
                for al in n.names:
                    out.add((al.asname or al.name).split(".")[0])
        for n in ast.walk(st):
            if isinstance(n, (ast.FunctionDef, ast.ClassDef)):
                out.add(n.name)
    return out


def _assigned_names_body(fn: ast.FunctionDef) -> Set[str]:
    """Names (re)bound inside the body - a parameter in this set needs a temporary."""
    out: Set[str] = set()
    for st in fn.body:
        for n in ast.walk(st):
            if isinstance(n, ast.Name) and isinstance(n.ctx, (ast.Store, ast.Del)):
                out.add(n.id)
            elif isinstance(n, ast.arg):
                out.add(n.arg)          # shadowed by a nested function / lambda parameter: play safe
            elif isinstance(n, ast.ExceptHandler) and n.name:
                out.add(n.name)
    return out


def _read_on_exceptional_exit(fn: ast.FunctionDef, name: str) -> bool:
    """Some except handler / finally block of the function mentions the variable."""
    for n in ast.walk(fn):
        if isinstance(n, ast.Try):
            for blk in [h.body for h in n.handlers] + [n.finalbody]:
                for st in blk:
                    for m in ast.walk(st):
                        if isinstance(m, ast.Name) and m.id == name:
                            return True
    return False


def _captured_by_nested(fn: ast.FunctionDef, name: str) -> bool:
    return False


def normalize(prog: Program, res, known: Set[str]) -> Normalizer:
    return Normalizer(prog, res, known).run()


if __name__ == "__main__":
    import sys
    from .build import Analysis
    ana = Analysis(sys.argv[1], check_floor=False)
    for l in ana.norm.log:
        print("INLINED", l)
    for l in ana.norm.skipped:
        print("KEPT   ", l)
    for q in sys.argv[2:]:
        print(ast.unparse(ana.func(q).node))
