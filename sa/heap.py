"""L5: allocation-site ownership analysis (points-to with inlined callees).

Abstract objects
  ext(p)[path]    caller-owned: a parameter of the analysed entry point and everything reachable through it
                  (children are materialised lazily when a field / element is read)
  alloc(site,ctx) created by the package at an allocation site, under a call string of bounded length
  memo(f)         the cached result object of a functools.cache function
  glob(m.x)       a module-level mutable

Local variables are flow-sensitive (looked up through reaching definitions); the heap is flow-insensitive with
weak updates, so the analysis over-approximates "may write".  Nothing is executed.
"""
from __future__ import annotations

import ast
from dataclasses import dataclass, field
from typing import Dict, FrozenSet, List, Optional, Set, Tuple

from .build import ALL_MUTATOR_METHODS, Analysis
from .loader import AnalysisError, ClassInfo, FuncInfo
from .resolve import Resolver

ELEM = "[*]"

# ---- library table (frozen; printed in evidence through LIBTABLE_DIGEST) ------------------------------------
FRESH_FUNCS = {
    "numpy.zeros", "numpy.ones", "numpy.empty", "numpy.full", "numpy.copy", "numpy.array", "numpy.vstack", "numpy.hstack",
    "numpy.concatenate", "numpy.cov", "numpy.mean", "numpy.median", "numpy.sum", "numpy.diag", "numpy.linalg.inv",
    "numpy.linalg.eigh", "numpy.linalg.norm", "numpy.linalg.slogdet", "numpy.linalg.det", "numpy.linalg.cholesky", "numpy.sqrt",
    "numpy.square", "numpy.abs", "numpy.log", "numpy.exp", "numpy.argmin", "numpy.argmax", "numpy.trace", "numpy.dot",
    "numpy.matmul", "numpy.triu_indices", "numpy.zeros_like", "numpy.ones_like", "numpy.where", "numpy.minimum", "numpy.maximum",
    "numpy.ndim", "numpy.isscalar", "numpy.prod", "numpy.min", "numpy.max", "numpy.cumsum", "numpy.arange", "numpy.float64",
    "builtins.sorted", "builtins.range", "builtins.len", "builtins.int", "builtins.float", "builtins.bool", "builtins.str",
    "builtins.sum", "builtins.min", "builtins.max", "builtins.abs", "builtins.round", "builtins.isinstance", "builtins.type",
    "builtins.print", "builtins.repr", "builtins.set", "builtins.dict", "builtins.tuple", "builtins.frozenset", "builtins.any",
    "builtins.all", "math.sqrt", "math.log", "random.sample", "random.random", "itertools.accumulate", "collections.defaultdict",
    "os.environ.get", "logging.getLogger", "copy.deepcopy", "sklearn.mixture.GaussianMixture", "multiprocessing.Pool",
}
NUMERIC_ARRAY_CTORS = {"numpy.zeros", "numpy.ones", "numpy.empty", "numpy.full", "numpy.zeros_like", "numpy.ones_like", "numpy.empty_like",
                       "numpy.full_like", "numpy.eye", "numpy.identity", "numpy.arange", "numpy.linspace"}
# container copies: fresh container, shared elements
SHALLOW_COPY_FUNCS = {"builtins.list", "copy.copy", "builtins.reversed", "builtins.enumerate", "builtins.zip", "itertools.chain",
                      "itertools.chain.from_iterable", "builtins.iter"}
# may return (a view of) their first argument
VIEW_FUNCS = {"numpy.asarray", "numpy.transpose", "numpy.reshape", "numpy.ravel", "numpy.squeeze", "numpy.atleast_1d", "numpy.atleast_2d",
              "numpy.asanyarray", "numpy.ascontiguousarray", "numpy.swapaxes", "numpy.diagonal", "numpy.real", "numpy.broadcast_to",
              "numpy.ma.getdata", "numpy.ma.getmaskarray", "numpy.ma.getmask", "numpy.asfortranarray", "numpy.lib.stride_tricks.as_strided",
              "numpy.lib.stride_tricks.sliding_window_view", "numpy.moveaxis", "numpy.expand_dims", "numpy.flip"}
VIEW_METHODS = {"reshape", "ravel", "transpose", "squeeze", "view", "diagonal", "swapaxes", "astype_nocopy"}
VIEW_ATTRS = {"T", "real", "imag", "flat", "data", "mask", "base"}
IMMUTABLE_ATTRS = {"shape", "size", "ndim", "dtype", "itemsize", "nbytes"}
FRESH_METHODS = {"copy", "astype", "tolist", "sum", "mean", "min", "max", "flatten", "dot", "get", "result", "predict", "fit_predict",
                 "keys", "values", "items", "format", "join", "split", "all", "any", "argmin", "argmax", "item", "conj"}
INPLACE_FUNCS = {"numpy.copyto": [0], "numpy.put": [0], "numpy.place": [0], "numpy.putmask": [0], "numpy.fill_diagonal": [0],
                 "random.shuffle": [0], "numpy.random.shuffle": [0], "numpy.add.at": [0], "numpy.subtract.at": [0]}
ELEMENT_RETURNING_METHODS = {"pop", "popitem", "setdefault", "__getitem__"}


@dataclass(frozen=True)
class Obj:
    kind: str          # ext | alloc | memo | glob
    key: Tuple
    label: str = field(compare=False, default="")

    def __repr__(self):
        return self.label or f"{self.kind}{self.key}"

    @property
    def root(self) -> Optional[str]:
        return self.key[0] if self.kind == "ext" else None

    @property
    def is_ext(self):
        return self.kind == "ext"


@dataclass
class Mutation:
    func: FuncInfo
    node: ast.AST
    targets: FrozenSet[Obj]
    kind: str            # subscript | attribute:<name> | augassign | method:<name> | inplace:<fn> | out=
    ctx: Tuple
    attr: Optional[str] = None

    @property
    def line(self):
        return getattr(self.node, "lineno", 0)


class Heap:
    def __init__(self):
        self.pts: Dict[Tuple[Obj, str], Set[Obj]] = {}
        self.changed = False

    def get(self, o: Obj, f: str) -> Set[Obj]:
        return self.pts.get((o, f), set())

    def add(self, o: Obj, f: str, vals: Set[Obj]):
        if not vals:
            return
        s = self.pts.setdefault((o, f), set())
        n = len(s)
        s |= vals
        if len(s) != n:
            self.changed = True


class OwnershipAnalysis:
    """Analyse one entry point.  Parameters become ext objects."""

    def __init__(self, ana: Analysis, entry: FuncInfo, k: int = 3, max_rounds: int = 8):
        self.ana = ana
        self.entry = entry
        self.k = k
        self.heap = Heap()
        self.mutations: List[Mutation] = []
        self._mut_seen: Set[Tuple] = set()
        self.memo: Dict[Tuple, Set[Obj]] = {}
        self.in_progress: Set[Tuple] = set()
        self.returns: Set[Obj] = set()
        self.ext_params: Dict[str, Obj] = {}
        self.max_rounds = max_rounds
        self.stats = {"activations": 0, "objects": set(), "rounds": 0}
        self.unknown_calls: Set[str] = set()
        self.numeric_arrays: Set[Obj] = set()
        self.stored_into_memo: List[Tuple[FuncInfo, ast.AST, Set[Obj]]] = []
        self.act_stack: List["_Activation"] = []
        # object -> activations (by uid) in which the object is known to be a single concrete object
        self.unique_in: Dict[Obj, Set[Tuple]] = {}
        self.strong_updates = 0
        self._alloc_this_round: Set[Obj] = set()

    # ------------------------------------------------------------------ objects
    def ext(self, root: str, path: Tuple[str, ...] = ()) -> Obj:
        o = Obj("ext", (root,) + path, f"ext({root}{''.join('.' + p if p != ELEM else ELEM for p in path)})")
        self.stats["objects"].add(o)
        return o

    def alloc(self, node: ast.AST, ctx: Tuple, what: str) -> Obj:
        o = Obj("alloc", (id(node), ctx), f"new:{what}@L{getattr(node, 'lineno', 0)}")
        self.stats["objects"].add(o)
        # uniqueness: the object is one concrete object for every activation on the stack that is not (transitively)
        # executing a loop / comprehension at the moment of the allocation
        uniq = set()
        for act in reversed(self.act_stack):
            if act.loop_depth > 0:
                break
            uniq.add(act.uid)
        if o in self._alloc_this_round:
            self.unique_in[o] = self.unique_in.get(o, set()) & uniq
        else:
            self.unique_in[o] = uniq
            self._alloc_this_round.add(o)
        return o

    def field_of(self, o: Obj, f: str) -> Set[Obj]:
        vals = set(self.heap.get(o, f))
        if o.is_ext:
            if len(o.key) < 6:
                vals.add(self.ext(o.key[0], o.key[1:] + (f,)))
            else:
                vals.add(o)   # depth bound: collapse
        return vals

    # ------------------------------------------------------------------ driver
    def run(self):
        fi = self.entry
        args = {}
        for p in fi.params:
            if p in ("self", "cls"):
                continue
            o = self.ext(p)
            self.ext_params[p] = o
            args[p] = {o}
        if fi.cls is not None and fi.kind in ("method", "property", "setter") and fi.params:
            o = self.ext(fi.params[0])
            self.ext_params[fi.params[0]] = o
            args[fi.params[0]] = {o}
        for r in range(self.max_rounds):
            self.stats["rounds"] = r + 1
            self.heap.changed = False
            self.memo.clear()
            self._alloc_this_round = set()
            before = len(self.mutations)
            self.returns = self.call_function(fi, args, ())
            fp = hash(frozenset((k, frozenset(v)) for k, v in self.heap.pts.items()))
            if len(self.mutations) == before and fp == getattr(self, "_fp", None):
                break
            self._fp = fp
        return self

    # ------------------------------------------------------------------ calls
    def call_function(self, fi: FuncInfo, args: Dict[str, Set[Obj]], ctx: Tuple) -> Set[Obj]:
        key = (fi.qualname, ctx, tuple(sorted((k, frozenset(v)) for k, v in args.items())))
        if key in self.memo:
            return self.memo[key]
        if key in self.in_progress:
            return set()
        self.in_progress.add(key)
        self.stats["activations"] += 1
        act = _Activation(self, fi, args, ctx)
        act.uid = key
        self.act_stack.append(act)
        try:
            ret = act.run()
        finally:
            self.act_stack.pop()
        self.in_progress.discard(key)
        if any("functools.cache" in ast.unparse(d) or "lru_cache" in ast.unparse(d) for d in fi.decorators):
            # the cached result object is shared by all callers
            m = Obj("memo", (fi.qualname,), f"memo({fi.qualname.split('.')[-1]})")
            self.stats["objects"].add(m)
            for o in ret:
                for (oo, f), vs in list(self.heap.pts.items()):
                    if oo == o:
                        self.heap.add(m, f, vs)
            caller_owned = {a for vs in args.values() for a in vs if a.is_ext}
            reach = self.reachable(ret)
            if reach & caller_owned:
                self.stored_into_memo.append((fi, fi.node, reach & caller_owned))
            ret = {m} if ret else set()
        self.memo[key] = ret
        return ret

    def reachable(self, objs: Set[Obj]) -> Set[Obj]:
        seen = set()
        st = list(objs)
        while st:
            o = st.pop()
            if o in seen:
                continue
            seen.add(o)
            for (oo, f), vs in self.heap.pts.items():
                if oo == o:
                    st.extend(vs)
        return seen

    def record(self, fi, node, targets: Set[Obj], kind: str, ctx, attr=None):
        if not targets:
            return
        key = (fi.qualname, id(node), kind, frozenset(targets))
        if key in self._mut_seen:
            return
        self._mut_seen.add(key)
        self.mutations.append(Mutation(fi, node, frozenset(targets), kind, ctx, attr))


class _Activation:
    def __init__(self, oa: OwnershipAnalysis, fi: FuncInfo, args: Dict[str, Set[Obj]], ctx: Tuple):
        self.oa = oa
        self.ana = oa.ana
        self.fi = fi
        self.args = args
        self.ctx = ctx
        self.cfg = oa.ana.cfg(fi)
        self.rd = oa.ana.rd(fi)
        self.vars: Dict[Tuple[str, int], Set[Obj]] = {}
        self.ret: Set[Obj] = set()
        self.bound: List[Dict[str, Set[Obj]]] = []
        self.changed = False
        self.uid: Tuple = ()
        self.loop_depth = 0

    # -------------------------------------------------------------- driver
    def run(self) -> Set[Obj]:
        for _ in range(4):
            self.changed = False
            for st in self.fi.node.body:
                self.stmt(st)
            if not self.changed:
                break
        return self.ret

    def setvar(self, name: str, node_id: int, vals: Set[Obj]):
        s = self.vars.setdefault((name, node_id), set())
        n = len(s)
        s |= vals
        if len(s) != n:
            self.changed = True

    # -------------------------------------------------------------- statements
    def stmt(self, st):
        if isinstance(st, ast.Expr):
            self.eval(st.value)
        elif isinstance(st, ast.Assign):
            vals = self.eval(st.value)
            node = self.cfg.stmt_node.get(id(st))
            for t in st.targets:
                self.assign(t, vals, st.value, node, st)
        elif isinstance(st, ast.AnnAssign):
            if st.value is not None:
                self.assign(st.target, self.eval(st.value), st.value, self.cfg.stmt_node.get(id(st)), st)
        elif isinstance(st, ast.AugAssign):
            vals = self.eval(st.value)
            node = self.cfg.stmt_node.get(id(st))
            t = st.target
            if isinstance(t, ast.Name):
                old = self.lookup(t.id, node)
                if old:
                    self.oa.record(self.fi, st, old, "augassign", self.ctx)
                fresh = self.oa.alloc(st, self.ctx, "augresult")
                self.setvar(t.id, node.id, old | {fresh})
            elif isinstance(t, ast.Subscript):
                base = self.eval(t.value)
                self.oa.record(self.fi, st, base, "subscript", self.ctx)
                for o in base:
                    if o not in self.oa.numeric_arrays:
                        self.oa.heap.add(o, ELEM, vals)
            elif isinstance(t, ast.Attribute):
                base = self.eval(t.value)
                self.oa.record(self.fi, st, base, "attribute:" + t.attr, self.ctx, t.attr)
                cur = set()
                for o in base:
                    cur |= self.oa.field_of(o, t.attr)
                self.oa.record(self.fi, st, cur, "augassign", self.ctx)
        elif isinstance(st, ast.For):
            it = self.eval(st.iter)
            node = self.cfg.stmt_node.get(id(st))
            self.loop_depth += 1
            try:
                self.bind_loop_target(st.target, st.iter, it, node)
                for s in st.body:
                    self.stmt(s)
            finally:
                self.loop_depth -= 1
            for s in st.orelse:
                self.stmt(s)
        elif isinstance(st, ast.While):
            self.loop_depth += 1
            try:
                self.eval(st.test)
                for s in st.body:
                    self.stmt(s)
            finally:
                self.loop_depth -= 1
            for s in st.orelse:
                self.stmt(s)
        elif isinstance(st, ast.If):
            self.eval(st.test)
            # the statements of a branch may not run: a field store under a condition adds a referent, it does not replace the old one
            self.cond_depth = getattr(self, "cond_depth", 0) + 1
            try:
                for s in st.body + st.orelse:
                    self.stmt(s)
            finally:
                self.cond_depth -= 1
        elif isinstance(st, ast.Try):
            for s in st.body:
                self.stmt(s)
            for h in st.handlers:
                for s in h.body:
                    self.stmt(s)
            for s in st.orelse + st.finalbody:
                self.stmt(s)
        elif isinstance(st, ast.With):
            node = self.cfg.stmt_node.get(id(st))
            for it in st.items:
                v = self.eval(it.context_expr)
                if it.optional_vars is not None and isinstance(it.optional_vars, ast.Name):
                    self.setvar(it.optional_vars.id, node.id, v)
            for s in st.body:
                self.stmt(s)
        elif isinstance(st, ast.Return):
            if st.value is not None:
                v = self.eval(st.value)
                n = len(self.ret)
                self.ret |= v
                if len(self.ret) != n:
                    self.changed = True
        elif isinstance(st, (ast.Assert,)):
            self.eval(st.test)
        elif isinstance(st, ast.Raise):
            if st.exc is not None:
                self.eval(st.exc)
        elif isinstance(st, ast.Delete):
            for t in st.targets:
                if isinstance(t, ast.Subscript):
                    self.oa.record(self.fi, st, self.eval(t.value), "subscript", self.ctx)

    def bind_loop_target(self, target, iter_expr, it_objs: Set[Obj], node):
        elems = self.elems(it_objs)
        fq = None
        if isinstance(iter_expr, ast.Call):
            r = self.ana.res.fq_of_expr(self.fi, iter_expr.func)
            fq = r[1] if r else None
        if fq == "builtins.enumerate" and isinstance(target, (ast.Tuple, ast.List)) and len(target.elts) == 2 and iter_expr.args:
            inner = self.elems(self.eval(iter_expr.args[0]))
            self._bind(target.elts[1], inner, node)
            return
        if fq == "builtins.zip" and isinstance(target, (ast.Tuple, ast.List)) and len(target.elts) == len(iter_expr.args):
            for el, a in zip(target.elts, iter_expr.args):
                self._bind(el, self.elems(self.eval(a)), node)
            return
        if isinstance(target, (ast.Tuple, ast.List)):
            inner = self.elems(elems)
            for el in target.elts:
                self._bind(el, inner | elems, node)
            return
        self._bind(target, elems, node)

    def _bind(self, target, vals, node):
        if isinstance(target, ast.Name):
            if node is not None:
                self.setvar(target.id, node.id, vals)
        elif isinstance(target, (ast.Tuple, ast.List)):
            for el in target.elts:
                self._bind(el, self.elems(vals) | vals, node)

    def assign(self, target, vals: Set[Obj], value_expr, node, st):
        if isinstance(target, ast.Name):
            if node is not None:
                self.setvar(target.id, node.id, vals)
        elif isinstance(target, (ast.Tuple, ast.List)):
            if isinstance(value_expr, (ast.Tuple, ast.List)) and len(value_expr.elts) == len(target.elts):
                for t, v in zip(target.elts, value_expr.elts):
                    self.assign(t, self.eval(v), v, node, st)
            else:
                el = self.elems(vals)
                for t in target.elts:
                    self.assign(t, el | {o for o in vals if o.kind == "ext"}, None, node, st)
        elif isinstance(target, ast.Attribute):
            base = self.eval(target.value)
            # property setter?
            ty = self.ana.res.type_of(self.fi, target.value)
            if ty[0] == "cls":
                ci = self.ana.prog.classes.get(ty[1])
                if ci and target.attr in ci.setters:
                    setter = ci.setters[target.attr]
                    ps = setter.params
                    self.oa.call_function(setter, {ps[0]: base, ps[1]: vals}, self.newctx(st))
                    return
            self.oa.record(self.fi, st, base, "attribute:" + target.attr, self.ctx, target.attr)
            if len(base) == 1 and self.loop_depth == 0 and getattr(self, "cond_depth", 0) == 0:
                o = next(iter(base))
                if o.kind == "alloc" and self.uid in self.oa.unique_in.get(o, ()):
                    # strong update: o is a single concrete object here, the old referent is gone
                    self.oa.heap.pts[(o, target.attr)] = set()
                    self.oa.strong_updates += 1
            for o in base:
                self.oa.heap.add(o, target.attr, vals)
        elif isinstance(target, ast.Subscript):
            base = self.eval(target.value)
            self.eval(target.slice)
            self.oa.record(self.fi, st, base, "subscript", self.ctx)
            for o in base:
                if o not in self.oa.numeric_arrays:
                    self.oa.heap.add(o, ELEM, vals)

    def newctx(self, node) -> Tuple:
        c = self.ctx + (id(node),)
        return c[-self.oa.k:] if self.oa.k else ()

    # -------------------------------------------------------------- expressions
    def lookup(self, name: str, node) -> Set[Obj]:
        for scope in reversed(self.bound):
            if name in scope:
                return scope[name]
        if node is None:
            return set()
        out = set()
        defs = self.rd.reaching(node, name)
        if not defs:
            # free variable of a nested function, module-level name
            if self.fi.parent is not None:
                return set()
            r = self.ana.res.fq_of_expr(self.fi, ast.Name(id=name, ctx=ast.Load()))
            if r and r[0] == "global":
                mod, nm = r[1].rsplit(".", 1)
                st = self.ana.prog.modules[mod].globals.get(nm)
                if isinstance(st, ast.Assign) and isinstance(st.value, (ast.List, ast.Dict, ast.Set, ast.ListComp, ast.DictComp, ast.Call)):
                    if not (isinstance(st.value, ast.Call) and "getLogger" in ast.unparse(st.value.func)):
                        g = Obj("glob", (r[1],), f"global({r[1]})")
                        self.oa.stats["objects"].add(g)
                        return {g}
            return set()
        for d in defs:
            if d.kind == "entry":
                out |= self.args.get(name, set())
            else:
                out |= self.vars.get((name, d.id), set())
        return out

    def elems(self, objs: Set[Obj]) -> Set[Obj]:
        out = set()
        for o in objs:
            out |= self.oa.field_of(o, ELEM)
        return out

    def eval(self, e) -> Set[Obj]:
        if e is None:
            return set()
        m = getattr(self, "e_" + type(e).__name__, None)
        if m is None:
            out = set()
            for ch in ast.iter_child_nodes(e):
                if isinstance(ch, ast.expr):
                    out |= self.eval(ch)
            return set()
        return m(e)

    def at(self, e):
        return self.cfg.expr_node.get(id(e))

    def e_Constant(self, e):
        return set()

    def e_JoinedStr(self, e):
        for v in e.values:
            if isinstance(v, ast.FormattedValue):
                self.eval(v.value)
        return set()

    def e_Name(self, e):
        return self.lookup(e.id, self.at(e))

    def e_Attribute(self, e):
        # module attribute?
        r = self.ana.res.fq_of_expr(self.fi, e)
        if r is not None:
            return set()
        base = self.eval(e.value)
        if e.attr in IMMUTABLE_ATTRS:
            return set()
        if e.attr in VIEW_ATTRS:
            return base
        ty = self.ana.res.type_of(self.fi, e.value)
        if ty[0] == "cls":
            ci = self.ana.prog.classes.get(ty[1])
            if ci and e.attr in ci.properties:
                g = ci.properties[e.attr]
                return self.oa.call_function(g, {g.params[0]: base}, self.newctx(e))
        out = set()
        for o in base:
            out |= self.oa.field_of(o, e.attr)
        return out

    def e_Subscript(self, e):
        base = self.eval(e.value)
        self.eval(e.slice)
        out = self.elems(base)
        sl = e.slice
        if isinstance(sl, ast.Slice) or (isinstance(sl, ast.Tuple) and any(isinstance(x, ast.Slice) for x in sl.elts)):
            # list slice: fresh list with shared elements; array basic slice: a view of the base
            ty = self.ana.res.type_of(self.fi, e.value)
            fresh = self.oa.alloc(e, self.ctx, "slice")
            self.oa.heap.add(fresh, ELEM, out)
            if ty[0] == "list":
                return {fresh}
            return {fresh} | base
        # integer / fancy index: element(s); an array row is a view of the array
        ty = self.ana.res.type_of(self.fi, e.value)
        if ty[0] == "list" or ty[0] == "tuple":
            return out
        idx_is_fancy = isinstance(sl, (ast.List, ast.ListComp)) or (isinstance(sl, ast.Name) and self.ana.res.type_of(self.fi, sl)[0] == "list")
        if idx_is_fancy:
            return {self.oa.alloc(e, self.ctx, "fancy-index")}
        return out | {o for o in base if self._may_be_array(o, e.value)}

    def _may_be_array(self, o: Obj, expr) -> bool:
        ty = self.ana.res.type_of(self.fi, expr)
        if ty[0] in ("list", "tuple", "cls"):
            return False
        return True

    def e_Tuple(self, e):
        fresh = self.oa.alloc(e, self.ctx, "tuple")
        for x in e.elts:
            self.oa.heap.add(fresh, ELEM, self.eval(x))
        return {fresh}

    def e_List(self, e):
        fresh = self.oa.alloc(e, self.ctx, "list")
        for x in e.elts:
            self.oa.heap.add(fresh, ELEM, self.eval(x))
        return {fresh}

    e_Set = e_List

    def e_Dict(self, e):
        fresh = self.oa.alloc(e, self.ctx, "dict")
        for k, v in zip(e.keys, e.values):
            if k is not None:
                self.eval(k)
            self.oa.heap.add(fresh, ELEM, self.eval(v))
        return {fresh}

    def e_Starred(self, e):
        return self.elems(self.eval(e.value))

    def e_IfExp(self, e):
        self.eval(e.test)
        return self.eval(e.body) | self.eval(e.orelse)

    def e_BoolOp(self, e):
        out = set()
        for v in e.values:
            out |= self.eval(v)
        return out

    def e_Compare(self, e):
        self.eval(e.left)
        for c in e.comparators:
            self.eval(c)
        return set()

    def e_UnaryOp(self, e):
        v = self.eval(e.operand)
        return {self.oa.alloc(e, self.ctx, "unary")} if v else set()

    def e_BinOp(self, e):
        a = self.eval(e.left)
        b = self.eval(e.right)
        if not a and not b:
            return set()
        fresh = self.oa.alloc(e, self.ctx, "binop")
        # list concatenation / repetition shares elements
        ta = self.ana.res.type_of(self.fi, e.left)
        tb = self.ana.res.type_of(self.fi, e.right)
        if ta[0] == "list" or tb[0] == "list" or isinstance(e.left, ast.List) or isinstance(e.right, ast.List):
            self.oa.heap.add(fresh, ELEM, self.elems(a) | self.elems(b))
        return {fresh}

    def _comp(self, e, elt_exprs):
        scope: Dict[str, Set[Obj]] = {}
        self.bound.append(scope)
        fresh = self.oa.alloc(e, self.ctx, "comprehension")
        self.loop_depth += 1
        try:
            for g in e.generators:
                it = self.eval(g.iter)
                el = self.elems(it)
                fq = None
                if isinstance(g.iter, ast.Call):
                    r = self.ana.res.fq_of_expr(self.fi, g.iter.func)
                    fq = r[1] if r else None
                if fq == "builtins.enumerate" and isinstance(g.target, (ast.Tuple, ast.List)) and len(g.target.elts) == 2 and g.iter.args:
                    inner = self.elems(self.eval(g.iter.args[0]))
                    self._bind_scope(g.target.elts[0], set(), scope)
                    self._bind_scope(g.target.elts[1], inner, scope)
                elif fq == "builtins.zip" and isinstance(g.target, (ast.Tuple, ast.List)) and len(g.target.elts) == len(g.iter.args):
                    for t, a in zip(g.target.elts, g.iter.args):
                        self._bind_scope(t, self.elems(self.eval(a)), scope)
                elif isinstance(g.target, (ast.Tuple, ast.List)):
                    for t in g.target.elts:
                        self._bind_scope(t, self.elems(el) | el, scope)
                else:
                    self._bind_scope(g.target, el, scope)
                for c in g.ifs:
                    self.eval(c)
            for x in elt_exprs:
                self.oa.heap.add(fresh, ELEM, self.eval(x))
            return {fresh}
        finally:
            self.bound.pop()
            self.loop_depth -= 1

    def _bind_scope(self, t, vals, scope):
        if isinstance(t, ast.Name):
            scope[t.id] = vals
        elif isinstance(t, (ast.Tuple, ast.List)):
            for x in t.elts:
                self._bind_scope(x, vals, scope)

    def e_ListComp(self, e):
        return self._comp(e, [e.elt])

    e_SetComp = e_ListComp
    e_GeneratorExp = e_ListComp

    def e_DictComp(self, e):
        return self._comp(e, [e.value])

    def e_Lambda(self, e):
        return set()

    def e_Slice(self, e):
        for x in (e.lower, e.upper, e.step):
            if x is not None:
                self.eval(x)
        return set()

    # -------------------------------------------------------------- calls
    def e_Call(self, e: ast.Call):
        c = self.ana.res.callee(self.fi, e)
        argv = [self.eval(a) for a in e.args if not isinstance(a, ast.Starred)]
        kwv = {k.arg: self.eval(k.value) for k in e.keywords if k.arg is not None}
        # argument packs (*seq, **mapping): which parameter receives which element is not known statically, so every
        # element may reach every parameter
        star: Set[Obj] = set()
        for a in e.args:
            if isinstance(a, ast.Starred):
                star |= self.elems(self.eval(a.value))
        for k in e.keywords:
            if k.arg is None:
                star |= self.elems(self.eval(k.value))
            if k.arg == "out":
                self.oa.record(self.fi, e, kwv["out"], "out=", self.ctx)
        self._star = star
        if c.kind == "internal" and c.func is not None:
            return self.call_internal(c.func, e, argv, kwv, None)
        if c.kind == "method_internal" and c.func is not None:
            recv = self.eval(c.receiver)
            return self.call_internal(c.func, e, argv, kwv, recv if c.func.kind != "staticmethod" else None)
        if c.kind == "ctor":
            return self.construct(c.cls, e, argv, kwv)
        if c.kind in ("external", "builtin", "global"):
            return self.call_external(c.target, e, argv, kwv)
        if c.kind == "method_unknown":
            recv = self.eval(c.receiver)
            return self.call_method(c.target, recv, e, argv, kwv)
        if c.kind == "local":
            # call of a local callable (parameter / nested function already resolved): unknown effect on arguments
            self.oa.unknown_calls.add(f"{self.fi.qualname}:{getattr(e, 'lineno', 0)}:{ast.unparse(e.func)}")
            return {self.oa.alloc(e, self.ctx, "local-call")}
        return set()

    def bind(self, f: FuncInfo, argv, kwv, recv) -> Dict[str, Set[Obj]]:
        params = list(f.own_params)
        out: Dict[str, Set[Obj]] = {}
        if recv is not None and params:
            out[params[0]] = recv
            params = params[1:]
        for p, a in zip(params, argv):
            out[p] = a
        named = set(f.own_params)
        extra_kw: Set[Obj] = set()
        for k, v in kwv.items():
            if k in named:
                out[k] = v
            else:
                extra_kw |= v
        star = getattr(self, "_star", set())
        if star:
            for p in params:
                out[p] = out.get(p, set()) | star
        a = f.node.args
        if a.kwarg is not None:
            d = self.oa.alloc(f.node, self.ctx, "kwargs")
            self.oa.heap.add(d, ELEM, extra_kw | star)
            out[a.kwarg.arg] = {d}
        if a.vararg is not None:
            t = self.oa.alloc(f.node.args, self.ctx, "varargs")
            extra_pos: Set[Obj] = set()
            for x in argv[len(params):]:
                extra_pos |= x
            self.oa.heap.add(t, ELEM, extra_pos | star)
            out[a.vararg.arg] = {t}
        return out

    def call_internal(self, f: FuncInfo, e, argv, kwv, recv) -> Set[Obj]:
        return self.oa.call_function(f, self.bind(f, argv, kwv, recv), self.newctx(e))

    def construct(self, ci: ClassInfo, e, argv, kwv) -> Set[Obj]:
        o = self.oa.alloc(e, self.ctx, ci.name)
        init = ci.methods.get("__init__")
        if init is not None:
            args = self.bind(init, argv, kwv, {o})
            self.oa.call_function(init, args, self.newctx(e))
        elif ci.is_dataclass:
            names = list(ci.fields)
            for n, v in zip(names, argv):
                self.oa.heap.add(o, n, v)
            for n, v in kwv.items():
                self.oa.heap.add(o, n, v)
            star = getattr(self, "_star", set())
            if star:
                for n in names:
                    self.oa.heap.add(o, n, star)
        return {o}

    def call_external(self, fq: str, e, argv, kwv) -> Set[Obj]:
        # numpy / scipy "you may destroy my input" switches: overwrite_input=True (median, percentile, quantile ...),
        # overwrite_a / overwrite_b / overwrite_x (scipy.linalg, scipy.fft), copy=False on in-place capable helpers
        for k in getattr(e, "keywords", []):
            if k.arg in ("overwrite_input", "overwrite_a", "overwrite_b", "overwrite_x", "overwrite_ab") and \
                    not (isinstance(k.value, ast.Constant) and k.value.value is False):
                idx = 1 if k.arg == "overwrite_b" else 0
                if idx < len(argv):
                    self.oa.record(self.fi, e, argv[idx], "inplace:" + fq + "(" + k.arg + ")", self.ctx)
        if fq == "numpy.nan_to_num":
            # nan_to_num(x, copy=False) cleans x itself and returns it (round 8, C13-u1); the default copy=True gives a fresh array
            cp = next((k.value for k in getattr(e, "keywords", []) if k.arg == "copy"), None)
            if cp is None and len(getattr(e, "args", [])) >= 2:
                cp = e.args[1]
            if cp is not None and not (isinstance(cp, ast.Constant) and cp.value is True):
                if argv:
                    self.oa.record(self.fi, e, argv[0], "inplace:numpy.nan_to_num(copy=False)", self.ctx)
                fresh = self.oa.alloc(e, self.ctx, "nan_to_num")
                return {fresh} | (argv[0] if argv else set())
        if fq in INPLACE_FUNCS:
            for i in INPLACE_FUNCS[fq]:
                if i < len(argv):
                    self.oa.record(self.fi, e, argv[i], "inplace:" + fq, self.ctx)
            return set()
        if fq in VIEW_FUNCS:
            fresh = self.oa.alloc(e, self.ctx, fq.split(".")[-1])
            return ({fresh} | (argv[0] if argv else set()))
        if fq in SHALLOW_COPY_FUNCS:
            fresh = self.oa.alloc(e, self.ctx, fq.split(".")[-1])
            for a in argv:
                el = self.elems(a)
                if fq in ("itertools.chain",):
                    el = self.elems(el) | el
                if fq in ("copy.copy",):
                    # fields are shared too
                    for o in a:
                        for (oo, f), vs in list(self.oa.heap.pts.items()):
                            if oo == o:
                                self.oa.heap.add(fresh, f, vs)
                        if o.is_ext:
                            self.oa.heap.add(fresh, ELEM, self.oa.field_of(o, ELEM))
                self.oa.heap.add(fresh, ELEM, el)
            return {fresh}
        if fq == "multiprocessing.Pool" or fq in FRESH_FUNCS or fq.startswith(("numpy.", "math.", "scipy.", "sklearn.", "logging.", "itertools.",
                                                                                 "random.", "os.", "time.", "collections.", "functools.", "numbers.",
                                                                                 "builtins.", "numba.", "sys.", "copy.")):
            if fq.startswith("builtins.") and fq not in FRESH_FUNCS:
                self.oa.unknown_calls.add(fq)
            o_new = self.oa.alloc(e, self.ctx, fq.split(".")[-1])
            if fq in NUMERIC_ARRAY_CTORS and not any(k.arg == "dtype" and "object" in ast.unparse(k.value) for k in getattr(e, "keywords", [])):
                # a numeric ndarray holds values, not references: storing into it copies, indexing it yields (a view of) itself
                self.oa.numeric_arrays.add(o_new)
            return {o_new}
        self.oa.unknown_calls.add(fq)
        return {self.oa.alloc(e, self.ctx, "unknown")}

    def call_method(self, name: str, recv: Set[Obj], e, argv, kwv) -> Set[Obj]:
        if name in ("apply_async", "apply", "submit") and e.args:
            r = self.ana.res.fq_of_expr(self.fi, e.args[0])
            if r and r[0] == "function":
                f = self.ana.prog.functions[r[1]]
                pos = e.args[1] if len(e.args) > 1 else None
                kws = e.args[2] if len(e.args) > 2 else None
                a_objs: List[Set[Obj]] = []
                k_objs: Dict[str, Set[Obj]] = {}
                if pos is not None:
                    lst = self._literal(pos)
                    if isinstance(lst, (ast.List, ast.Tuple)):
                        a_objs = [self._eval_in_def(x, pos) for x in lst.elts]
                    else:
                        el = self.elems(self.eval(pos))
                        a_objs = [el for _ in f.own_params]
                if kws is not None:
                    d = self._literal(kws)
                    if isinstance(d, ast.Dict):
                        for k, v in zip(d.keys, d.values):
                            if isinstance(k, ast.Constant):
                                k_objs[k.value] = self._eval_in_def(v, kws)
                res = self.oa.call_function(f, self.bind(f, a_objs, k_objs, None), self.newctx(e))
                handle = self.oa.alloc(e, self.ctx, "AsyncResult")
                self.oa.heap.add(handle, "result", res)
                return {handle}
        if name in ("get", "result") and any(self.oa.heap.get(o, "result") for o in recv):
            out = set()
            for o in recv:
                out |= self.oa.heap.get(o, "result")
            return out
        from .build import INPLACE_KW_METHODS
        if name in INPLACE_KW_METHODS:
            flag = next((k.value for k in getattr(e, "keywords", []) if k.arg == INPLACE_KW_METHODS[name]), None)
            if flag is None and getattr(e, "args", None):
                flag = e.args[0]
            if flag is not None and not (isinstance(flag, ast.Constant) and flag.value in (False, 0, None)):
                self.oa.record(self.fi, e, recv, "method:" + name + "(" + INPLACE_KW_METHODS[name] + ")", self.ctx)
                return set(recv)
        if name in ALL_MUTATOR_METHODS:
            self.oa.record(self.fi, e, recv, "method:" + name, self.ctx)
            if name in ("append", "add", "insert", "extend", "update", "setdefault"):
                vals = set()
                for a in argv:
                    vals |= a
                    if name in ("extend", "update"):
                        vals |= self.elems(a)
                for o in recv:
                    self.oa.heap.add(o, ELEM, vals)
            if name in ("pop", "popitem", "setdefault"):
                return self.elems(recv)
            return set()
        if name in VIEW_METHODS:
            return recv | {self.oa.alloc(e, self.ctx, name)}
        if name in ("copy",):
            fresh = self.oa.alloc(e, self.ctx, "copy")
            self.oa.heap.add(fresh, ELEM, self.elems(recv))
            return {fresh}
        if name in ("get",):
            return self.elems(recv) | {self.oa.alloc(e, self.ctx, "get")}
        if name in FRESH_METHODS or name in ("fit", "debug", "info", "warning", "error", "close", "join", "terminate", "write", "print"):
            return {self.oa.alloc(e, self.ctx, name)}
        # call through an attribute holding a callable (args.rho_update(...)): unknown callee, assumed pure w.r.t. its arguments
        self.oa.unknown_calls.add(f"{self.fi.qualname}:{getattr(e, 'lineno', 0)}:.{name}")
        return {self.oa.alloc(e, self.ctx, name)}

    def _literal(self, expr):
        """Resolve a name to the list/dict display it was assigned (single definition)."""
        if isinstance(expr, ast.Name):
            node = self.at(expr)
            defs = self.rd.reaching(node, expr.id) if node is not None else []
            if len(defs) == 1 and defs[0].kind == "stmt" and isinstance(defs[0].ast, ast.Assign):
                return defs[0].ast.value
        return expr

    def _eval_in_def(self, x, where):
        return self.eval(x)


def mutability_of_fields(ana: Analysis) -> Dict[Tuple[str, str], bool]:
    """(class qualname, field) -> may the field hold a mutable object?  Inferred from the values stored into the
    field anywhere in the package (rank-0 reductions, numbers, None and strings are immutable); the annotation is
    consulted only for values entering through a constructor parameter."""
    from . import terms as tm
    out: Dict[Tuple[str, str], bool] = {}
    prog = ana.prog
    stores: Dict[Tuple[str, str], List[Tuple[FuncInfo, ast.expr]]] = {}
    for fi in prog.functions.values():
        for n in Resolver.walk_own(fi.node):
            if isinstance(n, ast.Assign):
                for t in n.targets:
                    if isinstance(t, ast.Attribute):
                        ty = ana.res.type_of(fi, t.value)
                        if ty[0] == "cls":
                            stores.setdefault((ty[1], t.attr), []).append((fi, n.value))
    for q, ci in prog.classes.items():
        for f, ann in ci.fields.items():
            ann_txt = ast.unparse(ann) if ann is not None else ""
            scalar_ann = ann_txt in ("int", "float", "bool", "str", "Optional[float]", "Optional[int]", "Optional[bool]")
            callable_ann = ann_txt.startswith("Callable") or "Callable" in ann_txt
            verdicts = []
            for fi, v in stores.get((q, f), []) + stores.get((q, "_" + f), []):
                if isinstance(v, ast.Name) and fi.cls is ci and fi.name == "__init__":
                    continue    # self.f = f  (constructor parameter: annotation decides)
                if isinstance(v, ast.Attribute) and v.attr == f:
                    continue    # copy of the same field
                verdicts.append(_is_immutable_value(ana, fi, v))
            if verdicts:
                mutable_by_use = not all(verdicts)
            else:
                mutable_by_use = None
            if scalar_ann or callable_ann:
                out[(q, f)] = False
            elif mutable_by_use is not None and "Union" not in ann_txt and "List" not in ann_txt:
                out[(q, f)] = mutable_by_use
            else:
                out[(q, f)] = True
    return out


def _is_immutable_value(ana, fi, v) -> bool:
    if isinstance(v, ast.Constant):
        return True
    # rank-0 by reconstruction (reductions, slogdet components, python numbers)
    try:
        b = ana.builder(fi, no_inline=ana.known)
        t = b.term(v)
        from . import terms as _tm
        if isinstance(t, _tm.Lit) or (isinstance(t, _tm.Poly) and t.const_value() is not None) or b.ranks.rank(t) == 0:
            return True
    except Exception:
        pass
    if isinstance(v, ast.Subscript) and isinstance(v.value, ast.Call):
        r = ana.res.fq_of_expr(fi, v.value.func)
        if r and r[1] in ("numpy.linalg.slogdet",):
            return True
    if isinstance(v, ast.Call):
        r = ana.res.fq_of_expr(fi, v.func)
        if r and r[1] in ("numpy.log", "math.log", "builtins.float", "builtins.int", "builtins.len", "numpy.linalg.det", "numpy.linalg.norm",
                          "numpy.trace", "builtins.bool"):
            return True
    if isinstance(v, ast.Name):
        # a local bound to the second result of the labelling kernel etc.: look one level
        cfg = ana.cfg(fi)
        rd = ana.rd(fi)
        node = cfg.expr_node.get(id(v))
        defs = rd.reaching(node, v.id) if node is not None else []
        if len(defs) == 1 and defs[0].kind == "stmt" and isinstance(defs[0].ast, ast.Assign):
            tg = defs[0].ast.targets[0]
            if isinstance(tg, ast.Name):
                return _is_immutable_value(ana, fi, defs[0].ast.value)
            if isinstance(tg, ast.Tuple):
                # (labels, cost) = kernel(...): annotated return Tuple[List[int], float]
                val = defs[0].ast.value
                if isinstance(val, ast.Call):
                    c = ana.res.callee(fi, val)
                    if c.func is not None and c.func.node.returns is not None:
                        rt = ast.unparse(c.func.node.returns)
                        names = [e.id if isinstance(e, ast.Name) else None for e in tg.elts]
                        if v.id in names and rt.startswith("Tuple["):
                            parts = _split_top(rt[6:-1])
                            k = names.index(v.id)
                            if k < len(parts):
                                return parts[k].strip() in ("float", "int", "bool")
    return False


def _split_top(s: str) -> List[str]:
    out, depth, cur = [], 0, ""
    for ch in s:
        if ch == "[":
            depth += 1
        elif ch == "]":
            depth -= 1
        if ch == "," and depth == 0:
            out.append(cur)
            cur = ""
        else:
            cur += ch
    out.append(cur)
    return out
