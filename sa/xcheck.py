"""Thorough-tier independent re-derivations.

(1) Every equality between algebraic terms that a rule decided with the analyser's own normal forms is re-decided with a second
    normaliser (sympy, zip-imported from the offline wheelhouse; pure wheels, nothing is installed).  Terms are translated
    structurally: atoms become symbols named by their canonical key, polynomial structure, division groups and sqrt are
    re-interpreted by sympy.  own-equal / sympy-different  => ANALYSIS-ERROR (the normaliser proved something false);
    own-different / sympy-equal => recorded as incompleteness (a potential false alarm, never a false pass).
(2) Reaching definitions used by the FLOW rules are re-derived from CPython bytecode (compile + dis, never executed).
"""
from __future__ import annotations

import glob
import sys
from fractions import Fraction
from typing import Dict, List, Tuple

from . import terms as tm

_LOG: List[Tuple[tm.T, tm.T, bool]] = []
_installed = False
_orig_eq = tm.T.__eq__


def install_eq_log():
    global _installed
    if _installed:
        return
    _installed = True

    def logged_eq(self, other):
        r = _orig_eq(self, other)
        if isinstance(other, tm.T) and (isinstance(self, tm.Poly) or isinstance(other, tm.Poly)) and len(_LOG) < 20000:
            _LOG.append((self, other, r))
        return r

    tm.T.__eq__ = logged_eq
    tm.T.__hash__ = lambda self: self._h


def uninstall_eq_log():
    global _installed
    tm.T.__eq__ = _orig_eq
    _installed = False


def _import_sympy():
    for pat in ("/opt/veriftools/wheels/mpmath-*.whl", "/opt/veriftools/wheels/sympy-*.whl"):
        for w in glob.glob(pat):
            if w not in sys.path:
                sys.path.insert(0, w)
    import sympy  # noqa
    return sympy


def _to_sympy(sp, t: tm.T, syms: Dict[str, object]):
    if isinstance(t, tm.Poly):
        acc = sp.Integer(0)
        for mono, c in t.terms:
            term = sp.Rational(c.numerator, c.denominator)
            for a, e in mono:
                term = term * _to_sympy(sp, a, syms) ** e
            acc = acc + term
        return acc
    if isinstance(t, tm.Grp):
        return _to_sympy(sp, t.poly, syms)
    if isinstance(t, tm.App) and t.fn == "sqrt" and len(t.args) == 1:
        return sp.sqrt(_to_sympy(sp, t.args[0], syms))
    k = t.key
    if k not in syms:
        syms[k] = sp.Symbol("a%d" % len(syms), positive=True)
    return syms[k]


def recheck_identities(limit=4000):
    """Returns dict(rechecked, agree, errors[], incomplete[])."""
    out = {"identities_logged": len(_LOG), "identities_rechecked": 0, "agree": 0, "errors": [], "incomplete": []}
    if not _LOG:
        return out
    try:
        sp = _import_sympy()
    except Exception as e:  # pragma: no cover
        out["errors"].append(f"sympy could not be imported from the wheelhouse: {e}")
        return out
    seen = set()
    syms: Dict[str, object] = {}
    for a, b, r in _LOG:
        key = (a.key, b.key)
        if key in seen or len(seen) >= limit:
            continue
        seen.add(key)
        try:
            d = sp.simplify(sp.expand(_to_sympy(sp, a, syms) - _to_sympy(sp, b, syms)))
            eq = (d == 0)
        except Exception as e:
            out["incomplete"].append(f"sympy failed on {a.key[:60]} vs {b.key[:60]}: {e}")
            continue
        out["identities_rechecked"] += 1
        if eq == r:
            out["agree"] += 1
        elif r and not eq:
            out["errors"].append(f"normal forms equal but sympy disagrees: {a.key[:100]}  vs  {b.key[:100]}")
        else:
            out["incomplete"].append(f"sympy proves equal what the normaliser keeps apart: {a.key[:80]}  vs  {b.key[:80]}")
    return out


# ---------------------------------------------------------------------------------------------------------------
# (2) reaching definitions re-derived from bytecode
import ast as _ast
import dis as _dis


def _code_objects(code):
    yield code
    for c in code.co_consts:
        if hasattr(c, "co_code"):
            yield from _code_objects(c)


def _bytecode_rd(code):
    ins = list(_dis.get_instructions(code))
    idx = {i.offset: k for k, i in enumerate(ins)}
    n = len(ins)
    succ = [[] for _ in range(n)]
    NOFALL = {"JUMP_FORWARD", "JUMP_BACKWARD", "JUMP_BACKWARD_NO_INTERRUPT", "RETURN_VALUE", "RETURN_CONST", "RAISE_VARARGS", "RERAISE"}
    for k, i in enumerate(ins):
        if i.opname not in NOFALL and k + 1 < n:
            succ[k].append((k + 1, "n"))
        if i.opcode in _dis.hasjrel or i.opcode in _dis.hasjabs:
            if i.argval in idx:
                succ[k].append((idx[i.argval], "n"))
    try:
        table = _dis._parse_exception_table(code)
    except Exception:
        table = []
    for e in table:
        if e.target in idx:
            for k, i in enumerate(ins):
                if e.start <= i.offset < e.end:
                    succ[k].append((idx[e.target], "e"))
    pred = [[] for _ in range(n)]
    for k in range(n):
        for s, kind in succ[k]:
            pred[s].append((k, kind))
    argnames = list(code.co_varnames[:code.co_argcount + code.co_kwonlyargcount + bool(code.co_flags & 4) + bool(code.co_flags & 8)])
    gen = [set() for _ in range(n)]
    kill = [None] * n
    for k, i in enumerate(ins):
        if i.opname in ("STORE_FAST", "DELETE_FAST"):
            kill[k] = i.argval
            if i.opname == "STORE_FAST":
                gen[k] = {(i.argval, k)}
    IN = [set() for _ in range(n)]
    OUT = [set() for _ in range(n)]
    entry = {(a, -1) for a in argnames}
    work = list(range(n))
    inq = set(work)
    while work:
        k = work.pop(0)
        inq.discard(k)
        new_in = set(entry) if k == 0 else set()
        for p, kind in pred[k]:
            new_in |= OUT[p] if kind == "n" else IN[p]
        new_out = {d for d in new_in if d[0] != kill[k]} | gen[k] if kill[k] is not None else set(new_in)
        if new_in != IN[k] or new_out != OUT[k]:
            IN[k], OUT[k] = new_in, new_out
            for s, _ in succ[k]:
                if s not in inq:
                    work.append(s)
                    inq.add(s)
    return ins, IN


def recheck_reaching_defs(ana, pid=None):
    """Compare, for every function of the package, the definitions reaching each local-variable read as computed
    (a) on the AST-level CFG and (b) on CPython bytecode."""
    from .resolve import Resolver
    out = {"functions_compared": 0, "uses_compared": 0, "agree": 0, "errors": [], "skipped_functions": []}
    for mi in ana.prog.modules.values():
        try:
            mcode = compile(mi.source, mi.path, "exec")
        except SyntaxError as e:  # pragma: no cover
            out["errors"].append(f"{mi.relpath} does not compile: {e}")
            continue
        codes = list(_code_objects(mcode))
        for fi in [f for f in ana.prog.functions.values() if f.module is mi]:
            lines = {fi.node.lineno} | {d.lineno for d in fi.node.decorator_list}
            cands = [c for c in codes if c.co_name == fi.name and c.co_firstlineno in lines]
            if len(cands) != 1:
                out["skipped_functions"].append(fi.qualname)
                continue
            code = cands[0]
            cfg, rd = ana.cfg(fi), ana.rd(fi)
            names = {}
            comp_bound = set()
            for nd in Resolver.walk_own(fi.node):
                if isinstance(nd, _ast.Name):
                    names[(nd.lineno, nd.col_offset, nd.end_lineno, nd.end_col_offset)] = nd
                if isinstance(nd, _ast.comprehension):
                    for t in _ast.walk(nd.target):
                        if isinstance(t, _ast.Name):
                            comp_bound.add(t.id)
            ins, IN = _bytecode_rd(code)
            out["functions_compared"] += 1

            def node_of_store(k):
                i = ins[k]
                p = i.positions
                nm = names.get((p.lineno, p.col_offset, p.end_lineno, p.end_col_offset))
                if nm is not None and id(nm) in cfg.expr_node:
                    return cfg.expr_node[id(nm)].id
                # import / except-as / with-as / def: by line and defined name
                for nn in cfg.nodes:
                    if i.argval in nn.defs and nn.lineno == p.lineno:
                        return nn.id
                return None

            # the compiler may duplicate small exit blocks (several LOAD_FAST instructions for one source occurrence):
            # compare per source occurrence, taking the union over its bytecode instances
            per_use = {}
            for k, i in enumerate(ins):
                if i.opname not in ("LOAD_FAST", "LOAD_FAST_CHECK"):
                    continue
                if i.argval in comp_bound:
                    continue
                p = i.positions
                nm = names.get((p.lineno, p.col_offset, p.end_lineno, p.end_col_offset))
                if nm is None or not isinstance(nm.ctx, _ast.Load) or id(nm) not in cfg.expr_node:
                    continue
                rec = per_use.setdefault(id(nm), {"nm": nm, "defs": set(), "unknown": False, "line": p.lineno, "var": i.argval})
                for (v, dk) in IN[k]:
                    if v != i.argval:
                        continue
                    if dk == -1:
                        rec["defs"].add(cfg.entry.id)
                    else:
                        nid = node_of_store(dk)
                        if nid is None:
                            rec["unknown"] = True
                        else:
                            rec["defs"].add(nid)
            for rec in per_use.values():
                if rec["unknown"]:
                    continue
                at = cfg.expr_node[id(rec["nm"])]
                a_defs = {d.id for d in rd.reaching(at, rec["var"])}
                b_defs = rec["defs"]
                out["uses_compared"] += 1
                if a_defs == b_defs:
                    out["agree"] += 1
                else:
                    out["errors"].append(f"reaching definitions of `{rec['var']}` at {fi.relfile}:{rec['line']} differ: AST-CFG lines "
                                         f"{sorted(cfg.nodes[x].lineno for x in a_defs)} vs bytecode lines {sorted(cfg.nodes[x].lineno for x in b_defs)}")
    out["errors"] = out["errors"][:20]
    return out


OWN_ENTRIES = {
    "C19": ["front_end.ticc_labels", "front_end.ticc_joint_labels", "admm.front_end.admm_optimize_theta",
            "cluster_label_assignment.assign_point_cluster_labels", "cluster_label_assignment.predict_cluster_labels"],
    "C13": ["cluster_maintenance.repopulate_empty_clusters", "cluster_maintenance.update_all_cluster_statistics",
            "graphical_lasso.optimize_markov_random_fields", "cluster_label_assignment.predict_cluster_labels",
            "containers.model_state.ModelState.deep_copy"],
    "C14": ["admm.front_end.admm_optimize_theta", "front_end.ticc_labels"],
    "C08": ["cluster_maintenance.repopulate_empty_clusters"],
    "C18": ["front_end.ticc_labels", "front_end.ticc_joint_labels"],
}


def recheck_ownership(ana, pid):
    """Ownership verdicts recomputed with a much longer call string (the package has no recursion): the set of mutation
    sites that may write caller-owned objects must not depend on the inlining bound."""
    from .heap import OwnershipAnalysis
    out = {"entries": 0, "agree": 0, "errors": []}
    for q in OWN_ENTRIES.get(pid, []):
        a = OwnershipAnalysis(ana, ana.func(q), k=3).run()
        b = OwnershipAnalysis(ana, ana.func(q), k=12).run()

        def sig(oa):
            return {(m.func.qualname, m.line, m.kind) for m in oa.mutations if any(o.kind in ("ext", "memo", "glob") for o in m.targets)}
        out["entries"] += 1
        if sig(a) == sig(b):
            out["agree"] += 1
        else:
            out["errors"].append(f"ownership verdict for {q} depends on the call-string bound: k=3 {sorted(sig(a) - sig(b))[:3]} / k=12 {sorted(sig(b) - sig(a))[:3]}")
    return out
