"""L4 (algebra part): immutable terms with canonical keys and polynomial normal forms.

Every term has a `.key` (a string) that is its canonical representation: two terms are
equal iff their keys are equal.  Numeric expressions are polynomials with rational
coefficients (and integer, possibly negative, exponents) over *atoms*; everything
that is not interpreted arithmetic (uninterpreted applications, subscripts, attribute
reads, comparisons, sequences, piecewise terms) is an atom.
"""
from __future__ import annotations

from fractions import Fraction
from typing import Dict, Iterable, List, Optional, Tuple


class T:
    __slots__ = ("key", "_h")

    def __eq__(self, o):
        return isinstance(o, T) and self.key == o.key

    def __ne__(self, o):
        return not self.__eq__(o)

    def __hash__(self):
        return self._h

    def _setkey(self, k):
        object.__setattr__(self, "key", k)
        object.__setattr__(self, "_h", hash(k))

    def __repr__(self):
        return self.key

    # arithmetic sugar (numeric context)
    def __add__(self, o):
        return add(self, o)

    def __radd__(self, o):
        return add(o, self)

    def __sub__(self, o):
        return add(self, neg(o))

    def __rsub__(self, o):
        return add(o, neg(self))

    def __mul__(self, o):
        return mul(self, o)

    def __rmul__(self, o):
        return mul(o, self)

    def __neg__(self):
        return neg(self)

    def __truediv__(self, o):
        return div(self, o)

    def __rtruediv__(self, o):
        return div(o, self)

    def __pow__(self, n):
        return power(self, n)

    def __getitem__(self, idx):
        if not isinstance(idx, tuple):
            idx = (idx,)
        return index(self, tuple(as_term(i) for i in idx))


def as_term(x) -> T:
    if isinstance(x, T):
        return x
    if isinstance(x, bool):
        return Lit(x)
    if isinstance(x, (int, Fraction)):
        return const(x)
    if isinstance(x, float):
        return const(Fraction(repr(x)))
    if x is None:
        return Lit(None)
    if isinstance(x, str):
        return Lit(x)
    if isinstance(x, tuple):
        return Tup(tuple(as_term(e) for e in x))
    raise TypeError(f"cannot make a term of {x!r}")


# ---------------------------------------------------------------------------
class Sym(T):
    __slots__ = ("name",)

    def __init__(self, name):
        self.name = name
        self._setkey(name)


class Lit(T):
    __slots__ = ("value",)

    def __init__(self, value):
        self.value = value
        self._setkey(f"#{value!r}")


class App(T):
    __slots__ = ("fn", "args", "kw")

    def __init__(self, fn, args=(), kw=()):
        self.fn = fn
        self.args = tuple(as_term(a) for a in args)
        self.kw = tuple(sorted((k, as_term(v)) for k, v in (kw.items() if isinstance(kw, dict) else kw)))
        k = ",".join(a.key for a in self.args)
        if self.kw:
            k += ";" + ",".join(f"{n}={v.key}" for n, v in self.kw)
        self._setkey(f"{fn}({k})")

    def kwarg(self, name):
        for n, v in self.kw:
            if n == name:
                return v
        return None


class Idx(T):
    __slots__ = ("base", "idx")

    def __init__(self, base, idx):
        self.base = base
        self.idx = tuple(idx)
        self._setkey(f"{base.key}[{','.join(i.key for i in self.idx)}]")


class Slc(T):
    __slots__ = ("lo", "hi", "step")

    def __init__(self, lo=None, hi=None, step=None):
        self.lo, self.hi, self.step = lo, hi, step
        f = lambda x: "" if x is None else x.key
        self._setkey(f"{f(lo)}:{f(hi)}" + (f":{f(step)}" if step is not None else ""))


class Attr(T):
    __slots__ = ("base", "name")

    def __init__(self, base, name):
        self.base = base
        self.name = name
        self._setkey(f"{base.key}.{name}")


class Tup(T):
    __slots__ = ("elems",)

    def __init__(self, elems):
        self.elems = tuple(as_term(e) for e in elems)
        self._setkey("(" + ",".join(e.key for e in self.elems) + ",)")


class Lst(T):
    """A list display [e0, e1, ...] (sequence domain)."""
    __slots__ = ("elems",)

    def __init__(self, elems):
        self.elems = tuple(as_term(e) for e in elems)
        self._setkey("[" + ",".join(e.key for e in self.elems) + "]")


class Rep(T):
    """seq * count (sequence domain, non-commutative with Cat)."""
    __slots__ = ("seq", "count")

    def __init__(self, seq, count):
        self.seq = seq
        self.count = as_term(count)
        self._setkey(f"rep({seq.key};{self.count.key})")


class Cat(T):
    """Concatenation of sequences, in order."""
    __slots__ = ("parts",)

    def __init__(self, parts):
        flat = []
        for p in parts:
            if isinstance(p, Cat):
                flat.extend(p.parts)
            else:
                flat.append(p)
        self.parts = tuple(flat)
        self._setkey("cat(" + " ++ ".join(p.key for p in self.parts) + ")")


class Comp(T):
    """[elt for var in iter if conds] with a canonically named bound variable."""
    __slots__ = ("elt", "var", "iter", "conds", "kind")

    def __init__(self, elt, var, iter_, conds=(), kind="list"):
        if isinstance(iter_, Range) and iter_.step == ONE and iter_.lo != ZERO and isinstance(var, Sym):
            # counted from zero: [f(v) for v in range(lo, hi)] is [f(v + lo) for v in range(hi - lo)]
            shift = {var.key: add(var, iter_.lo)}
            elt = substitute(elt, shift)
            conds = [substitute(c, shift) for c in conds]
            iter_ = Range(ZERO, add(iter_.hi, neg(iter_.lo)))
        self.elt, self.var, self.iter, self.conds, self.kind = elt, var, iter_, tuple(conds), kind
        c = (" if " + " and ".join(x.key for x in self.conds)) if self.conds else ""
        self._setkey(f"{kind}[{elt.key} for {var.key} in {iter_.key}{c}]")


class Cmp(T):
    """poly OP 0 with OP in <, <=, ==, !=  (normalised comparison)."""
    __slots__ = ("op", "poly")

    def __init__(self, op, poly):
        self.op = op
        self.poly = poly
        self._setkey(f"{{{poly.key} {op} 0}}")


class And(T):
    __slots__ = ("parts",)

    def __init__(self, parts):
        flat = []
        for p in parts:
            if isinstance(p, And):
                flat.extend(p.parts)
            else:
                flat.append(p)
        uniq = {p.key: p for p in flat}
        self.parts = tuple(uniq[k] for k in sorted(uniq))
        self._setkey("(" + " & ".join(p.key for p in self.parts) + ")")


class Or(T):
    __slots__ = ("parts",)

    def __init__(self, parts):
        flat = []
        for p in parts:
            if isinstance(p, Or):
                flat.extend(p.parts)
            else:
                flat.append(p)
        uniq = {p.key: p for p in flat}
        self.parts = tuple(uniq[k] for k in sorted(uniq))
        self._setkey("(" + " | ".join(p.key for p in self.parts) + ")")


class Not(T):
    __slots__ = ("arg",)

    def __init__(self, arg):
        self.arg = arg
        self._setkey(f"!{arg.key}")


TRUE = Lit(True)
FALSE = Lit(False)


class PW(T):
    """Piecewise term: ((guard, value), ...) - guards are mutually exclusive by construction."""
    __slots__ = ("pieces",)

    def __init__(self, pieces):
        ps = [(g, v) for g, v in pieces]
        ps.sort(key=lambda gv: gv[0].key)
        self.pieces = tuple(ps)
        self._setkey("pw{" + "; ".join(f"{g.key} -> {v.key}" for g, v in self.pieces) + "}")


class Sum(T):
    """sum of body over binders ((var, iterable-term), ...), optionally guarded."""
    __slots__ = ("body", "binders", "guard")

    def __init__(self, body, binders, guard=None):
        self.body = body
        self.binders = tuple(binders)
        self.guard = guard
        b = ",".join(f"{v.key} in {it.key}" for v, it in self.binders)
        g = f" if {guard.key}" if guard is not None else ""
        self._setkey(f"SUM[{body.key} for {b}{g}]")


class Range(T):
    """range(lo, hi, step)"""
    __slots__ = ("lo", "hi", "step")

    def __init__(self, lo, hi, step=None):
        self.lo = as_term(lo)
        self.hi = as_term(hi)
        self.step = as_term(1 if step is None else step)
        self._setkey(f"range({self.lo.key},{self.hi.key},{self.step.key})")


# ---------------------------------------------------------------------------
Mono = Tuple[Tuple[T, int], ...]


class Poly(T):
    __slots__ = ("terms",)

    def __init__(self, terms: Dict[Mono, Fraction]):
        items = [(m, c) for m, c in terms.items() if c != 0]
        items.sort(key=lambda mc: _mono_key(mc[0]))
        self.terms = tuple(items)
        if not items:
            k = "0"
        else:
            parts = []
            for m, c in items:
                mk = _mono_key(m)
                if not m:
                    parts.append(_c(c))
                elif c == 1:
                    parts.append(mk)
                elif c == -1:
                    parts.append("-" + mk)
                else:
                    parts.append(f"{_c(c)}*{mk}")
            k = "(" + " + ".join(parts) + ")" if len(parts) > 1 else parts[0]
        self._setkey(k)

    def is_const(self):
        return all(not m for m, _ in self.terms)

    def const_value(self) -> Optional[Fraction]:
        if not self.terms:
            return Fraction(0)
        if len(self.terms) == 1 and not self.terms[0][0]:
            return self.terms[0][1]
        return None

    def atoms(self) -> List[T]:
        out = {}
        for m, _ in self.terms:
            for a, _e in m:
                out[a.key] = a
        return [out[k] for k in sorted(out)]


def _c(c: Fraction) -> str:
    return str(c.numerator) if c.denominator == 1 else f"{c.numerator}/{c.denominator}"


def _mono_key(m: Mono) -> str:
    return "*".join(a.key if e == 1 else f"{a.key}^{e}" for a, e in m)


def const(c) -> Poly:
    c = Fraction(c)
    return Poly({(): c})


ZERO = const(0)
ONE = const(1)


def _poly(x) -> Poly:
    x = as_term(x)
    if isinstance(x, Poly):
        return x
    return Poly({((x, 1),): Fraction(1)})


def _norm(p: Poly) -> T:
    """Unwrap a polynomial that is a single atom with coefficient 1."""
    if len(p.terms) == 1:
        m, c = p.terms[0]
        if c == 1 and len(m) == 1 and m[0][1] == 1:
            return m[0][0]
    return p


def _lift2(f, a, b):
    """Distribute a binary numeric operation over piecewise operands."""
    a = as_term(a)
    b = as_term(b)
    if isinstance(a, PW):
        return PW([(g, _lift2(f, v, b)) for g, v in a.pieces])
    if isinstance(b, PW):
        return PW([(g, _lift2(f, a, v)) for g, v in b.pieces])
    return f(a, b)


def add(a, b) -> T:
    return _lift2(_add, a, b)


def _add(a, b):
    pa, pb = _poly(a), _poly(b)
    d = dict(pa.terms)
    for m, c in pb.terms:
        d[m] = d.get(m, 0) + c
    return _norm(Poly(d))


def neg(a) -> T:
    a = as_term(a)
    if isinstance(a, PW):
        return PW([(g, neg(v)) for g, v in a.pieces])
    pa = _poly(a)
    return _norm(Poly({m: -c for m, c in pa.terms}))


def _mono_mul(m1: Mono, m2: Mono) -> Mono:
    d = {}
    order = {}
    for a, e in m1 + m2:
        d[a.key] = d.get(a.key, 0) + e
        order[a.key] = a
    return tuple((order[k], d[k]) for k in sorted(d) if d[k] != 0)


def mul(a, b) -> T:
    return _lift2(_mul, a, b)


def _mul(a, b):
    pa, pb = _poly(a), _poly(b)
    d = {}
    for m1, c1 in pa.terms:
        for m2, c2 in pb.terms:
            m = _mono_mul(m1, m2)
            d[m] = d.get(m, 0) + c1 * c2
    return _norm(Poly(d))


def power(a, n: int) -> T:
    a = as_term(a)
    if n == 0:
        return ONE
    if n < 0:
        return div(ONE, power(a, -n))
    r = ONE
    for _ in range(n):
        r = mul(r, a)
    return r


class Grp(T):
    """A polynomial treated as an atom (used as a denominator)."""
    __slots__ = ("poly",)

    def __init__(self, poly):
        self.poly = poly
        self._setkey(f"<{poly.key}>")


def div(a, b) -> T:
    return _lift2(_div, a, b)


def _div(a, b):
    pb = _poly(b)
    if not pb.terms:
        raise ZeroDivisionError("division by the zero polynomial")
    if len(pb.terms) == 1:
        m, c = pb.terms[0]
        inv_m = tuple((x, -e) for x, e in m)
        return _mul(a, _norm(Poly({inv_m: 1 / c})))
    # factor the content so that (2a+2b) and (a+b) give the same group
    lead = pb.terms[0][1]
    pn = Poly({m: c / lead for m, c in pb.terms})
    g = Grp(pn)
    return _mul(a, _norm(Poly({((g, -1),): 1 / lead})))


def sqrt(a) -> T:
    a = as_term(a)
    if isinstance(a, PW):
        return PW([(g, sqrt(v)) for g, v in a.pieces])
    p = _poly(a)
    r = _perfect_square_root(p)
    if r is not None:
        return r
    return App("sqrt", (a,))


def _perfect_square_root(p: Poly) -> Optional[T]:
    """sqrt(p) = q when p = q^2 for a polynomial q = a*x + b with a > 0 (or a non-negative
    constant that is a perfect square)."""
    cv = p.const_value()
    if cv is not None:
        if cv >= 0:
            n, d = cv.numerator, cv.denominator
            rn, rd = int(round(n ** 0.5)), int(round(d ** 0.5))
            if rn * rn == n and rd * rd == d:
                return const(Fraction(rn, rd))
        return None
    atoms = p.atoms()
    if len(atoms) != 1:
        return None
    x = atoms[0]
    co = {0: Fraction(0), 1: Fraction(0), 2: Fraction(0)}
    for m, c in p.terms:
        if not m:
            co[0] += c
        elif len(m) == 1 and m[0][1] in (1, 2):
            co[m[0][1]] += c
        else:
            return None
    a2, b2, c0 = co[2], co[1], co[0]
    if a2 <= 0 or c0 < 0:
        return None
    ra = _perfect_square_root(const(a2))
    rc = _perfect_square_root(const(c0))
    if ra is None or rc is None:
        return None
    ra, rc = ra.const_value(), rc.const_value()
    if b2 == 2 * ra * rc:
        return add(mul(const(ra), x), const(rc))
    return None


def substitute(t: T, mapping: Dict[str, T]) -> T:
    """Replace atoms by key (deep).  Rebuilds through the smart constructors."""
    t = as_term(t)
    if t.key in mapping:
        return mapping[t.key]
    if isinstance(t, Poly):
        acc = ZERO
        for m, c in t.terms:
            term = const(c)
            for a, e in m:
                sa = substitute(a, mapping)
                if e >= 0:
                    term = mul(term, power(sa, e))
                else:
                    term = div(term, power(sa, -e))
            acc = add(acc, term)
        return acc
    if isinstance(t, (Sym, Lit)):
        return t
    if isinstance(t, App):
        return make_app(t.fn, [substitute(a, mapping) for a in t.args], {k: substitute(v, mapping) for k, v in t.kw})
    if isinstance(t, Idx):
        return index(substitute(t.base, mapping), tuple(substitute(i, mapping) for i in t.idx))
    if isinstance(t, Slc):
        f = lambda x: None if x is None else substitute(x, mapping)
        return Slc(f(t.lo), f(t.hi), f(t.step))
    if isinstance(t, Attr):
        return Attr(substitute(t.base, mapping), t.name)
    if isinstance(t, Tup):
        return Tup([substitute(e, mapping) for e in t.elems])
    if isinstance(t, Lst):
        return Lst([substitute(e, mapping) for e in t.elems])
    if isinstance(t, Rep):
        return Rep(substitute(t.seq, mapping), substitute(t.count, mapping))
    if isinstance(t, Cat):
        return Cat([substitute(p, mapping) for p in t.parts])
    if isinstance(t, Comp):
        return Comp(substitute(t.elt, mapping), t.var, substitute(t.iter, mapping),
                    [substitute(c, mapping) for c in t.conds], t.kind)
    if isinstance(t, Cmp):
        return compare(t.op, substitute(t.poly, mapping), ZERO)
    if isinstance(t, And):
        return And([substitute(p, mapping) for p in t.parts])
    if isinstance(t, Or):
        return Or([substitute(p, mapping) for p in t.parts])
    if isinstance(t, Not):
        return negate(substitute(t.arg, mapping))
    if isinstance(t, PW):
        return PW([(substitute(g, mapping), substitute(v, mapping)) for g, v in t.pieces])
    if isinstance(t, Sum):
        return Sum(substitute(t.body, mapping), [(v, substitute(it, mapping)) for v, it in t.binders],
                   None if t.guard is None else substitute(t.guard, mapping))
    if isinstance(t, Range):
        return Range(substitute(t.lo, mapping), substitute(t.hi, mapping), substitute(t.step, mapping))
    if isinstance(t, Grp):
        return Grp(_poly(substitute(t.poly, mapping)))
    return t


def subterms(t: T):
    """Yield t and all sub-terms (pre-order)."""
    yield t
    if isinstance(t, Poly):
        for m, _ in t.terms:
            for a, _e in m:
                yield from subterms(a)
    elif isinstance(t, App):
        for a in t.args:
            yield from subterms(a)
        for _, v in t.kw:
            yield from subterms(v)
    elif isinstance(t, Idx):
        yield from subterms(t.base)
        for i in t.idx:
            yield from subterms(i)
    elif isinstance(t, Slc):
        for x in (t.lo, t.hi, t.step):
            if x is not None:
                yield from subterms(x)
    elif isinstance(t, Attr):
        yield from subterms(t.base)
    elif isinstance(t, (Tup, Lst)):
        for e in t.elems:
            yield from subterms(e)
    elif isinstance(t, Rep):
        yield from subterms(t.seq)
        yield from subterms(t.count)
    elif isinstance(t, Cat):
        for p in t.parts:
            yield from subterms(p)
    elif isinstance(t, Comp):
        yield from subterms(t.elt)
        yield from subterms(t.iter)
        for c in t.conds:
            yield from subterms(c)
    elif isinstance(t, Cmp):
        yield from subterms(t.poly)
    elif isinstance(t, (And, Or)):
        for p in t.parts:
            yield from subterms(p)
    elif isinstance(t, Not):
        yield from subterms(t.arg)
    elif isinstance(t, PW):
        for g, v in t.pieces:
            yield from subterms(g)
            yield from subterms(v)
    elif isinstance(t, Sum):
        yield from subterms(t.body)
        for _v, it in t.binders:
            yield from subterms(it)
        if t.guard is not None:
            yield from subterms(t.guard)
    elif isinstance(t, Range):
        yield from subterms(t.lo)
        yield from subterms(t.hi)
        yield from subterms(t.step)
    elif isinstance(t, Grp):
        yield from subterms(t.poly)


def mentions(t: T, atom: T) -> bool:
    k = atom.key
    return any(s.key == k for s in subterms(t))


# ---------------------------------------------------------------------------
# comparisons
def compare(op: str, lhs, rhs) -> T:
    """Normalise `lhs op rhs` to `poly OP 0` with OP in <, <=, ==, !=."""
    lhs, rhs = as_term(lhs), as_term(rhs)
    if isinstance(lhs, PW) or isinstance(rhs, PW):
        return App("cmp" + op, (lhs, rhs))
    if op in (">", ">="):
        lhs, rhs = rhs, lhs
        op = "<" if op == ">" else "<="
    try:
        d = _poly(add(lhs, neg(rhs)))
    except Exception:
        return App("cmp" + op, (lhs, rhs))
    if op in ("==", "!="):
        # sign-normalise: leading coefficient positive
        if d.terms and d.terms[0][1] < 0:
            d = _poly(neg(d))
    cv = d.const_value()
    if cv is not None:
        val = {"<": cv < 0, "<=": cv <= 0, "==": cv == 0, "!=": cv != 0}[op]
        return TRUE if val else FALSE
    if op in ("<", "<="):
        z = _count_vs_zero(op, d)
        if z is not None:
            return z
    return Cmp(op, d)


def _is_count(a: T) -> bool:
    """Atoms whose value is a non-negative integer: len(x), numpy.ndim(x), x.ndim, x.size, numpy.size(x)."""
    if isinstance(a, App) and a.fn in ("len", "numpy.ndim", "numpy.size", "builtins.len") and len(a.args) == 1:
        return True
    return isinstance(a, Attr) and a.name in ("ndim", "size")


def _count_vs_zero(op: str, d: "Poly"):
    """`n < 1`, `n <= 0`, `not n >= 1` say n == 0 and `n > 0`, `n >= 1`, `1 <= n` say n != 0 when n is a count (a non-negative
    integer): one canonical form for the emptiness / scalar-ness tests however they are written."""
    if len(d.terms) > 2:
        return None
    atom = coef = None
    c0 = Fraction(0)
    for m, co in d.terms:
        if m == ():
            c0 = co
        elif len(m) == 1 and m[0][1] == 1 and _is_count(m[0][0]) and atom is None:
            atom, coef = m[0][0], co
        else:
            return None
    if atom is None or coef not in (1, -1) or c0 != int(c0):
        return None
    n = _poly(atom)
    if coef == 1:
        bound = -c0 if op == "<=" else -c0 - 1        # n <= bound
        if bound < 0:
            return FALSE
        if bound == 0:
            return Cmp("==", n)
        return None
    bound = c0 if op == "<=" else c0 + 1               # n >= bound
    if bound <= 0:
        return TRUE
    if bound == 1:
        return Cmp("!=", n)
    return None


def upper_bound(g: T, x: T):
    """b such that, for integer x, `g` is exactly `x <= b`; None if g is not an upper bound on x alone."""
    if not isinstance(g, Cmp) or g.op not in ("<", "<="):
        return None
    try:
        rest = _poly(add(g.poly, neg(x)))
    except Exception:
        return None
    c = rest.const_value()
    if c is None:
        return None
    c = -c            # x - c' OP 0 with c' = -const
    if c != int(c):
        import math
        return math.floor(c) if g.op == "<=" else math.ceil(c) - 1
    return int(c) if g.op == "<=" else int(c) - 1


def negate(g: T) -> T:
    if isinstance(g, Lit) and isinstance(g.value, bool):
        return FALSE if g.value else TRUE
    if isinstance(g, Cmp):
        if g.op == "<":      # not (p < 0)  ==  -p <= 0
            return Cmp("<=", _poly(neg(g.poly)))
        if g.op == "<=":     # not (p <= 0) ==  -p < 0
            return Cmp("<", _poly(neg(g.poly)))
        if g.op == "==":
            return Cmp("!=", g.poly)
        if g.op == "!=":
            return Cmp("==", g.poly)
    if isinstance(g, Not):
        return g.arg
    if isinstance(g, And):
        return Or([negate(p) for p in g.parts])
    if isinstance(g, Or):
        return And([negate(p) for p in g.parts])
    return Not(g)


def conj(parts: Iterable[T]) -> T:
    ps = [p for p in parts if not (isinstance(p, Lit) and p.value is True)]
    if any(isinstance(p, Lit) and p.value is False for p in ps):
        return FALSE
    if not ps:
        return TRUE
    if len(ps) == 1:
        return ps[0]
    return And(ps)


# ---------------------------------------------------------------------------
# ranks and subscripts
class RankEnv:
    """Array rank of symbols (by key).  None = unknown."""

    def __init__(self):
        self.ranks: Dict[str, int] = {}

    def set(self, t: T, r: int):
        self.ranks[t.key] = r

    def rank(self, t: T) -> Optional[int]:
        t = as_term(t)
        if t.key in self.ranks:
            return self.ranks[t.key]
        if isinstance(t, Poly):
            rs = []
            for a in t.atoms():
                r = self.rank(a)
                if r is None:
                    return None
                rs.append(r)
            return max(rs) if rs else 0
        if isinstance(t, Lit):
            return 0
        if isinstance(t, Idx) and isinstance(t.base, App) and t.base.fn in ("numpy.linalg.slogdet",):
            return 0
        if isinstance(t, Idx):
            rb = self.rank(t.base)
            if rb is None:
                return None
            n_int = sum(1 for i in t.idx if not isinstance(i, Slc))
            return max(rb - n_int, 0)
        if isinstance(t, App):
            f = t.fn
            if f in ("numpy.zeros", "numpy.ones", "numpy.empty"):
                shp = t.args[0] if t.args else t.kwarg("shape")
                if isinstance(shp, (Tup, Lst)):
                    return len(shp.elems)
                if isinstance(shp, Attr) and shp.name == "shape":
                    return self.rank(shp.base)
                if shp is not None and self.rank(shp) == 0:
                    return 1
                return None
            if f in ("numpy.argmin", "numpy.argmax", "len", "int", "float", "numpy.trace", "numpy.linalg.norm",
                     "numpy.linalg.det", "math.sqrt", "math.log", "floordiv", "truncdiv", "numpy.log_scalar"):
                return 0
            if f in ("numpy.sum", "numpy.mean", "numpy.median", "numpy.min", "numpy.max"):
                ax = t.kwarg("axis")
                if ax is None and len(t.args) < 2:
                    return 0
                r = self.rank(t.args[0])
                return None if r is None else max(r - 1, 0)
            if f in ("sqrt", "numpy.log", "numpy.abs", "numpy.exp", "numpy.copy", "numpy.asarray", "numpy.array"):
                return self.rank(t.args[0]) if t.args else None
            if f in ("T",):
                return self.rank(t.args[0])
            return None
        if isinstance(t, PW):
            rs = {self.rank(v) for _, v in t.pieces}
            return rs.pop() if len(rs) == 1 else None
        if isinstance(t, Attr) and t.name in ("size", "ndim"):
            return 0
        if isinstance(t, (Cmp,)):
            return self.rank(t.poly)
        if isinstance(t, Grp):
            return self.rank(t.poly)
        return None


_DEFAULT_RANKS = RankEnv()


def canon_idx(idx, keep_slices=False) -> Tuple[T, ...]:
    """One spelling for a subscript tuple: `a[(r, c)]` is `a[r, c]`, and `a[t[0], t[1]]` with t unpacked into exactly these
    components is `a[t]` (the reference spells the scatter `square[table] = vector`)."""
    idx = tuple(idx)
    if len(idx) == 1 and isinstance(idx[0], Tup) and len(idx[0].elems) >= 1:
        idx = tuple(idx[0].elems)
    while not keep_slices and len(idx) >= 2 and isinstance(idx[-1], Slc) and idx[-1].lo is None and idx[-1].hi is None and idx[-1].step is None:
        idx = idx[:-1]                    # a[i, :] is a[i]: trailing full slices select everything that is left
    if len(idx) >= 2 and all(isinstance(i, Idx) and len(i.idx) == 1 and isinstance(i.idx[0], Poly) for i in idx):
        b0 = idx[0].base
        if all(i.base == b0 for i in idx) and [i.idx[0].const_value() for i in idx] == list(range(len(idx))):
            return (b0,)
    return idx


def index(base: T, idx: Tuple[T, ...], ranks: Optional[RankEnv] = None) -> T:
    """base[idx].  Pushes the subscript into element-wise sums when every atom's rank
    is known (NumPy broadcasting: scalars are left alone)."""
    ranks = ranks or _DEFAULT_RANKS
    base = as_term(base)
    if not isinstance(base, (Tup, Lst, Rep, Range, Comp, Cat)):
        idx = canon_idx(idx)              # array subscripts only: a sequence is indexed by one position
    if isinstance(base, PW):
        return PW([(g, index(v, idx, ranks)) for g, v in base.pieces])
    if isinstance(base, App) and base.fn == "numpy.linalg.slogdet" and len(idx) == 1 and isinstance(idx[0], Poly) and idx[0].const_value() == -1:
        idx = (ONE,)                      # slogdet returns (sign, logabsdet): [-1] is [1]
    if isinstance(base, Attr) and base.name == "clusters" and len(idx) == 1 and isinstance(idx[0], Slc) and idx[0].lo is None and idx[0].step is None \
            and idx[0].hi is not None and idx[0].hi == length(base):
        return base                       # clusters[:num_clusters] is the whole cluster list
    if isinstance(base, Rep) and isinstance(base.seq, Lst) and len(base.seq.elems) == 1 and len(idx) == 1 and not isinstance(idx[0], Slc):
        return base.seq.elems[0]                           # ([e] * n)[k] == e for a position k of the list
    if isinstance(base, Range) and len(idx) == 1 and not isinstance(idx[0], Slc):
        return add(base.lo, mul(idx[0], base.step))       # element k of range(lo, hi, step), 0 <= k < len
    if isinstance(base, Tup) and len(idx) == 1:
        cv = idx[0].const_value() if isinstance(idx[0], Poly) else None
        if cv is not None and cv.denominator == 1 and -len(base.elems) <= cv < len(base.elems):
            return base.elems[int(cv)]
    if isinstance(base, Lst) and len(idx) == 1:
        cv = idx[0].const_value() if isinstance(idx[0], Poly) else None
        if cv is not None and cv.denominator == 1 and -len(base.elems) <= cv < len(base.elems):
            return base.elems[int(cv)]
    if isinstance(base, Comp) and not base.conds and base.kind in ("list", "gen") and len(idx) == 1 and not isinstance(idx[0], Slc):
        # element k of [elt(v) for v in range(lo, hi, step)] is elt(lo + k*step)
        if isinstance(base.iter, Range):
            v = add(base.iter.lo, mul(idx[0], base.iter.step))
            return substitute(base.elt, {base.var.key: v})
    if isinstance(base, Cat) and len(base.parts) >= 2 and isinstance(base.parts[0], Lst) and len(base.parts[0].elems) == 1 \
            and len(idx) == 1 and not isinstance(idx[0], Slc) and isinstance(idx[0], (Poly, Sym)):
        # ([e0] + rest)[k]  ==  e0 if k == 0 else rest[k - 1]      (k >= 0: a position in the sequence)
        k = idx[0]
        cv = k.const_value() if isinstance(k, Poly) else None
        rest = base.parts[1] if len(base.parts) == 2 else Cat(base.parts[1:])
        if cv is None:
            zero = compare("==", k, 0)
            return PW([(negate(zero), index(rest, (add(k, -1),), ranks)), (zero, base.parts[0].elems[0])])
        if cv == 0:
            return base.parts[0].elems[0]
        if cv > 0:
            return index(rest, (add(k, -1),), ranks)
    if isinstance(base, Idx) and len(base.idx) == 1 and isinstance(base.idx[0], Slc) and base.idx[0].step is None and base.idx[0].hi is None \
            and base.idx[0].lo is not None and len(idx) == 1 and not isinstance(idx[0], Slc):
        # s[lo:][k] == s[lo + k] for constant lo, k >= 0 (tuple tails from `a, *rest = s`)
        lo_c = base.idx[0].lo.const_value() if isinstance(base.idx[0].lo, Poly) else None
        k_c = idx[0].const_value() if isinstance(idx[0], Poly) else None
        if lo_c is not None and k_c is not None and lo_c >= 0 and k_c >= 0:
            return index(base.base, (add(base.idx[0].lo, idx[0]),), ranks)
    if isinstance(base, Idx) and not any(isinstance(i, Slc) for i in base.idx) and not any(isinstance(i, Slc) for i in idx):
        # A[i][j] == A[i, j] for arrays; keep nested form for unknown ranks (lists of lists)
        rb = ranks.rank(base.base)
        if rb is not None and rb >= len(base.idx) + len(idx):
            return Idx(base.base, base.idx + tuple(idx))
    if isinstance(base, Idx) and base.idx and not any(isinstance(i, Slc) for i in idx):
        # A[i, :][j] == A[i, j]: fill the first full slice
        if any(isinstance(i, Slc) and i.lo is None and i.hi is None and i.step is None for i in base.idx) and len(idx) == 1:
            new = []
            used = False
            for i in base.idx:
                if not used and isinstance(i, Slc) and i.lo is None and i.hi is None and i.step is None:
                    new.append(idx[0])
                    used = True
                else:
                    new.append(i)
            return Idx(base.base, tuple(new))
    if isinstance(base, Poly):
        # distribute over an element-wise expression when all ranks are known
        rs = {a.key: ranks.rank(a) for a in base.atoms()}
        if all(r is not None for r in rs.values()):
            n_int = sum(1 for i in idx if not isinstance(i, Slc))
            acc = ZERO
            ok = True
            for m, c in base.terms:
                term = const(c)
                for a, e in m:
                    r = rs[a.key]
                    ia = a
                    if r >= 1:
                        if r < n_int:
                            ok = False
                            break
                        ia = index(a, idx, ranks)
                    term = mul(term, power(ia, e)) if e >= 0 else div(term, power(ia, -e))
                if not ok:
                    break
                acc = add(acc, term)
            if ok:
                return acc
    if isinstance(base, App) and base.fn in ("numpy.zeros",) and not any(isinstance(i, Slc) for i in idx):
        return ZERO
    if isinstance(base, App) and base.fn in ("numpy.ones",) and not any(isinstance(i, Slc) for i in idx):
        return ONE
    return Idx(base, idx)


# ---------------------------------------------------------------------------
# applications with a few justified rewrites
# leading parameters of library functions: an argument passed by its keyword is the positional argument (`np.zeros(shape=s)` is
# `np.zeros(s)`, `np.sum(a=x)` is `np.sum(x)`); only names listed here are moved, in order, when the positions before them are filled
LEADING_PARAMS = {
    "numpy.zeros": ("shape",), "numpy.ones": ("shape",), "numpy.empty": ("shape",), "numpy.full": ("shape", "fill_value"),
    "numpy.zeros_like": ("a",), "numpy.ones_like": ("a",), "numpy.empty_like": ("prototype",), "numpy.full_like": ("a", "fill_value"),
    "numpy.sum": ("a",), "numpy.mean": ("a",), "numpy.median": ("a",), "numpy.cov": ("m",), "numpy.diag": ("v",),
    "numpy.diagonal": ("a",), "numpy.transpose": ("a",), "numpy.copy": ("a",), "numpy.abs": ("x",), "numpy.absolute": ("x",),
    "numpy.sqrt": ("x",), "numpy.log": ("x",), "numpy.square": ("x",), "numpy.dot": ("a", "b"), "numpy.matmul": ("x1", "x2"),
    "numpy.vstack": ("tup",), "numpy.hstack": ("tup",), "numpy.concatenate": ("arrays",), "numpy.triu_indices": ("n",),
    "numpy.argmin": ("a",), "numpy.argmax": ("a",), "numpy.min": ("a",), "numpy.max": ("a",), "numpy.trace": ("a",),
    "numpy.count_nonzero": ("a",), "numpy.ndim": ("a",), "numpy.array": ("object",), "numpy.asarray": ("a",),
    "numpy.linalg.eigh": ("a",), "numpy.linalg.slogdet": ("a",), "numpy.linalg.det": ("a",), "numpy.linalg.inv": ("a",),
    "numpy.linalg.norm": ("x",), "numpy.linalg.cholesky": ("a",), "random.sample": ("population", "k"),
    "numpy.isclose": ("a", "b"), "numpy.allclose": ("a", "b"), "numpy.outer": ("a", "b"),
}


_NP_COMPARISONS = {"numpy.less": "<", "numpy.greater": ">", "numpy.less_equal": "<=", "numpy.greater_equal": ">=",
                   "numpy.equal": "==", "numpy.not_equal": "!="}


def _is_default_float(t) -> bool:
    t = as_term(t)
    if isinstance(t, Sym):
        return t.name in ("numpy.float64", "numpy.double", "numpy.float_", "builtins.float", "float")
    return isinstance(t, Lit) and t.value in ("float64", "float", "d", "f8", "double")


# keyword defaults of library calls, as documented by NumPy: writing them out changes nothing
KNOWN_DEFAULTS = {
    "numpy.linalg.norm": {"ord": None, "axis": None, "keepdims": False},
    "numpy.triu_indices": {"k": 0, "m": None},
    "numpy.cov": {"rowvar": True, "y": None, "fweights": None, "aweights": None},
    "numpy.sum": {"keepdims": False}, "numpy.mean": {"keepdims": False}, "numpy.median": {"keepdims": False},
    "numpy.argmin": {"keepdims": False}, "numpy.argmax": {"keepdims": False},
    "numpy.trace": {"offset": 0}, "numpy.diag": {"k": 0},
    "numpy.concatenate": {"axis": 0}, "numpy.copy": {"subok": False},
}


def make_app(fn: str, args, kw=None) -> T:
    args = [as_term(a) for a in args]
    kw = dict(kw or {})
    if fn in ("numpy.zeros", "numpy.ones", "numpy.empty") and len(args) == 2 and "dtype" not in kw:
        kw["dtype"] = args[1]           # np.zeros(shape, np.uint16): the second positional parameter is dtype
        args = args[:1]
    if fn in ("numpy.zeros", "numpy.ones", "numpy.empty") and "dtype" in kw and _is_default_float(kw["dtype"]):
        kw.pop("dtype")                 # float64 is what these constructors produce anyway
    lead = LEADING_PARAMS.get(fn)
    if lead and kw:
        while len(args) < len(lead) and lead[len(args)] in kw:
            args.append(as_term(kw.pop(lead[len(args)])))
    if fn == "itertools.accumulate" and len(args) == 2 and not kw and isinstance(args[1], Sym) and args[1].name == "operator.add":
        args = args[:1]                              # addition is accumulate's default
    if fn == "numpy.diagonal" and len(args) == 1 and not kw:
        return App("diagonal", (args[0],))          # np.diagonal(a) is a.diagonal()
    if fn in ("numpy.square",) and len(args) == 1:
        return mul(args[0], args[0])
    if fn in _NP_COMPARISONS and len(args) == 2 and not kw:
        return compare(_NP_COMPARISONS[fn], args[0], args[1])          # np.less(d, 0) is d < 0
    if fn == "builtins.slice" and 1 <= len(args) <= 3 and not kw:
        none = lambda t_: None if (isinstance(t_, Lit) and t_.value is None) else t_
        if len(args) == 1:
            return Slc(None, none(args[0]), None)
        return Slc(none(args[0]), none(args[1]), none(args[2]) if len(args) == 3 else None)
    for k_, dv in KNOWN_DEFAULTS.get(fn, {}).items():
        v_ = kw.get(k_)
        if v_ is not None and ((isinstance(v_, Lit) and v_.value is dv and dv is None) or
                               (isinstance(v_, Lit) and isinstance(dv, bool) and v_.value is dv) or
                               (isinstance(v_, Poly) and not isinstance(dv, bool) and dv is not None and v_.const_value() == dv)):
            kw.pop(k_)                  # the library's own default, spelled out
    if "axis" in kw and isinstance(kw["axis"], Lit) and kw["axis"].value is None and fn in ("numpy.mean", "numpy.sum", "numpy.median", "numpy.max", "numpy.min",
                                                                                             "numpy.argmin", "numpy.argmax", "numpy.std", "numpy.var"):
        kw.pop("axis")                  # the default, spelled out
    if fn == "numpy.power" and len(args) == 2 and not kw and isinstance(args[1], Poly) and args[1].const_value() is not None:
        e_ = args[1].const_value()
        if e_.denominator == 1 and 0 <= e_ <= 6:
            return power(args[0], int(e_))
        if e_ == Fraction(1, 2):
            return sqrt(args[0])
    if fn == "numpy.full" and len(args) == 2 and set(kw) <= {"dtype"} and isinstance(args[1], Poly) and args[1].const_value() in (0, 1):
        # np.full(shape, 0.0) is np.zeros(shape), np.full(shape, 1.0) is np.ones(shape)
        return make_app("numpy.zeros" if args[1].const_value() == 0 else "numpy.ones", [args[0]], kw)
    if set(kw) == {"out"} and fn in ("numpy.negative", "numpy.add", "numpy.subtract", "numpy.multiply"):
        kw = {}       # the *value* of the call is the same with or without an output buffer (the write is the ownership analysis' business)
    if fn in ("numpy.negative",) and len(args) == 1 and not kw:
        return neg(args[0])
    if fn in ("numpy.add", "numpy.subtract", "numpy.multiply") and len(args) == 2 and not kw:
        return {"numpy.add": add, "numpy.subtract": lambda a, b: add(a, neg(b)), "numpy.multiply": mul}[fn](args[0], args[1])
    if fn in ("numpy.sqrt", "math.sqrt", "sqrt") and len(args) == 1:
        return sqrt(args[0])
    if fn == "math.isqrt" and len(args) == 1 and not kw:
        t = sqrt(args[0])
        if isinstance(t, Poly) and not any(isinstance(x, App) for x in subterms(t)):
            return t                 # integer square root of a perfect square
        return App(fn, args)
    if fn == "truncdiv" and len(args) == 2:
        return to_int(div(args[0], args[1]))
    if fn == "int" and len(args) == 1:
        return to_int(args[0])
    if fn in ("numpy.transpose",) and len(args) == 1 and not kw:
        return transpose(args[0])
    if fn in ("numpy.dot", "numpy.matmul") and len(args) == 2:
        return App("matmul", args)
    if fn in ("numpy.abs", "numpy.absolute", "builtins.abs") and len(args) == 1:
        return App("abs", args)
    if fn in ("numpy.log", "math.log") and len(args) == 1:
        if isinstance(args[0], App) and args[0].fn == "float" and len(args[0].args) == 1 and _is_python_int(args[0].args[0]):
            return App("log", (args[0].args[0],))        # log(float(len(x))) is log(len(x))
        return App("log", args)
    if fn == "builtins.len" and len(args) == 1:
        return length(args[0])
    if fn == "builtins.int" and len(args) == 1:
        return to_int(args[0])
    if fn == "builtins.float" and len(args) == 1:
        return App("float", args)
    if fn == "builtins.range":
        if len(args) == 1:
            return Range(ZERO, args[0])
        if len(args) == 2:
            return Range(args[0], args[1])
        if len(args) == 3:
            return Range(args[0], args[1], args[2])
    if fn == "builtins.reversed" and len(args) == 1 and isinstance(args[0], Range):
        r = args[0]
        if r.step == ONE:
            # reversed(range(lo, hi)) == range(hi-1, lo-1, -1)
            return Range(add(r.hi, const(-1)), add(r.lo, const(-1)), const(-1))
    if fn in ("builtins.max", "builtins.min") and len(args) == 2 and not kw:
        # commutative
        a, b = sorted(args, key=lambda t: t.key)
        return App(fn.split(".")[1], (a, b))
    if fn == "floordiv" and len(args) == 2:
        return floordiv(args[0], args[1])
    if fn in ("builtins.zip", "builtins.map", "builtins.enumerate") and not kw:
        z = _zip_like(fn, args)
        if z is not None:
            return z
    if fn in ("builtins.list", "builtins.tuple") and len(args) == 1 and isinstance(args[0], Comp) and args[0].kind == "gen":
        c = args[0]
        return Comp(c.elt, c.var, c.iter, c.conds, "list")     # materialised generator
    if fn == "builtins.list" and len(args) == 1 and isinstance(args[0], (Lst, Cat, Rep, Comp)):
        return args[0]
    if fn == "builtins.tuple" and len(args) == 1 and not kw and isinstance(args[0], App) and args[0].fn in ("numpy.triu_indices", "numpy.tril_indices", "numpy.shape"):
        return args[0]                  # already a tuple
    return App(fn, args, kw)


_ZIPVAR = [0]


def _is_seq_term(t: T) -> bool:
    if isinstance(t, Rep):
        return isinstance(t.seq, Lst) and len(t.seq.elems) == 1
    return isinstance(t, (Range, Comp, Lst)) and not (isinstance(t, Comp) and (t.conds or t.kind not in ("list", "gen")))


def _zip_like(fn: str, args) -> Optional[T]:
    """zip(A, B, ..), map(f, A, B, ..), enumerate(A) over sequences whose length is known symbolically: a generator-kind
    comprehension over the common index range.  zip(*[ (a_k, b_k) for k ]) is the pair of the component lists."""
    if fn == "builtins.zip" and len(args) == 1 and isinstance(args[0], App) and args[0].fn == "*" and len(args[0].args) == 1:
        inner = args[0].args[0]
        if isinstance(inner, Comp) and not inner.conds and isinstance(inner.elt, Tup):
            return Tup([Comp(e, inner.var, inner.iter, [], "list") for e in inner.elt.elems])
        return None
    if fn == "builtins.map" and len(args) == 2 and isinstance(args[0], Sym) and args[0].name in ("builtins.list", "builtins.tuple") \
            and isinstance(args[1], Tup) and all(isinstance(c, Comp) for c in args[1].elems):
        # map(list, zip(*pairs)): the component sequences themselves, as lists
        return Tup([make_app(args[0].name, [c]) for c in args[1].elems])
    f = None
    seqs = list(args)
    if fn == "builtins.map":
        if len(args) < 2 or not isinstance(args[0], Sym):
            return None
        f, seqs = args[0], list(args[1:])
    if not seqs or not all(_is_seq_term(a) for a in seqs):
        return None
    n = length(seqs[0])
    if any(length(a) != n for a in seqs[1:]):
        return None
    if isinstance(n, App):
        return None
    _ZIPVAR[0] += 1
    k = Sym(f"$z{_ZIPVAR[0]}")
    elems = [index(a, (k,)) for a in seqs]
    if fn == "builtins.zip":
        elt = Tup(elems)
    elif fn == "builtins.enumerate":
        elt = Tup([k, elems[0]])
    else:
        elt = App(f.name, elems)
    return Comp(elt, k, Range(ZERO, n), [], "gen")


def transpose(x: T) -> T:
    x = as_term(x)
    if isinstance(x, App) and x.fn == "T":
        return x.args[0]
    if isinstance(x, App) and x.fn == "numpy.diag":
        return x
    if isinstance(x, Poly) and len(x.terms) > 1:
        acc = ZERO
        for m, c in x.terms:
            if len(m) == 1 and m[0][1] == 1:
                acc = add(acc, mul(const(c), transpose(m[0][0])))
            elif not m:
                acc = add(acc, const(c))
            else:
                return App("T", (x,))
        return acc
    return App("T", (x,))


def length(s: T) -> T:
    if isinstance(s, Lst):
        return const(len(s.elems))
    if isinstance(s, Rep):
        return mul(length(s.seq), s.count)
    if isinstance(s, Cat):
        acc = ZERO
        for p in s.parts:
            acc = add(acc, length(p))
        return acc
    if isinstance(s, Comp) and not s.conds:
        return length(s.iter)
    if isinstance(s, Range):
        if s.step == ONE:
            return add(s.hi, neg(s.lo))  # assumes hi >= lo (recorded by the rules that use it)
        span = add(s.hi, neg(s.lo))
        q = _exact_quotient(span, s.step)
        if q is not None:
            return q                      # range(lo, lo + q*step, step) has q elements (step > 0, q >= 0)
        q1 = _exact_quotient(add(span, const(-1)), s.step)
        if q1 is not None:
            return add(q1, ONE)           # range(lo, lo + q*step + 1, step): ceil((q*step + 1) / step) = q + 1 for step >= 1
        return App("len", (s,))
    if isinstance(s, App) and s.fn in ("numpy.zeros", "numpy.ones", "numpy.empty", "numpy.full"):
        shp = s.args[0] if s.args else dict(s.kw).get("shape") if s.kw else None
        if isinstance(shp, (Lst, Tup)) and shp.elems:
            return as_term(shp.elems[0])
        if isinstance(shp, Attr) and shp.name == "shape":
            return Idx(shp, (ZERO,))
    if isinstance(s, Attr) and s.name == "clusters":
        # a model state holds one ClusterParameters per cluster id: len(state.clusters) is state.arguments.num_clusters (the list is
        # created with K entries - C13 `K:empty-model` - and every write to it keeps its length - C13.R6); one spelling for both
        return Attr(Attr(s.base, "arguments"), "num_clusters")
    return App("len", (s,))


def _exact_quotient(num: T, den: T) -> Optional[T]:
    """num / den when den is a single symbol (or a positive constant) that divides every term of the polynomial num."""
    num, den = as_term(num), as_term(den)
    if not isinstance(num, Poly):
        return None
    dc = den.const_value() if isinstance(den, Poly) else None
    if dc is not None:
        if dc > 0 and all((c / dc).denominator == 1 for _m, c in num.terms):
            return div(num, den)
        return None
    atom = None
    if isinstance(den, Poly) and len(den.terms) == 1 and len(den.terms[0][0]) == 1 and den.terms[0][0][0][1] == 1 and den.terms[0][1] == 1:
        atom = den.terms[0][0][0][0]
    elif isinstance(den, (Sym, Idx, Attr)):
        atom = den
    if atom is None or not num.terms:
        return None
    for mono, _c in num.terms:
        if not any(a == atom and e >= 1 for a, e in mono):
            return None
    return div(num, den)


def _always_divisible(num: T, den: int) -> bool:
    """num (a polynomial with integer coefficients in index-like atoms) is a multiple of den for every integer assignment:
    decided by evaluating it modulo den over all residues of its atoms (r*(r-1), n*(n+1) are even ...)."""
    if not isinstance(num, Poly) or den <= 1 or den > 6:
        return False
    atoms = []
    for mono, c in num.terms:
        if c.denominator != 1:
            return False
        for a, e in mono:
            if not isinstance(a, (Sym, Idx, Attr)) or e < 0 or e != int(e):
                return False
            if a.key not in [x.key for x in atoms]:
                atoms.append(a)
    if len(atoms) > 6:
        return False
    import itertools
    for vals in itertools.product(range(den), repeat=len(atoms)):
        env = {a.key: v for a, v in zip(atoms, vals)}
        tot = 0
        for mono, c in num.terms:
            t = int(c)
            for a, e in mono:
                t *= env[a.key] ** int(e)
            tot += t
        if tot % den:
            return False
    return True


def _is_python_int(a: T) -> bool:
    """len(x) and x.shape[k] are Python ints already: int() of them is the identity."""
    if isinstance(a, App) and a.fn in ("len", "builtins.len") and len(a.args) == 1:
        return True
    return isinstance(a, Idx) and isinstance(a.base, Attr) and a.base.name == "shape" and len(a.idx) == 1 and isinstance(a.idx[0], Poly) \
        and a.idx[0].const_value() is not None


def to_int(x: T) -> T:
    """int(x).  int(p / c) for a positive integer constant c is truncdiv(p, c) - or exactly p / c when p is always a
    multiple of c."""
    if _is_python_int(x):
        return x
    if isinstance(x, App) and x.fn in ("numpy.argmin", "numpy.argmax"):
        return x                        # an index already (used as a subscript and stored in an integer table)
    if isinstance(x, Poly) and len(x.terms) == 1 and x.terms[0][1] == 1 and len(x.terms[0][0]) == 1 and x.terms[0][0][0][1] == 1 \
            and _is_python_int(x.terms[0][0][0][0]):
        return x
    if isinstance(x, Poly):
        cv = x.const_value()
        if cv is not None:
            return const(int(cv))
        # common denominator
        den = 1
        for _m, c in x.terms:
            den = den * c.denominator // _gcd(den, c.denominator)
        if den == 1:
            # integer combination of atoms: int() is the identity on integers; kept explicit
            return App("int", (x,))
        num = mul(x, const(den))
        if _always_divisible(num, den):
            return App("int", (x,))
        return App("truncdiv", (num, const(den)))
    return App("int", (x,))


def _gcd(a, b):
    while b:
        a, b = b, a % b
    return a


def floordiv(a, b) -> T:
    a, b = as_term(a), as_term(b)
    bc = b.const_value() if isinstance(b, Poly) else None
    if bc is not None and bc.denominator == 1 and bc > 0 and _always_divisible(a, int(bc)):
        return div(a, b)           # exact: the quotient is the polynomial a / b
    return App("floordiv", (a, b))


def choose(c: T, a: T, b: T) -> T:
    """`a if c else b`.  `x if x >= y else y` (and its mirror images) is max(x, y) / min(x, y): same value for all ordered
    operands; piecewise terms with equal arms collapse."""
    a, b = as_term(a), as_term(b)
    if a == b:
        return a
    if isinstance(c, Cmp) and c.op in ("<", "<="):
        # c says  p OP 0  with p = lhs - rhs;  test the two orientations a - b and b - a
        try:
            d_ab = _poly(add(a, neg(b)))
            d_ba = _poly(add(b, neg(a)))
        except Exception:
            d_ab = d_ba = None
        if d_ab is not None:
            if c.poly == d_ab:          # a - b <(=) 0  ->  a   else b        : the smaller one
                return App("min", tuple(sorted((a, b), key=lambda t: t.key)))
            if c.poly == d_ba:          # b - a <(=) 0  ->  a   else b        : the larger one
                return App("max", tuple(sorted((a, b), key=lambda t: t.key)))
    return PW([(c, a), (negate(c), b)])


def _boolish(t: T) -> bool:
    return isinstance(t, (Cmp, And, Or, Not)) or (isinstance(t, Lit) and isinstance(t.value, bool))


def piecewise(pieces) -> T:
    """PW with the simplifications that make `flag = A; if flag: flag = B` read as A and B: under the guard g a value that is g
    itself is True and one that is not-g is False; {g -> B, not g -> False} is g and B; {g -> True, not g -> B} is g or B;
    a two-armed choice goes through choose() (max / min / equal arms)."""
    ps = []
    for g, v in pieces:
        if _boolish(v) and _boolish(g):
            if v.key == g.key:
                v = TRUE
            elif v.key == negate(g).key:
                v = FALSE
        ps.append((g, v))
    if len(ps) == 2 and ps[0][0].key == negate(ps[1][0]).key:
        (g, a), (_ng, b) = ps
        if _boolish(a) and b == FALSE:
            return conj([g, a])
        if _boolish(b) and a == FALSE:
            return conj([negate(g), b])
        if a == TRUE and _boolish(b):
            return Or([g, b])
        if b == TRUE and _boolish(a):
            return Or([negate(g), a])
        return choose(g, a, b)
    return PW(ps)


VALUE_COPIES = ("numpy.copy", "copy.copy", "copy.deepcopy")


def strip_copies(t: T) -> T:
    """The same term with value-preserving copies removed (`np.copy(x)`, `x.copy()`, `copy.copy(x)` denote the value of x).  For
    comparing *values* only: whether a copy is taken matters to the ownership analysis, not to a formula."""
    t = as_term(t)
    if not any(isinstance(x, App) and x.fn in VALUE_COPIES for x in subterms(t)):
        return t

    def walk(u):
        if isinstance(u, App) and u.fn in VALUE_COPIES and len(u.args) == 1 and not u.kw:
            return walk(u.args[0])
        return u
    mapping = {}
    for x in subterms(t):
        if isinstance(x, App) and x.fn in VALUE_COPIES and len(x.args) == 1 and not x.kw:
            mapping[x.key] = walk(x)
    out = t
    for _ in range(4):
        nxt = substitute(out, mapping)
        if nxt == out:
            break
        out = nxt
    return out


def unshallow(t: T) -> T:
    """Field reads through a fresh shallow copy are reads of the original's fields (the same objects): rewrite
    `C.shallow_copy(x).f` to `x.f` everywhere in a term that only *reads*."""
    t = as_term(t)
    mapping = {}
    for x in subterms(t):
        if isinstance(x, Attr) and isinstance(x.base, App) and x.base.fn.endswith(".shallow_copy") and len(x.base.args) == 1 and not x.base.kw:
            mapping[x.key] = Attr(x.base.args[0], x.name)
    if not mapping:
        return t
    out = t
    for _ in range(3):
        nxt = substitute(out, mapping)
        if nxt == out:
            break
        out = nxt
    return out


def truth(g: T):
    """True / False when the guard has a value after constant folding, None otherwise."""
    if isinstance(g, Lit) and isinstance(g.value, bool):
        return g.value
    if isinstance(g, And):
        vs = [truth(p) for p in g.parts]
        if any(v is False for v in vs):
            return False
        return True if all(v is True for v in vs) else None
    if isinstance(g, Or):
        vs = [truth(p) for p in g.parts]
        if any(v is True for v in vs):
            return True
        return False if all(v is False for v in vs) else None
    if isinstance(g, Not):
        v = truth(g.arg)
        return None if v is None else (not v)
    return None


def _thresholds(g: T, x: T):
    """The integers around which a guard over the single integer unknown x can change its value; None when some comparison in the
    guard is not of the form a*x + c OP 0 with rational constants (then nothing is decided)."""
    import math
    pts = set()
    for c in subterms(g):
        if isinstance(c, Cmp):
            p = c.poly
            a = b = Fraction(0)
            for m, co in p.terms:
                if m == ():
                    b = co
                elif len(m) == 1 and m[0][0] == x and m[0][1] == 1:
                    a = co
                else:
                    return None
            if a == 0:
                return None
            r = -b / a
            pts.update({math.floor(r) - 1, math.floor(r), math.floor(r) + 1, math.ceil(r), math.ceil(r) + 1})
        elif not isinstance(c, (And, Or, Not, Lit, Poly, Sym)) and _boolish(c):
            return None
    return pts


def pw_equiv(a: T, b: T, x: T, lo=None, hi=None) -> bool:
    """Do the two (piecewise) terms denote the same function of the integer x on lo <= x (<= hi)?  Decided exactly when every guard is
    a Boolean combination of comparisons of x with constants: between two consecutive thresholds every guard is constant, so it is
    enough to look at the integers around the thresholds.  `i == 0 -> 0, i != 0 -> e[i-1]` and `i >= 1 -> e[i-1], else 0` agree on
    i >= 0.  Anything else falls back to structural equality."""
    a, b = as_term(a), as_term(b)
    if a == b:
        return True
    pa, pb = pieces_of(a), pieces_of(b)
    pts = set()
    for g, _v in pa + pb:
        if truth(g) is True:
            continue
        t = _thresholds(g, x)
        if t is None:
            return False
        pts |= t
    if lo is not None:
        pts = {p for p in pts if p >= lo} | {lo}
    if hi is not None:
        pts = {p for p in pts if p <= hi} | {hi}
    if not pts:
        pts = {0}

    def at(pieces, p):
        hit = [v for g, v in pieces if truth(substitute(g, {x.key: const(p)})) is True]
        und = [v for g, v in pieces if truth(substitute(g, {x.key: const(p)})) is None]
        if len(hit) != 1 or und:
            return None
        return hit[0]
    for p in sorted(pts):
        va, vb = at(pa, p), at(pb, p)
        if va is None or vb is None:
            return False
        if va != vb and substitute(va, {x.key: const(p)}) != substitute(vb, {x.key: const(p)}):
            return False
    return True


def pieces_of(t: T) -> List[Tuple[T, T]]:
    """Flatten top-level piecewise structure: list of (guard, value)."""
    if isinstance(t, PW):
        out = []
        for g, v in t.pieces:
            for g2, v2 in pieces_of(v):
                out.append((conj([g, g2]), v2))
        return out
    return [(TRUE, t)]
