"""L2/L3: statement-level control-flow graph with exceptional edges, dominators,
path conditions and reaching definitions.

Node kinds
  entry, exit, exc_exit     function boundaries (normal return / propagating exception)
  stmt                      a simple statement (Assign, AugAssign, AnnAssign, Expr, Return,
                            Raise, Assert, Pass, Break, Continue, Delete, Import, nested def)
  test                      the test of an If / While
  branch                    pseudo node on the true/false edge of a test (carries polarity)
  for                       the header of a For: evaluates the iterable once per entry and
                            binds the target on every iteration
  for_exit                  pseudo node on the exhaustion edge of a For
  handler                   entry of an except clause (binds the `as` name)
  with_enter / with_exit    context-manager entry / exit (exit runs on every way out)
"""
from __future__ import annotations

import ast
from dataclasses import dataclass, field
from typing import Dict, List, Optional, Set, Tuple

from .loader import AnalysisError, FuncInfo

# methods that release a resource and are assumed not to raise (DESIGN 5/C20 assumption)
NO_RAISE_METHODS = {"close", "terminate", "join"}


@dataclass
class Node:
    id: int
    kind: str
    ast: Optional[ast.AST] = None
    polarity: Optional[bool] = None  # for branch nodes
    note: str = ""
    defs: List[str] = field(default_factory=list)
    lineno: int = 0

    def __hash__(self):
        return self.id

    def __repr__(self):
        src = ""
        if self.ast is not None and self.kind in ("stmt",):
            src = ast.unparse(self.ast).split("\n")[0][:50]
        elif self.ast is not None and self.kind in ("test", "branch") and hasattr(self.ast, "test"):
            src = ast.unparse(self.ast.test)[:50]
        elif self.ast is not None and self.kind in ("for", "for_exit", "for_init"):
            src = "for " + ast.unparse(self.ast.target) + " in " + ast.unparse(self.ast.iter)[:40]
        return f"<{self.id}:{self.kind}{'' if self.polarity is None else ':' + str(self.polarity)} L{self.lineno} {src}>"


def _names_in_target(t) -> List[str]:
    out = []
    if isinstance(t, ast.Name):
        out.append(t.id)
    elif isinstance(t, (ast.Tuple, ast.List)):
        for e in t.elts:
            out += _names_in_target(e)
    elif isinstance(t, ast.Starred):
        out += _names_in_target(t.value)
    return out


def may_raise(node: ast.AST) -> bool:
    """Conservative: anything that evaluates a call, subscript, attribute, arithmetic,
    comparison, assert or raise may raise.  Release calls are assumed not to."""
    if isinstance(node, (ast.Pass, ast.Break, ast.Continue, ast.Global, ast.Nonlocal)):
        return False
    if isinstance(node, (ast.FunctionDef, ast.ClassDef)):
        return False
    if isinstance(node, ast.Expr) and isinstance(node.value, ast.Call):
        f = node.value.func
        if isinstance(f, ast.Attribute) and f.attr in NO_RAISE_METHODS and not node.value.args:
            return False
    if isinstance(node, ast.Expr) and isinstance(node.value, ast.Constant):
        return False
    if isinstance(node, ast.Expr) and isinstance(node.value, ast.Call):
        f = node.value.func
        # logger.debug("fmt", name, ...) with plain names / constants as arguments evaluates nothing that can fail
        if isinstance(f, ast.Attribute) and f.attr in ("debug", "info", "warning", "error", "critical", "exception") \
                and isinstance(f.value, ast.Name) and f.value.id.lower().endswith("logger") \
                and all(isinstance(a, (ast.Name, ast.Constant)) for a in node.value.args) and not node.value.keywords:
            return False
    for n in ast.walk(node):
        if isinstance(n, (ast.Call, ast.Subscript, ast.Attribute, ast.BinOp, ast.Compare, ast.Assert,
                          ast.Raise, ast.UnaryOp, ast.Await, ast.Starred)):
            return True
    if isinstance(node, ast.Return):
        return False
    return False


class CFG:
    def __init__(self, fi: FuncInfo):
        self.fi = fi
        self.nodes: List[Node] = []
        self.succ: Dict[int, List[Tuple[int, str]]] = {}
        self.pred: Dict[int, List[Tuple[int, str]]] = {}
        self.entry = self._new("entry")
        self.exit = self._new("exit")
        self.exc_exit = self._new("exc_exit")
        self.stmt_node: Dict[int, Node] = {}  # id(ast stmt) -> node (first node of the statement)
        self.expr_node: Dict[int, Node] = {}  # id(any ast expr evaluated by a node) -> node
        self.for_init: Dict[int, Node] = {}   # id(For stmt) -> node evaluating its iterable
        self._build()
        self._dom = None
        self._pdom = None

    # -------------------------------------------------------------- building
    def _new(self, kind, astn=None, **kw) -> Node:
        n = Node(len(self.nodes), kind, astn, **kw)
        n.lineno = getattr(astn, "lineno", 0) or 0
        self.nodes.append(n)
        self.succ[n.id] = []
        self.pred[n.id] = []
        return n

    def _edge(self, a: Node, b: Node, kind="n"):
        if (b.id, kind) not in self.succ[a.id]:
            self.succ[a.id].append((b.id, kind))
            self.pred[b.id].append((a.id, kind))

    def _own_exprs(self, node: Node, *exprs):
        for e in exprs:
            if e is None:
                continue
            for sub in ast.walk(e):
                self.expr_node[id(sub)] = node

    def _build(self):
        # frames: stack of dicts describing enclosing loop / try / with contexts
        ctx = _Ctx(handlers=[], loops=[], finals=[])
        ends = self._block(self.fi.node.body, [self.entry], ctx)
        for e in ends:
            self._edge(e, self.exit)

    def _raise_target(self, src: Node, ctx: "_Ctx"):
        """Connect an exceptional edge from src to the innermost handler context."""
        if ctx.handlers:
            for h in ctx.handlers[-1]:
                self._edge(src, h, "e")
        else:
            self._edge(src, self.exc_exit, "e")

    def _block(self, stmts, preds: List[Node], ctx: "_Ctx") -> List[Node]:
        cur = preds
        for st in stmts:
            if not cur:
                # unreachable code after return/raise/break: still build it so that anchors exist
                cur = []
            cur = self._stmt(st, cur, ctx)
        return cur

    def _link(self, preds, node):
        for p in preds:
            self._edge(p, node)

    def _stmt(self, st, preds, ctx) -> List[Node]:
        if isinstance(st, ast.If):
            t = self._new("test", st)
            self.stmt_node[id(st)] = t
            self._own_exprs(t, st.test)
            self._link(preds, t)
            if may_raise(st.test):
                self._raise_target(t, ctx)
            bt = self._new("branch", st, polarity=True)
            bf = self._new("branch", st, polarity=False)
            self._edge(t, bt)
            self._edge(t, bf)
            e1 = self._block(st.body, [bt], ctx)
            e2 = self._block(st.orelse, [bf], ctx) if st.orelse else [bf]
            return e1 + e2
        if isinstance(st, ast.While):
            t = self._new("test", st)
            self.stmt_node[id(st)] = t
            self._own_exprs(t, st.test)
            self._link(preds, t)
            if may_raise(st.test):
                self._raise_target(t, ctx)
            bt = self._new("branch", st, polarity=True)
            bf = self._new("branch", st, polarity=False)
            self._edge(t, bt)
            self._edge(t, bf)
            loop = {"continue": t, "breaks": []}
            ctx2 = ctx.push_loop(loop)
            e = self._block(st.body, [bt], ctx2)
            self._link(e, t)
            ends = self._block(st.orelse, [bf], ctx) if st.orelse else [bf]
            return ends + loop["breaks"]
        if isinstance(st, ast.For):
            init = self._new("for_init", st)   # evaluates the iterable once
            self._own_exprs(init, st.iter)
            self._link(preds, init)
            self._raise_target(init, ctx)
            self.for_init[id(st)] = init
            h = self._new("for", st)
            h.defs = _names_in_target(st.target)
            self.stmt_node[id(st)] = h
            self._own_exprs(h, st.target)
            self._edge(init, h)
            self._raise_target(h, ctx)  # the iterator protocol may raise
            fx = self._new("for_exit", st)
            self._edge(h, fx)
            body_in = self._new("branch", st, polarity=True, note="iter")
            self._edge(h, body_in)
            loop = {"continue": h, "breaks": []}
            ctx2 = ctx.push_loop(loop)
            e = self._block(st.body, [body_in], ctx2)
            self._link(e, h)
            ends = self._block(st.orelse, [fx], ctx) if st.orelse else [fx]
            return ends + loop["breaks"]
        if isinstance(st, ast.Try):
            return self._try(st, preds, ctx)
        if isinstance(st, ast.With):
            return self._with(st, preds, ctx)
        if type(st).__name__ in ("Match", "AsyncFor", "AsyncWith", "TryStar", "AsyncFunctionDef"):
            raise AnalysisError(f"{self.fi.relfile}:{st.lineno}: statement kind {type(st).__name__} is outside the supported fragment")
        # simple statement
        n = self._new("stmt", st)
        self.stmt_node[id(st)] = n
        self._link(preds, n)
        if isinstance(st, ast.Assign):
            for t in st.targets:
                n.defs += _names_in_target(t)
            self._own_exprs(n, st.value, *st.targets)
        elif isinstance(st, ast.AugAssign):
            n.defs += _names_in_target(st.target)
            self._own_exprs(n, st.value, st.target)
        elif isinstance(st, ast.AnnAssign):
            if st.value is not None:
                n.defs += _names_in_target(st.target)
            self._own_exprs(n, st.value, st.target)
        elif isinstance(st, (ast.FunctionDef, ast.ClassDef)):
            n.defs.append(st.name)
        elif isinstance(st, (ast.Import, ast.ImportFrom)):
            for a in st.names:
                n.defs.append((a.asname or a.name).split(".")[0])
        else:
            for ch in ast.iter_child_nodes(st):
                if isinstance(ch, ast.expr):
                    self._own_exprs(n, ch)
        if may_raise(st):
            self._raise_target(n, ctx)
        if isinstance(st, ast.Return):
            self._jump(n, ctx, "return")
            return []
        if isinstance(st, ast.Raise):
            return []
        if isinstance(st, ast.Break):
            if not ctx.loops:
                raise AnalysisError("break outside loop")
            self._jump(n, ctx, "break")
            return []
        if isinstance(st, ast.Continue):
            self._jump(n, ctx, "continue")
            return []
        return [n]

    def _jump(self, n: Node, ctx: "_Ctx", kind: str):
        """return / break / continue, running enclosing finally blocks / with exits on the way."""
        cur = [n]
        # finals are recorded innermost-last together with the loop depth at their creation
        for fin in reversed(ctx.finals):
            if kind in ("break", "continue") and fin["loop_depth"] < len(ctx.loops):
                # the finally encloses the loop we are leaving: not crossed
                break
            cur = fin["emit"](cur)
        if kind == "return":
            for c in cur:
                self._edge(c, self.exit)
        elif kind == "break":
            ctx.loops[-1]["breaks"].extend(cur)
        else:
            for c in cur:
                self._edge(c, ctx.loops[-1]["continue"])

    def _try(self, st: ast.Try, preds, ctx) -> List[Node]:
        has_final = bool(st.finalbody)
        outer_ctx = ctx

        def emit_final(cur_preds, c=outer_ctx):
            return self._block(st.finalbody, list(cur_preds), c)

        # exceptional finally copy: runs then re-raises outward
        fin_exc_entry = None
        if has_final:
            fin_exc_entry = self._new("stmt", ast.Pass(), note="finally(exc)")
            fe = self._block(st.finalbody, [fin_exc_entry], outer_ctx)
            for e in fe:
                self._raise_target(e, outer_ctx)
        handler_nodes = []
        for h in st.handlers:
            hn = self._new("handler", h)
            hn.lineno = h.lineno
            if h.name:
                hn.defs.append(h.name)
            if h.type is not None:
                self._own_exprs(hn, h.type)
            handler_nodes.append(hn)
        # where do exceptions raised in the body go?
        targets = list(handler_nodes)
        catch_all = any(h.type is None or (isinstance(h.type, ast.Name) and h.type.id == "BaseException")
                        for h in st.handlers)
        escape: List[Node] = []
        if not catch_all:
            # an exception not matched by any handler propagates
            if has_final:
                targets.append(fin_exc_entry)
            else:
                esc = self._new("stmt", ast.Pass(), note="unmatched")
                self._raise_target(esc, outer_ctx)
                targets.append(esc)
        body_ctx = ctx.push_handlers(targets)
        if has_final:
            body_ctx = body_ctx.push_final({"emit": emit_final, "loop_depth": len(ctx.loops)})
        body_ends = self._block(st.body, preds, body_ctx)
        # orelse runs after the body without exception; exceptions there are not caught by the handlers
        else_ctx = ctx
        if has_final:
            else_ctx = ctx.push_handlers([fin_exc_entry]).push_final({"emit": emit_final, "loop_depth": len(ctx.loops)})
        ends = self._block(st.orelse, body_ends, else_ctx) if st.orelse else body_ends
        # handlers
        h_ctx = ctx
        if has_final:
            h_ctx = ctx.push_handlers([fin_exc_entry]).push_final({"emit": emit_final, "loop_depth": len(ctx.loops)})
        for h, hn in zip(st.handlers, handler_nodes):
            he = self._block(h.body, [hn], h_ctx)
            ends = ends + he
        if has_final:
            ends = emit_final(ends)
        return ends

    def _with(self, st: ast.With, preds, ctx) -> List[Node]:
        enter = self._new("with_enter", st)
        self.stmt_node[id(st)] = enter
        for it in st.items:
            self._own_exprs(enter, it.context_expr, it.optional_vars)
            if it.optional_vars is not None:
                enter.defs += _names_in_target(it.optional_vars)
        self._link(preds, enter)
        self._raise_target(enter, ctx)
        exit_exc = self._new("with_exit", st, note="exc")
        self._raise_target(exit_exc, ctx)

        def emit(cur_preds):
            x = self._new("with_exit", st, note="jump")
            self._link(cur_preds, x)
            return [x]

        body_ctx = ctx.push_handlers([exit_exc]).push_final({"emit": emit, "loop_depth": len(ctx.loops)})
        ends = self._block(st.body, [enter], body_ctx)
        exit_n = self._new("with_exit", st, note="normal")
        self._link(ends, exit_n)
        return [exit_n]

    # -------------------------------------------------------------- analyses
    def reachable_nodes(self) -> Set[int]:
        seen = set()
        stack = [self.entry.id]
        while stack:
            n = stack.pop()
            if n in seen:
                continue
            seen.add(n)
            for s, _ in self.succ[n]:
                stack.append(s)
        return seen

    def dominators(self) -> Dict[int, Set[int]]:
        if self._dom is not None:
            return self._dom
        reach = self.reachable_nodes()
        alln = set(reach)
        dom = {n: set(alln) for n in reach}
        dom[self.entry.id] = {self.entry.id}
        order = sorted(reach)
        changed = True
        while changed:
            changed = False
            for n in order:
                if n == self.entry.id:
                    continue
                ps = [p for p, _ in self.pred[n] if p in reach]
                if not ps:
                    continue
                new = set.intersection(*(dom[p] for p in ps)) | {n}
                if new != dom[n]:
                    dom[n] = new
                    changed = True
        self._dom = dom
        return dom

    def post_dominators(self, include_exc=True) -> Dict[int, Set[int]]:
        """Post-dominators w.r.t. a virtual sink joined to exit (and exc_exit)."""
        key = include_exc
        if self._pdom is not None and key in self._pdom:
            return self._pdom[key]
        reach = self.reachable_nodes()
        sinks = [self.exit.id] + ([self.exc_exit.id] if include_exc else [])
        SINK = -1
        succ = {n: [s for s, k in self.succ[n] if s in reach and (include_exc or k == "n")] for n in reach}
        for s in sinks:
            if s in succ:
                succ[s] = [SINK]
        alln = set(reach) | {SINK}
        pdom = {n: set(alln) for n in reach}
        pdom[SINK] = {SINK}
        changed = True
        order = sorted(reach, reverse=True)
        while changed:
            changed = False
            for n in order:
                ss = succ[n]
                if not ss:
                    new = {n}
                else:
                    new = set.intersection(*(pdom[s] for s in ss)) | {n}
                if new != pdom[n]:
                    pdom[n] = new
                    changed = True
        if self._pdom is None:
            self._pdom = {}
        self._pdom[key] = pdom
        return pdom

    def dominates(self, a: Node, b: Node) -> bool:
        d = self.dominators()
        return b.id in d and a.id in d[b.id]

    def guards(self, n: Node) -> List[Tuple[ast.expr, bool, ast.AST]]:
        """Branch pseudo-nodes that dominate n: (test expression, polarity, owner stmt)."""
        d = self.dominators().get(n.id, set())
        out = []
        for i in sorted(d):
            m = self.nodes[i]
            if m.kind == "branch" and m.note != "iter" and i != n.id:
                out.append((m.ast.test, m.polarity, m.ast))
        return out

    def enclosing_loops(self, n: Node) -> List[ast.AST]:
        """For/While statements whose body contains the node (syntactic)."""
        return self._loops_of.get(n.id, []) if hasattr(self, "_loops_of") else self._compute_loops().get(n.id, [])

    def _compute_loops(self):
        self._loops_of = {}
        m = {}

        def visit(stmts, loops):
            for st in stmts:
                node = self.stmt_node.get(id(st))
                if node is not None:
                    m[id(st)] = list(loops)
                if isinstance(st, (ast.For, ast.While)):
                    visit(st.body, loops + [st])
                    visit(st.orelse, loops)
                elif isinstance(st, ast.If):
                    visit(st.body, loops)
                    visit(st.orelse, loops)
                elif isinstance(st, ast.Try):
                    visit(st.body, loops)
                    for h in st.handlers:
                        visit(h.body, loops)
                    visit(st.orelse, loops)
                    visit(st.finalbody, loops)
                elif isinstance(st, ast.With):
                    visit(st.body, loops)
                else:
                    m[id(st)] = list(loops)

        visit(self.fi.node.body, [])
        for sid, node in self.stmt_node.items():
            self._loops_of[node.id] = m.get(sid, [])
        # pseudo nodes of loops and tests
        for n in self.nodes:
            if n.id in self._loops_of or n.ast is None:
                continue
            base = m.get(id(n.ast))
            if base is None:
                continue
            if n.kind in ("for_init", "for_exit"):
                self._loops_of[n.id] = list(base)
            elif n.kind == "branch" and isinstance(n.ast, (ast.For, ast.While)):
                self._loops_of[n.id] = list(base) + ([n.ast] if (n.polarity and True) else [])
            elif n.kind in ("branch", "test"):
                self._loops_of[n.id] = list(base)
        return self._loops_of

    def node_of(self, astnode) -> Node:
        n = self.stmt_node.get(id(astnode)) or self.expr_node.get(id(astnode))
        if n is None:
            raise AnalysisError(f"no CFG node for {type(astnode).__name__} at line {getattr(astnode, 'lineno', '?')} in {self.fi.qualname}")
        return n

    def paths_avoiding(self, start: Node, avoid: Set[int], targets: Set[int], kinds=("n", "e")) -> Optional[List[int]]:
        """Return one path (list of node ids) from start to any target that avoids `avoid`, or None."""
        stack = [(start.id, [start.id])]
        seen = {start.id}
        while stack:
            n, path = stack.pop()
            for s, k in self.succ[n]:
                if k not in kinds or s in avoid or s in seen:
                    continue
                if s in targets:
                    return path + [s]
                seen.add(s)
                stack.append((s, path + [s]))
        return None


@dataclass
class _Ctx:
    handlers: list
    loops: list
    finals: list

    def push_handlers(self, hs):
        return _Ctx(self.handlers + [hs], self.loops, self.finals)

    def push_loop(self, loop):
        return _Ctx(self.handlers, self.loops + [loop], self.finals)

    def push_final(self, fin):
        return _Ctx(self.handlers, self.loops, self.finals + [fin])


# ---------------------------------------------------------------------------
class ReachingDefs:
    """Classic forward may-analysis.  A definition is (name, node id); parameters are
    defined at the entry node.  Along an exceptional edge the definitions made by the
    raising node itself do not flow (the assignment did not happen)."""

    def __init__(self, cfg: CFG):
        self.cfg = cfg
        fi = cfg.fi
        a = fi.node.args
        params = [x.arg for x in a.posonlyargs + a.args + a.kwonlyargs]
        if a.vararg:
            params.append(a.vararg.arg)
        if a.kwarg:
            params.append(a.kwarg.arg)
        cfg.entry.defs = params
        self.IN: Dict[int, Set[Tuple[str, int]]] = {n.id: set() for n in cfg.nodes}
        self.OUT: Dict[int, Set[Tuple[str, int]]] = {n.id: set() for n in cfg.nodes}
        self._solve()

    def _solve(self):
        cfg = self.cfg
        work = [n.id for n in cfg.nodes]
        gen = {n.id: {(d, n.id) for d in n.defs} for n in cfg.nodes}
        kill = {n.id: set(n.defs) for n in cfg.nodes}
        inq = set(work)
        while work:
            n = work.pop(0)
            inq.discard(n)
            IN = set()
            for p, k in cfg.pred[n]:
                IN |= self.OUT[p] if k == "n" else self.IN[p]
            OUT = {d for d in IN if d[0] not in kill[n]} | gen[n]
            changed_in = IN != self.IN[n]
            self.IN[n] = IN
            if OUT != self.OUT[n] or changed_in:
                self.OUT[n] = OUT
                for s, _ in cfg.succ[n]:
                    if s not in inq:
                        work.append(s)
                        inq.add(s)

    def reaching(self, node: Node, name: str) -> List[Node]:
        return [self.cfg.nodes[i] for (nm, i) in sorted(self.IN[node.id]) if nm == name]

    def origins(self, node: Node, name: str, _seen=None) -> List[Node]:
        """Definitions of `name` reaching `node`, looking through plain copies (`a = b` contributes the origins of b there)."""
        seen = _seen if _seen is not None else set()
        out: Dict[int, Node] = {}
        for d in self.reaching(node, name):
            if d.id in seen:
                continue
            seen.add(d.id)
            src = None
            if d.kind == "stmt" and isinstance(d.ast, (ast.Assign, ast.AnnAssign)) and isinstance(d.ast.value, ast.Name):
                t = d.ast.targets[0] if isinstance(d.ast, ast.Assign) and len(d.ast.targets) == 1 else getattr(d.ast, "target", None)
                if isinstance(t, ast.Name) and t.id == name:
                    src = d.ast.value.id
            if src is None:
                out[d.id] = d
            else:
                for o in self.origins(d, src, seen):
                    out[o.id] = o
        return [out[k] for k in sorted(out)]

    def reaching_at_exit(self, node: Node, name: str) -> List[Node]:
        return [self.cfg.nodes[i] for (nm, i) in sorted(self.OUT[node.id]) if nm == name]
