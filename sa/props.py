"""Per-property metadata used for evidence files and MANIFEST generation."""

_COMMON_ASSUME = [
    "arithmetic is exact in every TERM/RANGE argument (floating-point rounding is out of reach of a static argument)",
    "library semantics are the frozen table of DESIGN 10 (NumPy indexing/broadcasting, argmin first occurrence, "
    "itertools.accumulate, AsyncResult.get re-raises, ...)",
    "the package contains no exec/eval/setattr/__dict__ (checked by the loader on every run)",
    "scope is src/fast_ticc as parsed by the repository's own interpreter; third-party code is trusted as documented",
]


def _p(title, explanation, declined, level="other", extra_assume=(), technique="", design="5"):
    return {"title": title, "explanation": explanation, "declined": list(declined), "level": level,
            "assumptions": list(extra_assume) + _COMMON_ASSUME, "technique": technique, "design_ref": design}


PROPS = {
    "C01": _p(
        "Label assignment returns a globally minimum-cost label sequence",
        "Static conformance of the labelling kernel to the backward Bellman recurrence of lemma L-DP: the terms the "
        "kernel stores, its guards, loop ranges, price index, start state, read-out and label provenance are "
        "reconstructed from source through use-def chains and compared, as algebraic normal forms, with the template; "
        "the hand-over from predict_cluster_labels is a FLOW rule.  The lemma (DESIGN 6) gives optimality for every "
        "T,K, cost table and b>=0 in exact arithmetic.",
        ["floating-point association/rounding of path sums; ties of rounded sums",
         "what Numba's code generator emits for the kernel (static part: C15)"],
        extra_assume=["K <= 65536 so that the uint16 back-pointer table can hold every label"],
        technique="term reconstruction + normal-form comparison against a DP template (ast, use-def chains)"),
    "C02": _p(
        "Cluster MRF is the block-Toeplitz graphical-lasso optimum",
        "Static conformance of the ADMM solver to the scaled-form iteration (Boyd 3.1 / Hallac 4.2): class enumeration, "
        "one argument tuple per Toeplitz class, occurrence counts, soft-threshold value, lambda-sum branches, X/U updates, "
        "adaptive-rho rescale and the stopping rule are reconstructed as terms / orders and compared with templates.",
        ["that the iterates reach the tolerance within the budget (rate of convergence is a runtime quantity)",
         "size of the optimality gap implied by a residual; numpy.linalg.eigh itself"],
        technique="term reconstruction, loop-range analysis, sibling agreement, dominance order"),
    "C03": _p(
        "Every MRF is a finite, symmetric, positive-definite precision matrix",
        "Structural necessary conditions: the solver returns the X iterate (eigenvalues e/(2 rho), e>0 by L-EIG); the "
        "eigenvalue map is cancellation-free under its guards; reinflation is transpose-invariant; the epsilon filter is "
        "exactly |x|<eps -> 0 on a fresh matrix; log-determinants come from slogdet.",
        ["that PD-ness/finiteness survive 24 orders of magnitude in floating point beyond the two NUM patterns "
         "(conditioning of eigh / inv)", "end-to-end finiteness of every returned float"],
        technique="FLOW + NUM pattern rules over reconstructed terms; comparison polarity"),
    "C04": _p(
        "One label per input row; unlabeled margin is exactly W-1 points",
        "Padding, stacked-length agreement, split slices, per-series assembly and main-loop output shapes are "
        "reconstructed as sequence-domain / polynomial terms and compared with L-PAD / L-SPLIT / L-STACK templates.",
        ["MRF shape at run time depends on the optimiser returning a vector of the right length (C11)"],
        technique="sequence-domain term reconstruction + FLOW"),
    "C05": _p(
        "Reported log-likelihoods are exact Gaussian log-densities",
        "The scalar kernel's return term equals the Gaussian log-density normal form; table cell (p,k) uses one k for "
        "mu/theta/logdet; refresh dominates scoring; result-time scoring uses the same kernel and fields; logdet via slogdet.",
        ["rounding of the quadratic form; what Numba compiles"],
        technique="term normal form + AGREE + dominance"),
    "C06": _p(
        "Result fields are mutually consistent",
        "Insertion census on the per-cluster likelihood lists, aggregates over one list definition, cost = kernel's "
        "second result of the negated table, field-for-field copy in the multi-series result.",
        ["which pairs carry a price in the joint case (C07)"],
        technique="FLOW / insertion census / sibling agreement"),
    "C07": _p(
        "Jointly labelled series are independent across series boundaries",
        "Per-series stacking then vstack; mask zeros at e_k-1+o with o read from the kernel's price index; the masked "
        "price must reach the UserArguments bundle passed to the main loop; both front ends plumb alike.",
        ["bit-for-bit equality with the single-series front end (needs C18.R3 + numerical identity)"],
        technique="FLOW (reaching definitions) + TERM on the mask helper"),
    "C08": _p(
        "Cluster repopulation conserves points and never starves a donor",
        "Copy-before-write, recipient test size<2, donor constants (a,r,d) satisfying L-DONOR, ranking by own covariance "
        "descending, sample of exactly m indices of the donor's member list written into a fresh label list, commit "
        "inside the recipient loop, RuntimeError on exhaustion.",
        ["uniformity of the random draw"],
        technique="CONST/CMP extraction + FLOW + ORDER"),
    "C09": _p(
        "Main loop: bounded, stops only at a fixed point, returns what it scored",
        "Loop bound is range(iteration_limit) dominated by a >0 assertion; phase order and state threading on every "
        "path; the only break compares the labels just produced with the previous round's; all result fields derive "
        "from the state reaching the loop exits.",
        ["optimality of the returned labelling composes with C01"],
        technique="CFG dominance / reaching definitions"),
    "C10": _p(
        "Window stacking is exact and never crosses a series boundary",
        "The stacking loop nest is decided for all T, W, N by affine range analysis: allocation (T-W+1) x (N*W), the "
        "slice family [jN,(j+1)N) tiles [0,NW), source row i+j <= T-1, pure copy of data[i+j,:]; multi-series = vstack "
        "of per-series stacks; split/pad as in C04.",
        ["dtype conversion of non-float64 input into the float64 target"],
        level="proof",
        technique="affine loop-range / tiling analysis on reconstructed index terms"),
    "C11": _p(
        "Compressed-matrix and Toeplitz-class index maps are exact bijections",
        "Polynomial identities decided for all sizes: _compressed_index equals the row-major rank polynomial; size "
        "inversion; one triangle-index table for both directions; class positions (kN+r,(b+k)N+c), k in [0,W-b); the "
        "compressed and (row,col) forms derive from one generator call.  L-CIDX/L-SIZE/L-TOEP give bijectivity.",
        ["numpy.triu_indices being row-major (trusted library fact)"],
        level="proof",
        technique="polynomial normal forms over reconstructed terms"),
    "C12": _p(
        "Each cluster is fitted to exactly its own windows, with the requested estimator",
        "np.cov/np.mean operate on training_data[c.member_points,:] of the cluster that receives the results; bias= is "
        "data-dependent on arguments.biased_covariance; every k in range(K); optimiser arguments bound through apply_async.",
        [],
        technique="FLOW + argument binding through apply_async"),
    "C13": _p(
        "Model state: labels and cluster membership always describe one partition",
        "Encapsulation census of _point_labels/_member_points writers, setter re-derives membership, no in-place edit "
        "through published references, exactly K clusters, deep copy shares nothing mutable, phases do not write their input.",
        [],
        technique="CENSUS + ownership (allocation-site) analysis"),
    "C14": _p(
        "Results are reproducible and independent of process scheduling",
        "Closed census of randomness / nondeterminism sources, ordered gather by cluster index, worker count reaches only "
        "Pool(processes=), tasks and memoised helpers are pure, no cross-call module state.",
        ["BLAS/LAPACK thread-count effects on rounding; fork-vs-spawn behaviour"],
        technique="CENSUS + purity analysis"),
    "C15": _p(
        "Numba acceleration is semantically transparent",
        "Decorator form and keyword deny-list, sequential DP kernel, race-free prange bodies, in-bounds subscripts in "
        "kernels, no mutable globals read by kernels.",
        ["numerical agreement to within rounding and Numba typing/LLVM codegen (need the compiled artefact)"],
        technique="DECOR + RANGE + OWN"),
    "C16": _p(
        "Bayesian information criterion matches its definition",
        "Return term = P*log(T) - 2*sum_k(logdet_k - trace(Theta_k S_k)); params_k = #{|Theta|>2e-5}; run-length "
        "accumulation of P; logdet via slogdet.",
        [],
        technique="term normal form + FLOW"),
    "C17": _p(
        "Calinski-Harabasz index matches its definition",
        "Global centre must be a rank-1 axis-0 reduction; dispersions and factor as terms.",
        ["translation invariance is a consequence, not separately decided"],
        technique="RANK + term normal form"),
    "C18": _p(
        "Equivalent parameter forms give identical results",
        "Type dispatch on user hyper-parameters must accept every real scalar; scalar branch and matrix branch of the "
        "lambda sum agree on the class size; scalar/vector price broadcast.",
        ["bitwise identity of lambda*n and an n-term sum (rounding)"],
        technique="DISPATCH (taint to isinstance) + AGREE"),
    "C19": _p(
        "Caller-owned data is never modified",
        "Ownership analysis: no mutation site reachable from a public entry point may write an object owned by a "
        "parameter; nothing caller-owned is stored in memo/module objects.",
        ["that Numba accepts read-only arrays (compiled dispatch)"],
        technique="allocation-site ownership analysis over the call graph"),
    "C20": _p(
        "Failures surface as exceptions, never as a partial result",
        "Pool acquire/release pairing on normal and exceptional exits; handlers re-raise; AsyncResult consumed by "
        "untimed get(); translators are narrow; donor shortage raises; no residue in module state.",
        ["liveness of multiprocessing ('never hangs'), actual reaping of children",
         "that the caught exception kind is the one wrong input produces (pinned by two tests)"],
        extra_assume=["pool.close/terminate/join do not raise"],
        technique="CFG path pairing (PAIR) + handler census"),
}
