"""C06 - result fields are mutually consistent (cost and likelihood accounting)."""
from __future__ import annotations

import ast

from .. import terms as tm
from ..build import ALL_MUTATOR_METHODS, _root_name
from ..loader import AnalysisError
from ..report import rule
from ..resolve import Resolver
from ..terms import App, Attr, Comp, Idx, Lst, PW, Range, Sym
from .common import Flow, calls_to, ctor_args, unparse

BYCL = "main_loop._compute_log_likelihood_by_cluster"


def per_cluster_helper(ana):
    """The function that builds the per-cluster likelihood lists: by name, or - if it was moved/renamed - by role: the package
    function called by fit_stacked_data whose result is what gets flattened into all_log_likelihood."""
    if ana.prog.has_func(BYCL):
        return ana.func(BYCL)
    ml = ana.func("main_loop.fit_stacked_data")
    ctor = calls_to(ana, ml, "fast_ticc.containers.results.SingleDataSeriesResult")
    if len(ctor) == 1:
        kw = ctor_args(ana, ctor[0])
        if "all_log_likelihood" in kw:
            fl = Flow(ana, ml)
            dep = fl.closure(kw["all_log_likelihood"])
            cands = [ana.prog.functions[n] for n in dep.call_names if n in ana.prog.functions and "log_likelihood" in n]
            if len(cands) == 1:
                return cands[0]
    raise AnalysisError("the function that builds the per-cluster log-likelihood lists cannot be located (neither by name nor by role)")


def _mutation_sites(fi, name):
    """Every construct in the function that inserts into / overwrites the object bound to `name` or its elements."""
    out = []
    # aliases of the object or of its elements: loop variables over it, names bound to a subscript of it
    names = {name}
    changed = True
    while changed:
        changed = False
        for n in Resolver.walk_own(fi.node):
            src = tgt = None
            if isinstance(n, (ast.For, ast.comprehension)):
                src, tgt = n.iter, n.target
                if isinstance(src, ast.Call) and isinstance(src.func, ast.Name) and src.func.id in ("enumerate", "zip", "reversed", "iter"):
                    for a in src.args:
                        if _root_name(a) in names:
                            src = a
            elif isinstance(n, ast.Assign) and len(n.targets) == 1:
                src, tgt = n.value, n.targets[0]
            if src is None or _root_name(src) not in names or isinstance(src, ast.Call):
                continue
            for el in ast.walk(tgt):
                if isinstance(el, ast.Name) and el.id not in names and not isinstance(src, ast.Name) or \
                        (isinstance(el, ast.Name) and el.id not in names and isinstance(n, (ast.For, ast.comprehension))):
                    names.add(el.id)
                    changed = True
    for n in Resolver.walk_own(fi.node):
        if isinstance(n, ast.Call) and isinstance(n.func, ast.Attribute) and n.func.attr in ALL_MUTATOR_METHODS:
            if _root_name(n.func.value) in names:
                out.append(n)
        elif isinstance(n, (ast.Assign, ast.AugAssign)):
            tgts = n.targets if isinstance(n, ast.Assign) else [n.target]
            for t in tgts:
                if isinstance(t, ast.Subscript) and _root_name(t) in names:
                    out.append(n)
                if isinstance(n, ast.AugAssign) and isinstance(t, ast.Name) and t.id in names:
                    out.append(n)
    return out


@rule("C06", "R1", "OWN", "the per-point list gets exactly one entry per labelled point and nothing else", floor=4)
def r1(ctx):
    ana = ctx.ana
    fi = per_cluster_helper(ana)
    b = ana.builder(fi, no_inline=ana.known)
    cfg = ana.cfg(fi)
    data, m = Sym(fi.params[0]), Sym(fi.params[1])
    rets = [n for n in cfg.nodes if n.kind == "stmt" and isinstance(n.ast, ast.Return)]
    if len(rets) != 1 or not isinstance(rets[0].ast.value, ast.Name):
        raise AnalysisError("_compute_log_likelihood_by_cluster does not return a single local list")
    name = rets[0].ast.value.id
    from .common import def_value
    defs = [n for n in cfg.nodes if n.kind == "stmt" and name in n.defs and def_value(n) is not None]
    if len(defs) != 1:
        raise AnalysisError("the per-cluster list is not created by a single assignment")
    t0 = b.term(def_value(defs[0]), defs[0])
    K = Attr(Attr(m, "arguments"), "num_clusters")
    sites = _mutation_sites(fi, name)
    if t0 == Lst([]):
        # created by a loop: `lists = []` + `for _ in range(K): lists.append([])` is the same list of K empty lists
        t_ret = b.name_term(name, rets[0])
        creators = [s_ for s_ in sites if isinstance(s_, ast.Call) and s_.func.attr == "append" and isinstance(s_.func.value, ast.Name)
                    and s_.func.value.id == name and len(s_.args) == 1 and isinstance(s_.args[0], ast.List) and not s_.args[0].elts]
        if isinstance(t_ret, Comp) and len(creators) == 1:
            t0 = t_ret
            sites = [s_ for s_ in sites if s_ is not creators[0]]
    ok = isinstance(t0, Comp) and not t0.conds and t0.elt == Lst([]) and t0.iter in (Range(0, K), Range(0, tm.length(Attr(m, "clusters"))))
    ctx.check(ok, fi, "one empty list per cluster id is created first", line=defs[0].lineno, role="init", expected="[[] for k in range(K)]", found=str(t0))
    labels = Attr(m, "point_labels")
    good = []
    for s in sites:
        line = s.lineno
        if isinstance(s, ast.Call) and s.func.attr == "append" and isinstance(s.func.value, ast.Subscript) and len(s.args) == 1:
            node = cfg.node_of(s)
            loops = cfg.enclosing_loops(node)
            recv_idx = b.term(s.func.value.slice, node)
            val = b.term(s.args[0], node)
            g = b.guard_term(node)
            pv = [x for x in tm.subterms(recv_idx) if isinstance(x, Idx) and x.base == labels]
            cond = len(loops) == 1 and isinstance(loops[0], ast.For) and bool(pv) and recv_idx == pv[0]
            if cond:
                p = pv[0].idx[0]
                bind = b.binder_of(loops[0])
                cond = bind == (p, Range(0, tm.length(labels)))
                lv = b.loopvars.get(p.key) if isinstance(p, Sym) else None
                if not cond and lv is not None and lv[0] == "zip" and labels in lv[1] and all(z in (labels, data) for z in lv[1]):
                    # zip(data, labels): one visit per label that has a data row; the indexed form visits the same points whenever it does
                    # not raise (a label without a row is an IndexError there), and the two lengths agree in every state (C04.R5)
                    cond = True
                cond = cond and isinstance(val, App) and val.fn.endswith("likelihood.point_log_likelihood") \
                    and any(x == pv[0] for x in tm.subterms(val))
                want_g = tm.compare("!=", pv[0], -1)
                cond = cond and g.key == want_g.key
            if cond:
                good.append(s)
                ctx.ok(fi, "insertion event: the point's own log-likelihood is appended to its label's list, once per labelled point "
                           "(loop over the label sequence, guarded by label != -1)", line=line, role="insert:per-point",
                       receiver=str(recv_idx), value=str(val)[:120], guard=str(g))
                continue
        ctx.fail(fi, f"extra insertion into the per-cluster lists: `{unparse(s, 70)}` - an entry that is not a labelled point's "
                     "log-likelihood would flow into all_log_likelihood and bias the overall mean/median",
                 line=line, role=f"insert:other:{unparse(s, 40)}", expected="no insertion besides the per-point append", found=unparse(s))
    ctx.check(len(good) == 1, fi, "exactly one per-point insertion site", role="insert:count", expected="1", found=str(len(good)))
    # between the helper's return and the flattening nothing is inserted
    ml = ana.func("main_loop.fit_stacked_data")
    calls = calls_to(ana, ml, fi.qualname)
    if len(calls) != 1:
        raise AnalysisError("fit_stacked_data does not call _compute_log_likelihood_by_cluster exactly once")
    cn = ana.cfg(ml).node_of(calls[0].node)
    from .common import def_target
    var = def_target(cn)
    if var is None:
        raise AnalysisError("per-cluster lists are not bound to a local in fit_stacked_data")
    extra = _mutation_sites(ml, var)
    ctx.check(not extra, ml, "the per-cluster lists are not modified between their construction and the flattening", role="insert:main-loop",
              expected="no mutation", found="; ".join(unparse(e, 50) for e in extra))
    _h = per_cluster_helper(ana)
    bm = ana.builder(ml, no_inline=lambda f: ana.known(f) or f is _h)
    ctor = calls_to(ana, ml, "fast_ticc.containers.results.SingleDataSeriesResult")
    kw = ctor_args(ana, ctor[0])
    t = bm.term(kw["all_log_likelihood"])
    src = App(fi.qualname, (Sym(ml.params[1]),), {})
    ok = isinstance(t, App) and t.fn == "builtins.list" and isinstance(t.args[0], App) and t.args[0].fn == "itertools.chain" \
        and len(t.args[0].args) == 1 and isinstance(t.args[0].args[0], App) and t.args[0].args[0].fn == "*" \
        and isinstance(t.args[0].args[0].args[0], App) and t.args[0].args[0].args[0].fn == fi.qualname
    alt = isinstance(t, App) and t.fn == "builtins.list" and isinstance(t.args[0], App) and t.args[0].fn == "itertools.chain.from_iterable"
    ctx.check(ok or alt, ml, "all_log_likelihood is the concatenation of the per-cluster lists, nothing added or removed", role="flatten",
              expected="list(itertools.chain(*per_cluster))", found=str(t)[:160])


@rule("C06", "R2", "FLOW", "sum, mean and median are taken over the very list stored in the result; per-cluster values over each cluster's own list", floor=5)
def r2(ctx):
    ana = ctx.ana
    ml = ana.func("main_loop.fit_stacked_data")
    _h = per_cluster_helper(ana)
    bm = ana.builder(ml, no_inline=lambda f: ana.known(f) or f is _h)
    ctor = calls_to(ana, ml, "fast_ticc.containers.results.SingleDataSeriesResult")
    if len(ctor) != 1:
        raise AnalysisError("SingleDataSeriesResult constructor call not found exactly once")
    kw = ctor_args(ana, ctor[0])
    allt = bm.term(kw["all_log_likelihood"])
    for f, fn in (("overall_log_likelihood", "numpy.sum"), ("overall_log_likelihood_mean", "numpy.mean"), ("overall_log_likelihood_median", "numpy.median")):
        t = bm.term(kw[f])
        arg0 = t.args[0] if isinstance(t, App) and len(t.args) == 1 else None
        if isinstance(arg0, App) and arg0.fn in ("numpy.asarray", "numpy.array") and len(arg0.args) == 1 and not arg0.kw:
            arg0 = arg0.args[0]                  # the same numbers as an array
        ok = isinstance(t, App) and t.fn == fn and arg0 == allt and not t.kw
        ctx.check(ok, ml, f"`{f}` = {fn.split('.')[1]} of exactly the list stored as all_log_likelihood", role=f"aggregate:{f}",
                  expected=f"{fn}(all_log_likelihood)", found=str(t)[:140])
    per = [x for x in tm.subterms(allt) if isinstance(x, App) and x.fn == per_cluster_helper(ana).qualname]
    if not per:
        raise AnalysisError("per-cluster source of all_log_likelihood not found")
    per = per[0]
    for f, fn in (("cluster_log_likelihood_mean", "numpy.mean"), ("cluster_log_likelihood_median", "numpy.median")):
        t = bm.term(kw[f])
        inner = t.args[0] if isinstance(t, App) and t.fn in ("numpy.array", "numpy.asarray") and t.args else t
        ok = isinstance(inner, Comp) and not inner.conds and inner.iter == Range(0, tm.length(per))
        if ok:
            x = Idx(per, (inner.var,))
            nonempty = tm.compare(">", tm.length(x), 0)
            want = PW([(nonempty, App(fn, (x,))), (tm.negate(nonempty), tm.ZERO)])
            alt_g = tm.compare("!=", tm.length(x), 0)
            want2 = PW([(alt_g, App(fn, (x,))), (tm.negate(alt_g), tm.ZERO)])
            # the per-cluster entries are Python lists (C05.R6: created as [] and only appended to), whose truth value is len(x) > 0
            want3 = PW([(x, App(fn, (x,))), (tm.negate(x), tm.ZERO)])
            ok = inner.elt in (want, want2, want3)
        ctx.check(ok, ml, f"`{f}`[k] = {fn.split('.')[1]} of cluster k's own list, 0 for an empty cluster", role=f"aggregate:{f}",
                  expected=f"[{fn}(x) if len(x) > 0 else 0 for x in per_cluster]", found=str(inner)[:200])
        # the weaker fact C03 needs: whatever is averaged, it is never an empty list (numpy.mean([]) is NaN)
        elt = inner.elt if isinstance(inner, Comp) else inner
        bare = []
        for g, v in tm.pieces_of(elt):
            gparts = {p_.key for p_ in (g.parts if isinstance(g, tm.And) else [g])}
            for a in tm.subterms(v):
                if isinstance(a, App) and a.fn in ("numpy.mean", "numpy.median", "numpy.average", "numpy.nanmean", "numpy.nanmedian", "statistics.mean",
                                                   "statistics.median") and a.args:
                    n = tm.length(a.args[0])
                    if n is None or not ({tm.compare(">", n, 0).key, tm.compare("!=", n, 0).key, a.args[0].key} & gparts):
                        bare.append(str(a)[:80])
        ctx.check(not bare, ml, f"`{f}`: no average is taken over a possibly empty list", role=f"empty-guard:{f}",
                  expected="guarded by len(x) > 0", found="; ".join(bare))


@rule("C06", "R3", "FLOW", "the stored cost is the kernel's own cost of the negated likelihood table", floor=4)
def r3(ctx):
    from . import c01, c09
    ctx.sub(c01.r9)     # cost table = -loglik; stored cost = kernel's second result
    from . import c05
    ctx.sub(c05.r2, only=("table:ranges", "table:row", "table:same-k", "table:return", "wrapper:"))   # ... with an entry for every point and cluster
    # "... plus the switching cost of every consecutive labelled pair, within one series": the price the kernel charges is the
    # caller's beta (single-series front end), and in a joint run the beta masked at the series boundaries (C07.R3; on the delivered
    # tree the unmasked value reaches the loop - the known finding F4b shows here as well)
    from .plumb import plumb
    from . import c07
    plumb(ctx, ["label_switching_cost"], skip={("ticc_joint_labels", "label_switching_cost")})
    ctx.sub(c07.r3)
    ctx.sub(c01.r6, only=("start:cost",))   # reported cost = cost of the returned path's start state (which state is C01's business)
    ctx.sub(c01.r1)     # tables are written only by the recurrence
    ctx.sub(c01.r2)
    # the recurrence accounts price b[i] exactly for pairs with different labels; *which* candidate wins (optimality) is C01's
    ctx.sub(c01.r3, drop=("recurrence:guard", "recurrence:min-selection"))
    ctx.sub(c01.r7)     # the returned path follows the stored back-pointers, whose costs were accumulated
    ctx.sub(c01.r4)
    # labels, cost and likelihood fields in the result come from one state: the last relabel's
    ctx.sub(c09.r4, drop=("result-field:bayesian", "result-field:calinski", "result-field:markov", r"result-state:\w+@bayesian",
                          r"result-state:\w+@calinski", r"result-state:\w+@markov"))
    # nothing refits or relabels after the relabel of a round (the scored means/MRFs are the ones the cost was computed with)
    c09.lifecycle(ctx, {"nothing-after-relabel"})
    from . import c13
    ctx.sub(c13.r2, only=("setter:only-labels",))      # assigning the new labels does not wipe the cost that was just computed for them


@rule("C06", "R4", "AGREE", "the multi-series result copies every aggregate field from the master result under the same name", floor=10)
def r4(ctx):
    ana = ctx.ana
    fi = ana.func("front_end._split_combined_result")
    ctor = calls_to(ana, fi, "fast_ticc.containers.results.MultipleDataSeriesResult")
    if len(ctor) != 1:
        raise AnalysisError("MultipleDataSeriesResult constructor call not found exactly once")
    master = fi.params[0]
    cls = ana.prog.cls("containers.results.MultipleDataSeriesResult")
    kws = ctor_args(ana, ctor[0])
    b = ana.builder(fi, no_inline=ana.known)
    for f in cls.fields:
        if f == "point_labels":
            continue
        v = kws.get(f)
        ok = v is not None and b.term(v) == Attr(Sym(master), f)      # through temporaries, if any
        ctx.check(ok, fi, f"`{f}` is master_result.{f}", line=v.lineno if v is not None else ctor[0].node.lineno, role=f"copy:{f}",
                  expected=f"{f}={master}.{f}", found=unparse(v) if v is not None else "missing")


def readers_do_not_write(ctx, entries):
    from .own import describe, ext_writes, ownership
    ana = ctx.ana
    for q in entries:
        fi = ana.func(q) if isinstance(q, str) else q
        oa = ownership(ana, fi.qualname[len("fast_ticc."):])
        bad = ext_writes(oa)
        for m, objs in bad:
            ctx.fail(fi, f"{short_name(fi)} may modify the model / data it only ought to read at {describe(m)}", role=f"reader-writes:{short_name(fi)}:{m.kind}",
                     expected="metrics and result assembly are read-only", found=", ".join(sorted(map(str, objs)))[:140])
        if not bad:
            ctx.ok(fi, f"{short_name(fi)}: none of {len(oa.mutations)} reachable mutation sites writes the model or the data", role=f"reader-writes:{short_name(fi)}")


def short_name(fi):
    return fi.qualname.split("fast_ticc.")[-1]


@rule("C06", "R5", "OWN", "metrics and per-point scoring read the final state without modifying it (all result fields describe one state)", floor=3, evidence=True)
def r5(ctx):
    readers_do_not_write(ctx, ["cluster_metrics.bayesian_information_criterion", "cluster_metrics.calinski_harabasz_index", per_cluster_helper(ctx.ana)])
