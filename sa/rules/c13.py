"""C13 - model state: labels and cluster membership always describe one partition; copies are isolated."""
from __future__ import annotations

import ast

from .. import terms as tm
from ..build import ALL_MUTATOR_METHODS, _root_name
from ..heap import ELEM, mutability_of_fields
from ..loader import AnalysisError
from ..report import rule
from ..resolve import Resolver
from ..terms import And, App, Attr, Cmp, Comp, Idx, Not, Range, Sym
from .common import Flow, bind_args, calls_to, short, unparse
from .own import describe, ext_writes, ownership

MS = "containers.model_state.ModelState"
CP = "containers.model_state.ClusterParameters"
LABEL_FIELDS = {"point_labels", "_point_labels", "member_points", "_member_points"}
PHASES = ["cluster_maintenance.repopulate_empty_clusters", "cluster_maintenance.update_all_cluster_statistics",
          "graphical_lasso.optimize_markov_random_fields", "cluster_label_assignment.predict_cluster_labels"]
STATE_FIELDS = {"_point_labels", "clusters", "_member_points", "empirical_covariance", "stacked_data_mean", "train_inverse",
                "computed_covariance", "label_assignment_cost", "arguments", "point_log_likelihood", "stacked_training_data",
                "graphical_lasso_cost", "inverse_covariance", "log_determinant"}


@rule("C13", "R1", "CENSUS", "private label / member lists are written only by their own class; states are built only by the three factories", floor=4)
def r1(ctx):
    ana = ctx.ana
    owners = {"_point_labels": ana.prog.cls(MS), "_member_points": ana.prog.cls(CP)}
    n = 0
    for fi in ana.own_functions():
        for x in Resolver.walk_own(fi.node):
            if isinstance(x, ast.Attribute) and isinstance(x.ctx, ast.Store) and x.attr in owners:
                n += 1
                own = owners[x.attr]
                ok = fi.cls is own and (fi.name == "__init__" or fi.kind == "setter")
                ctx.check(ok, fi, f"`{x.attr}` is assigned inside {own.name}.__init__ / its setter only", line=x.lineno,
                          role=f"writer:{x.attr}@{short(fi.qualname)}", expected=f"{own.name}.__init__ or the property setter", found=short(fi.qualname))
    if n == 0:
        raise AnalysisError("no writer of _point_labels / _member_points found")
    ms = ana.prog.cls(MS)
    n_ctor = 0
    for fi in ana.own_functions():
        for cs in calls_to(ana, fi, ms.qualname):
            n_ctor += 1
            try:
                ba = bind_args(ana.func(MS + ".__init__"), cs.node, skip_self=True)
            except AnalysisError:
                ba = {k.arg: k.value for k in cs.node.keywords}
            lab, cl = ba.get("point_labels"), ba.get("clusters")
            # wherever a state is constructed: either it starts unlabelled (membership is derived when labels are assigned
            # through the setter), or its label list and its cluster list come from one and the same source state
            if lab is None or (isinstance(lab, ast.Constant) and lab.value is None):
                good, why = True, "no labels yet"
            else:
                fl = Flow(ana, fi)
                dl = fl.closure(lab)
                dc = fl.closure(cl) if cl is not None else None
                roots_l = {a.rsplit(".", 1)[0] for a in dl.attrs if a.rsplit(".", 1)[-1] in ("point_labels", "_point_labels")}
                roots_c = {a.rsplit(".", 1)[0] for a in (dc.attrs if dc is not None else ()) if a.rsplit(".", 1)[-1] == "clusters"}
                good = bool(roots_l) and roots_l == roots_c and len(roots_l) == 1
                why = "labels and clusters both taken from one state"
            ctx.check(good, fi, f"the label list and the cluster list given to the constructor belong together ({why})",
                      line=cs.node.lineno, role=f"ctor-pair@{short(fi.qualname)}", expected="unlabelled, or both from the same source state",
                      found=f"point_labels={unparse(lab) if lab is not None else None}, clusters={unparse(cl) if cl is not None else None}")
    if n_ctor == 0:
        raise AnalysisError("no ModelState(...) construction found")


def _no_store_condition_ok(ctx, fi, field, new_param, old_attr):
    """The setter may skip the store only when the new value equals the current one."""
    ana = ctx.ana
    b = ana.builder(fi, no_inline=ana.known)
    stores = [s for s in b.stores() if s.attr == field]
    if not stores:
        ctx.fail(fi, f"setter never stores `{field}`", role=f"setter:{field}:stores")
        return stores
    new, old = Sym(new_param), Attr(Sym(fi.params[0]), old_attr)
    eq = App("eq", tuple(sorted((new, old), key=lambda t: t.key)))
    allowed_other = {tm.negate(App("is", (new, tm.Lit(None)))).key, App("is", (new, tm.Lit(None))).key,
                     tm.compare("==", tm.length(new), 0).key, tm.compare("!=", tm.length(new), 0).key}
    for s in stores:
        parts = s.guards.parts if isinstance(s.guards, And) else ([] if s.guards == tm.TRUE else [s.guards])
        def _fine(p_):
            if p_.key in allowed_other or p_.key == tm.negate(eq).key:
                return True
            if isinstance(p_, tm.Or):
                return all(_fine(x) for x in p_.parts)
            return False
        bad = [p for p in parts if not _fine(p)]
        ctx.check(not bad, fi, f"the store of `{field}` is skipped only when the new value equals the stored one "
                               "(a cheaper test such as equal length keeps stale data)", line=s.stmt.lineno,
                  role=f"setter:{field}:skip-condition@{stores.index(s)}", expected=f"guard within {{new is None, len(new) == 0, new != current}}",
                  found="; ".join(str(p) for p in bad))
    return stores


def _negative_label_index(ctx, ana, upd, b, labels):
    """Labels range from -1 (not labelled) to K-1.  A dict keyed by label files the unlabelled points under -1, where nobody looks; a
    *list* subscripted by a label files them in the last bucket (negative indices wrap), so cluster K-1 gains members that do not
    carry its label.  Evidence: wrong wherever it occurs."""
    cfg_u = ana.cfg(upd)
    saved, ctx.evidence = ctx.evidence, True
    try:
        for n in Resolver.walk_own(upd.node):
            if not (isinstance(n, ast.Subscript) and isinstance(n.value, ast.Name)):
                continue
            defs = [a for a in Resolver.walk_own(upd.node) if isinstance(a, ast.Assign) and any(isinstance(t, ast.Name) and t.id == n.value.id for t in a.targets)]
            is_list = bool(defs) and all(isinstance(a.value, (ast.ListComp, ast.List)) or (isinstance(a.value, ast.BinOp) and isinstance(a.value.op, ast.Mult)
                                         and (isinstance(a.value.left, ast.List) or isinstance(a.value.right, ast.List))) for a in defs)
            if not is_list:
                continue
            node = cfg_u.node_of(n)
            try:
                it = b.term(n.slice, node)
            except Exception:
                continue
            if not (isinstance(it, Idx) and it.base == labels):
                continue
            nonneg = {tm.compare(">=", it, 0).key, tm.compare(">", it, -1).key, tm.compare("!=", it, -1).key}
            gs = set()
            for t_, pol, owner in cfg_u.guards(node):
                try:
                    g = b.term(t_, cfg_u.stmt_node[id(owner)])
                except Exception:
                    continue
                g = g if pol else tm.negate(g)
                for part in (g.parts if isinstance(g, tm.And) else [g]):
                    gs.add(part.key)
            ctx.check(bool(gs & nonneg), upd, f"`{unparse(n)}`: a list is subscripted by a label only where the label is known not to be -1",
                      line=n.lineno, role=f"refresh:negative-label:{n.value.id}", expected="label >= 0 (or != -1) guards the subscript, or the buckets are a dict",
                      found="guards: " + (", ".join(sorted(gs)) or "none"))
    finally:
        ctx.evidence = saved


@rule("C13", "R2", "ORDER", "assigning labels re-derives membership immediately: cluster k gets the sorted indices with label k", floor=6)
def r2(ctx):
    ana = ctx.ana
    ms, cp = ana.prog.cls(MS), ana.prog.cls(CP)
    st = ms.setters.get("point_labels")
    if st is None:
        raise AnalysisError("ModelState.point_labels has no setter")
    stores = _no_store_condition_ok(ctx, st, "_point_labels", st.params[1], "point_labels")
    # the label setter touches the labelling (and, through the refresh, the membership) - no other field of the state: a cost or a
    # likelihood wiped as a side effect of a relabel makes the result fields inconsistent
    b_st = ana.builder(st, no_inline=ana.known)
    others = [s for s in b_st.stores(inline_effects=False) if s.attr is not None and s.attr not in ("_point_labels", "point_labels") and s.base == Sym(st.params[0])]
    saved_e, ctx.evidence = ctx.evidence, True
    try:
        ctx.check(not others, st, "the label setter stores no field of the state besides the labelling", role="setter:only-labels",
                  expected="self._point_labels = ... ; self._update_cluster_membership()", found="; ".join(unparse(s.stmt, 60) for s in others))
    finally:
        ctx.evidence = saved_e
    cfg = ana.cfg(st)
    upd = ms.methods.get("_update_cluster_membership")
    if upd is None:
        upd = ana.func(MS + "._update_cluster_membership")    # renamed: recognised by its place in the call graph (loader.match_renamed)
    calls = [cfg.node_of(c.node) for c in calls_to(ana, st, upd.qualname)]
    for s in stores:
        ok = bool(calls) and any(cfg.paths_avoiding(s.node, {c.id}, {cfg.exit.id}, kinds=("n",)) is None for c in calls)
        ctx.check(ok, st, "every path from the label store to the setter's exit passes the membership refresh", line=s.stmt.lineno,
                  role="setter:refresh-postdominates", expected="self._update_cluster_membership() after the store", found="a path skipping the refresh")
        ctx.check(s.value == Sym(st.params[1]), st, "the stored labelling is the assigned value", role="setter:value", found=str(s.value))
    # the refresh
    b = ana.builder(upd, no_inline=ana.known)
    self_ = Sym(upd.params[0])
    labels = Attr(self_, "point_labels")
    _negative_label_index(ctx, ana, upd, b, labels)
    ss = [s for s in b.stores() if s.attr == "member_points"]
    empties = [s for s in ss if s.value == tm.Lst([])]
    for s in empties:
        ctx.ok(upd, "with no labels every cluster's membership is emptied", line=s.stmt.lineno, role="refresh:empty", nontrivial=False)
    main = [s for s in ss if isinstance(s.base, Idx) and s.loops and s.value != tm.Lst([])]
    if not main:
        ctx.unrecognised(upd, "per-cluster membership assignment not found in the shape `clusters[k].member_points = buckets[k]`", role="refresh:assign")
    for s in main:
        k = s.base.idx[0]
        rng = s.loop_ranges[-1]
        if not isinstance(s.loops[-1].target, ast.Name):
            ctx.unrecognised(upd, "per-cluster membership assignment iterates a tuple target, not the shape `for k in range(K): clusters[k].member_points = buckets[k]`",
                             role="refresh:assign")
            continue
        okr = s.base.base == Attr(self_, "clusters") and rng == Range(0, Attr(Attr(self_, "arguments"), "num_clusters")) and k == Sym(s.loops[-1].target.id)
        ctx.check(okr, upd, "membership is assigned for every cluster id in range(K)", line=s.stmt.lineno, role="refresh:range",
                  expected="for k in range(K): self.clusters[k].member_points = ...", found=f"{s.base} with range {rng}")
        v = s.value
        # resolve the assigned expression to `BUCKETS[k]` through plain copies
        ve = s.stmt.value
        fl = Flow(ana, upd)
        hops = 0
        def unget(e_):
            # buckets.get(k, []) of a dict of lists is buckets[k] (a missing key is an empty bucket either way)
            if isinstance(e_, ast.Call) and isinstance(e_.func, ast.Attribute) and e_.func.attr == "get" and len(e_.args) == 2 and not e_.keywords \
                    and isinstance(e_.args[1], ast.List) and not e_.args[1].elts:
                return ast.copy_location(ast.Subscript(value=e_.func.value, slice=e_.args[0], ctx=ast.Load()), e_)
            return e_

        def uncopy(e_):
            # list(x), tuple(x), sorted(x), copy.copy(x), x[:] of a bucket hold the bucket's points (buckets are filled in index
            # order, so sorting changes nothing; the setter stores its own sorted list anyway)
            while True:
                if isinstance(e_, ast.Call) and len(e_.args) == 1 and not e_.keywords:
                    r_ = ana.res.fq_of_expr(upd, e_.func)
                    if r_ and r_[1] in ("builtins.list", "builtins.tuple", "builtins.sorted", "copy.copy", "copy.deepcopy"):
                        e_ = e_.args[0]
                        continue
                if isinstance(e_, ast.Subscript) and isinstance(e_.slice, ast.Slice) and e_.slice.lower is None and e_.slice.upper is None \
                        and e_.slice.step is None:
                    e_ = e_.value
                    continue
                return e_
        ve = unget(uncopy(ve))
        while isinstance(ve, ast.Name) and hops < 5:
            d = fl.sole_def(ve.id, fl.at(ve))
            ve = unget(uncopy(d.ast.value)) if d is not None and d.kind == "stmt" and isinstance(d.ast, ast.Assign) else None
            hops += 1
        if isinstance(v, App) and v.fn == ".get" and len(v.args) == 3 and v.args[2] == tm.Lst([]) and not v.kw:
            v = Idx(v.args[0], (v.args[1],))
        while isinstance(v, App) and v.fn in ("builtins.list", "builtins.tuple", "builtins.sorted", "copy.copy", "copy.deepcopy") and len(v.args) == 1 and not v.kw:
            v = v.args[0]
        if isinstance(v, Idx) and len(v.idx) == 1 and isinstance(v.idx[0], tm.Slc) and v.idx[0].lo is None and v.idx[0].hi is None and v.idx[0].step is None:
            v = v.base
        okv = isinstance(ve, ast.Subscript) and isinstance(ve.value, ast.Name) and isinstance(v, Idx) and v.idx == (k,)
        ctx.check(okv, upd, "cluster k receives the bucket collected for label k", line=s.stmt.lineno, role="refresh:bucket", expected="members[k]", found=str(v))
        if okv:
            bucket = ve.value.id
            cfg2 = ana.cfg(upd)
            apps = [n for n in Resolver.walk_own(upd.node) if isinstance(n, ast.Call) and isinstance(n.func, ast.Attribute) and n.func.attr == "append"
                    and isinstance(n.func.value, ast.Subscript) and _root_name(n.func.value) == bucket]
            oka = len(apps) == 1
            if oka:
                a = apps[0]
                node = cfg2.node_of(a)
                loops = cfg2.enclosing_loops(node)
                idx_t = b.term(a.func.value.slice, node)
                val_t = b.term(a.args[0], node)
                oka = len(loops) == 1 and isinstance(idx_t, Idx) and idx_t.base == labels and val_t == idx_t.idx[0] \
                    and b.binder_of(loops[0]) == (val_t, Range(0, tm.length(labels))) and b.guard_term(node, relative_to=cfg2.stmt_node[id(loops[0])]) == tm.TRUE
            ctx.check(oka, upd, "buckets are filled by one pass over the labels in index order: members[label[p]].append(p) for every p "
                                "(hence each bucket is sorted and the buckets partition the points)", role="refresh:fill",
                      expected="for (p, label) in enumerate(labels): members[label].append(p)", found=f"{len(apps)} append site(s)")
    # member_points setter
    mst = cp.setters.get("member_points")
    if mst is None:
        raise AnalysisError("ClusterParameters.member_points has no setter")
    sts = _no_store_condition_ok(ctx, mst, "_member_points", mst.params[1], "member_points")
    new = Sym(mst.params[1])
    for s in sts:
        # (a piecewise value is fine when every piece is: `[] if new is None else sorted(new)`)
        ok = all(v_ in (App("builtins.sorted", (new,)), tm.Lst([])) for _g, v_ in tm.pieces_of(s.value))
        ctx.check(ok, mst, "the member list stored is sorted(new_members) (or [] for an empty assignment)", line=s.stmt.lineno,
                  role=f"member-setter:value@{sts.index(s)}", expected="sorted(new_members) | []", found=str(s.value))


def _origin(ana, fi, e, depth=0):
    """Where does the list a mutation acts on come from?  'getter' | 'fresh' | 'param:<name>' | 'unknown'"""
    if depth > 8:
        return "unknown"
    if isinstance(e, ast.Attribute):
        if e.attr in LABEL_FIELDS:
            return "getter"
        return "unknown"
    if isinstance(e, ast.Call):
        r = ana.res.fq_of_expr(fi, e.func)
        if r and r[1] in ("builtins.list", "builtins.sorted", "copy.copy", "copy.deepcopy", "numpy.copy", "numpy.array"):
            return "fresh"
        if isinstance(e.func, ast.Attribute) and e.func.attr == "copy":
            return "fresh"
        return "unknown"
    if isinstance(e, (ast.List, ast.ListComp, ast.BinOp, ast.Dict, ast.DictComp)):
        return "fresh"
    if isinstance(e, ast.Subscript):
        if isinstance(e.slice, ast.Slice):
            return "fresh"
        return _origin(ana, fi, e.value, depth + 1) if False else "unknown"
    if isinstance(e, ast.Name):
        fl = Flow(ana, fi)
        at = fl.cfg.expr_node.get(id(e))
        if at is None:
            return "unknown"
        ds = fl.rd.reaching(at, e.id)
        outs = set()
        for d in ds:
            if d.kind == "entry":
                outs.add("param:" + e.id)
            elif d.kind == "stmt" and isinstance(d.ast, ast.Assign) and len(d.ast.targets) == 1 and isinstance(d.ast.targets[0], ast.Name):
                outs.add(_origin(ana, fi, d.ast.value, depth + 1))
            else:
                outs.add("unknown")
        if "getter" in outs:
            return "getter"
        if len(outs) == 1:
            return outs.pop()
        return "unknown"
    return "unknown"


@rule("C13", "R3", "OWN", "no in-place edit through a reference obtained from a label / member getter, or already handed to a state", floor=2, evidence=True)
def r3(ctx):
    ana = ctx.ana
    n_sites = 0
    for fi in ana.prog.functions.values():
        cfg = ana.cfg(fi)
        for n in Resolver.walk_own(fi.node):
            base = None
            what = ""
            if isinstance(n, (ast.Assign, ast.AugAssign)):
                tgts = n.targets if isinstance(n, ast.Assign) else [n.target]
                for t in tgts:
                    if isinstance(t, ast.Subscript):
                        base, what = t.value, "item assignment"
                    elif isinstance(n, ast.AugAssign) and isinstance(t, (ast.Name, ast.Attribute)):
                        base, what = t, "augmented assignment"
            elif isinstance(n, ast.Call) and isinstance(n.func, ast.Attribute) and n.func.attr in ALL_MUTATOR_METHODS:
                base, what = n.func.value, "." + n.func.attr + "()"
            elif isinstance(n, ast.Delete):
                for t in n.targets:
                    if isinstance(t, ast.Subscript):
                        base, what = t.value, "del item"
            if base is None:
                continue
            n_sites += 1
            org = _origin(ana, fi, base)
            role = f"edit@{short(fi.qualname)}:{unparse(base, 30)}:{what}"
            if org == "getter":
                ctx.fail(fi, f"`{unparse(n, 60)}` edits in place a list obtained from a point_labels / member_points getter: "
                             "labels and membership would stop describing one partition", line=n.lineno, role=role,
                         expected="copy first (list(x)) and assign through the setter", found=unparse(base))
                continue
            # published earlier on the same path?
            if isinstance(base, ast.Name):
                pub = []
                for m in Resolver.walk_own(fi.node):
                    if isinstance(m, ast.Assign) and isinstance(m.targets[0], ast.Attribute) and m.targets[0].attr in ("point_labels", "member_points") \
                            and isinstance(m.value, ast.Name) and m.value.id == base.id:
                        pub.append(m)
                    if isinstance(m, ast.Call):
                        for k in m.keywords:
                            if k.arg in ("point_labels", "member_points") and isinstance(k.value, ast.Name) and k.value.id == base.id:
                                pub.append(m)
                here = cfg.node_of(n) if not isinstance(n, ast.Call) else cfg.node_of(n)
                hit = None
                for p in pub:
                    pn = cfg.node_of(p)
                    same_def = {d.id for d in ana.rd(fi).reaching(pn, base.id)} & {d.id for d in ana.rd(fi).reaching(here, base.id)}
                    if same_def and cfg.paths_avoiding(pn, set(), {here.id}) is not None and pn.id != here.id:
                        hit = p
                if hit is not None:
                    ctx.fail(fi, f"`{unparse(n, 60)}` edits a list after it was handed to a state at line {hit.lineno} (still the same object)",
                             line=n.lineno, role=role, expected="no edit after publication", found=unparse(base))
                    continue
    ctx.ok("package", f"{n_sites} in-place edit sites examined: none acts through a label/member getter or on a list already handed to a state",
           role="edits")
    # helpers that receive a label list as a parameter and edit it in place are covered by R6 (writes to caller-owned lists)
    ctx.ok("package", "lists entering through parameters are decided by the ownership analysis of R6", role="edits:params", nontrivial=False)


@rule("C13", "R4", "RANGE", "a state always holds exactly K clusters", floor=3)
def r4(ctx):
    ana = ctx.ana
    from . import c20
    ctx.sub(c20.r2, only=("handler:",))     # no handler skips a cluster's update (the rebuilt list would have K-1 entries)
    ms = ana.prog.cls(MS)
    em = ms.methods["empty_model"]
    b = ana.builder(em, no_inline=ana.known)
    rt = b.return_term()
    cl = rt.kwarg("clusters") if isinstance(rt, App) else None
    ok = isinstance(cl, Comp) and not cl.conds and cl.iter == Range(0, Attr(Sym(em.params[0]), "num_clusters"))
    ctx.check(ok, em, "empty_model builds one cluster per id in range(num_clusters)", role="K:empty-model", expected="[empty_cluster() for _ in range(K)]", found=str(cl)[:120])
    # every other assignment of a cluster list is a 1:1 image of an existing cluster list
    for fi in ana.prog.functions.values():
        bb = None
        for n in Resolver.walk_own(fi.node):
            val = None
            if isinstance(n, ast.Assign) and len(n.targets) == 1 and isinstance(n.targets[0], ast.Attribute) and n.targets[0].attr == "clusters" \
                    and not (fi.cls is ms and fi.name == "__init__"):
                val = n.value
            elif isinstance(n, ast.Call) and fi.cls is ms and fi.name in ("shallow_copy", "deep_copy"):
                c = ana.res.callee(fi, n)
                if c.kind == "ctor" and c.cls is ms:
                    val = next((k.value for k in n.keywords if k.arg == "clusters"), None)
            if val is None:
                continue
            bb = bb or ana.builder(fi, no_inline=ana.known)
            t = bb.term(val)
            ln = tm.length(t) if not isinstance(t, App) else (tm.length(t.args[0]) if t.fn == "builtins.list" and t.args else None)
            srcs = [x for x in tm.subterms(t) if isinstance(x, Attr) and x.name == "clusters"]
            ok = ln is not None and any(ln == tm.length(s) for s in srcs)
            if not ok and isinstance(ln, App) and ln.fn == "len" and isinstance(ln.args[0], Sym) and ln.args[0].name in fi.own_params:
                # as many entries as a list handed in by the caller: fine when every caller hands in one entry per cluster
                from .common import param_length_at_callers
                at_callers = param_length_at_callers(ana, fi, ln.args[0].name)
                ok = bool(at_callers) and all(isinstance(x, Attr) and x.name == "num_clusters" for x in at_callers)
            ctx.check(ok, fi, f"`{unparse(n, 50)}` assigns a cluster list with exactly as many entries as an existing one", line=n.lineno,
                      role=f"K:assign@{short(fi.qualname)}", expected="a 1:1 image of model.clusters", found=str(t)[:140])
    # no structural edit of a cluster list
    for fi in ana.prog.functions.values():
        for n in Resolver.walk_own(fi.node):
            if isinstance(n, ast.Call) and isinstance(n.func, ast.Attribute) and n.func.attr in ("append", "pop", "remove", "insert", "extend", "clear") \
                    and isinstance(n.func.value, ast.Attribute) and n.func.value.attr == "clusters":
                ctx.fail(fi, f"`{unparse(n, 60)}` changes the number of clusters of a state", line=n.lineno, role=f"K:resize@{short(fi.qualname)}")


@rule("C13", "R5", "OWN", "a deep copy shares nothing mutable with its source", floor=2, evidence=True)
def r5(ctx):
    ana = ctx.ana
    mut = mutability_of_fields(ana)
    for q in (MS + ".deep_copy", CP + ".deep_copy", "containers.arguments.UserArguments.deep_copy"):
        fi = ana.func(q)
        oa = ownership(ana, q)
        reach = oa.reachable(oa.returns)
        shared = []
        for o in reach:
            if not o.is_ext:
                continue
            # classify by the field the object was read from
            path = o.key[1:]
            if not path:
                shared.append((o, "the source object itself"))
                continue
            last = path[-1]
            owner_cls = _class_of_path(ana, fi, path[:-1])
            if last == ELEM:
                cont_cls = _class_of_path(ana, fi, path[:-2]) if len(path) >= 2 else (fi.cls.qualname if fi.cls else None)
                ci = ana.prog.classes.get(cont_cls) if cont_cls else None
                ann = (ci.fields.get(path[-2]) or ci.fields.get(path[-2].lstrip("_"))) if ci and len(path) >= 2 else None
                ann_txt = ast.unparse(ann) if ann is not None else ""
                if any(x in ann_txt for x in ("List[int]", "List[float]", "List[bool]", "List[str]")):
                    continue    # elements are immutable scalars
                shared.append((o, "an element of a shared container"))
                continue
            m = mut.get((owner_cls, last.lstrip("_")), mut.get((owner_cls, last), True)) if owner_cls else True
            if m:
                shared.append((o, f"mutable field `{last}`"))
        ctx.check(not shared, fi, f"every object reachable from {short(q)}()'s result is fresh or immutable "
                                  f"({len(reach)} abstract objects reachable)", role=f"deep-copy:{short(q)}",
                  expected="no mutable object of the source is reachable from the copy",
                  found="; ".join(f"{o} ({why})" for o, why in sorted(shared, key=lambda x: str(x[0])))[:300])


def _class_of_path(ana, fi, path):
    """Class (qualname) of ext(self.path...) following field annotations."""
    cls = fi.cls
    if cls is None:
        return None
    cur = ("cls", cls.qualname)
    for p in path:
        if cur[0] == "list" and p == ELEM:
            cur = cur[1]
            continue
        if cur[0] != "cls":
            return None
        ci = ana.prog.classes.get(cur[1])
        if ci is None:
            return None
        ann = ci.fields.get(p) or ci.fields.get(p.lstrip("_"))
        cur = ana.res.ann_type(ci.module, ann)
    return cur[1] if cur[0] == "cls" else None


@rule("C13", "R6", "OWN", "no phase writes the labelling, membership or fitted statistics of the state it was given", floor=4, evidence=True)
def r6(ctx):
    ana = ctx.ana
    for q in PHASES:
        fi = ana.func(q)
        oa = ownership(ana, q)
        model = fi.params[0]
        bad = []
        allowed = []
        for m, objs in ext_writes(oa, model):
            if m.kind.startswith("attribute:") and m.attr in ("inverse_covariance", "log_determinant") \
                    and ".likelihood." in m.func.qualname:
                # derived scoring fields refreshed from train_inverse of the same cluster (C05.R3 decides that, wherever
                # in the likelihood module the store sits)
                allowed.append(m)
                continue
            bad.append((m, objs))
        for m, objs in bad:
            ctx.fail(fi, f"the input state may be modified at {describe(m)}", line=fi.node.lineno,
                     role=f"input-write:{short(q)}:{short(m.func.qualname)}:{m.kind}", expected="phases work on copies",
                     found=", ".join(sorted(map(str, objs)))[:140])
        if not bad:
            ctx.ok(fi, f"none of the {len(oa.mutations)} reachable mutation sites can write an object owned by the input state "
                       f"({len(allowed)} triaged refresh store(s) of derived scoring fields excepted)", role=f"input-write:{short(q)}")
        # the exception stays valid only while it is an idempotent refresh from train_inverse of the same cluster (C05.R3 decides that)
    from . import c05
    ctx.sub(c05.r3, only=("refresh:source", "refresh:then-copy", "refresh:model"))
