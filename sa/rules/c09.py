"""C09 - main loop: bounded, stops only at a fixed point, returns what it scored."""
from __future__ import annotations

import ast
from typing import Dict, List, Optional

from .. import terms as tm
from ..loader import AnalysisError, FuncInfo
from ..report import rule
from ..resolve import Resolver
from ..terms import Attr, Cmp, Range, Sym
from .common import Flow, attr_chain, bind_args, call_arg, callee_fq, calls_to, ctor_args, short, unparse

PHASES = {
    "repopulate": "fast_ticc.cluster_maintenance.repopulate_empty_clusters",
    "statistics": "fast_ticc.cluster_maintenance.update_all_cluster_statistics",
    "optimise": "fast_ticc.graphical_lasso.optimize_markov_random_fields",
    "relabel": "fast_ticc.cluster_label_assignment.predict_cluster_labels",
}
MODEL_STATE = ("cls", "fast_ticc.containers.model_state.ModelState")
USER_ARGS = ("cls", "fast_ticc.containers.arguments.UserArguments")


class MainLoop:
    """Locates the round loop and its phase calls by role (callee), not by name or line."""

    def __init__(self, ana):
        self.ana = ana
        self.fi = ana.func("main_loop.fit_stacked_data")
        self.cfg = ana.cfg(self.fi)
        self.rd = ana.rd(self.fi)
        self.calls: Dict[str, List] = {k: calls_to(ana, self.fi, v) for k, v in PHASES.items()}
        if not self.calls["relabel"]:
            raise AnalysisError("fit_stacked_data does not call predict_cluster_labels: the relabel phase vanished")
        rel = self.calls["relabel"][0].node
        loops = self.cfg.enclosing_loops(self.cfg.node_of(rel))
        if not loops:
            raise AnalysisError("the relabel phase is not inside a loop")
        self.loop = loops[0]
        self.header = self.cfg.stmt_node[id(self.loop)]
        self.body_entry = next(self.cfg.nodes[s] for s, k in self.cfg.succ[self.header.id]
                               if self.cfg.nodes[s].kind == "branch" and self.cfg.nodes[s].polarity)
        self.exit_node = next((self.cfg.nodes[s] for s, k in self.cfg.succ[self.header.id]
                               if self.cfg.nodes[s].kind in ("for_exit",) or
                               (self.cfg.nodes[s].kind == "branch" and self.cfg.nodes[s].polarity is False)), None)

    def phase_node(self, phase):
        cs = self.calls[phase]
        if len(cs) != 1:
            return None
        return self.cfg.node_of(cs[0].node)

    def in_loop(self, node) -> bool:
        return self.loop in self.cfg.enclosing_loops(node)

    def assigned_name(self, node) -> Optional[str]:
        from .common import def_target
        return def_target(node)

    def model_arg(self, phase) -> Optional[ast.expr]:
        cs = self.calls[phase][0]
        ba = bind_args(cs.callee.func, cs.node)
        return ba.get("model")


@rule("C09", "R1", "RANGE", "the round loop is range(iteration_limit), preceded by an assertion that the limit is positive", floor=3)
def r1(ctx):
    ana = ctx.ana
    ml = MainLoop(ana)
    fi = ml.fi
    lp = ml.loop
    if not ctx.check(isinstance(lp, ast.For), fi, "rounds are driven by a for loop (bounded), not a while loop", line=lp.lineno,
                     role="loop:kind", expected="for _ in range(iteration_limit)", found=type(lp).__name__):
        return
    b = ana.builder(fi, no_inline=ana.known)
    rng = b.loop_range(lp)
    ok = False
    found = unparse(lp.iter)
    if rng is not None and rng.lo == tm.ZERO and rng.step == tm.ONE:
        # the bound must be exactly <UserArguments>.iteration_limit (no arithmetic)
        it = lp.iter
        arg = it.args[0] if isinstance(it, ast.Call) and len(it.args) == 1 else None
        if isinstance(arg, ast.Attribute) and arg.attr == "iteration_limit" and ana.res.type_of(fi, arg.value) == USER_ARGS:
            ok = True
        elif isinstance(arg, ast.Name):
            fl = Flow(ana, fi)
            d = fl.sole_def(arg.id, fl.at(arg))
            if d is not None and d.kind == "stmt" and isinstance(d.ast, ast.Assign) and isinstance(d.ast.value, ast.Attribute) \
                    and d.ast.value.attr == "iteration_limit" and ana.res.type_of(fi, d.ast.value.value) == USER_ARGS:
                ok = True
    ctx.check(ok, fi, "loop bound is exactly arguments.iteration_limit", line=lp.lineno, role="loop:bound",
              expected="range(<UserArguments>.iteration_limit)", found=found)
    from .plumb import plumb
    plumb(ctx, ["iteration_limit"])          # ... and that field is the caller's iteration_limit in both front ends
    # assertion limit > 0 dominating the loop
    asserts = []
    for n in ml.cfg.nodes:
        if n.kind == "stmt" and isinstance(n.ast, ast.Assert):
            t = b.term(n.ast.test, n)
            if isinstance(t, Cmp):
                atoms = [a for a in t.poly.atoms() if isinstance(a, Attr) and a.name == "iteration_limit"]
                if atoms:
                    lim = atoms[0]
                    forms = {tm.compare(">", lim, 0).key, tm.compare(">=", lim, 1).key}
                    if t.key in forms:
                        asserts.append(n)
    dom = [n for n in asserts if ml.cfg.dominates(n, ml.header)]
    ctx.check(bool(dom), fi, "an assertion `iteration_limit > 0` dominates the round loop (at least one round)",
              line=lp.lineno, role="loop:positive", expected="assert arguments.iteration_limit > 0 before the loop",
              found=f"{len(asserts)} matching assertion(s), {len(dom)} dominating")
    # no while loop / no second loop re-running phases
    for phase, cs in ml.calls.items():
        ctx.check(len(cs) == 1, fi, f"phase `{phase}` is called at exactly one site", role=f"phase-site:{phase}",
                  expected="1 call site", found=f"{len(cs)} call sites at lines {[c.node.lineno for c in cs]}")
        for c in cs:
            n = ml.cfg.node_of(c.node)
            loops = ml.cfg.enclosing_loops(n)
            ctx.check(loops == [lp], fi, f"phase `{phase}` runs once per round (directly in the round loop)",
                      line=c.node.lineno, role=f"phase-loop:{phase}", expected="inside the round loop only",
                      found=f"{len(loops)} enclosing loop(s)")


@rule("C09", "R2", "ORDER", "every round runs statistics -> MRF optimisation -> relabel on the threaded state; repopulation only for round > 0", floor=6, evidence=True)
def r2(ctx):
    ana = ctx.ana
    ml = MainLoop(ana)
    fi, cfg, rd = ml.fi, ml.cfg, ml.rd
    nodes = {p: ml.phase_node(p) for p in PHASES}
    for p, n in nodes.items():
        if n is None:
            ctx.fail(fi, f"phase `{p}` has no unique call site", role=f"order:{p}")
            return
    order = ["statistics", "optimise", "relabel"]
    # each mandatory phase lies on every path through the body
    targets = {ml.header.id}
    for p in order:
        n = nodes[p]
        path = cfg.paths_avoiding(ml.body_entry, {n.id}, targets | {cfg.exit.id}, kinds=("n",))
        # breaks leave through the loop exit: also forbidden before the phase ran
        brk = _break_nodes(ml)
        path2 = None
        for bnode in brk:
            if not cfg.dominates(n, bnode):
                path2 = bnode
        ctx.check(path is None and path2 is None, fi, f"phase `{p}` runs on every path through a round",
                  line=n.lineno, role=f"every-round:{p}", expected="no path from the loop entry to the next round / loop exit that skips it",
                  found="a path skipping the phase" if path else ("a break not dominated by the phase" if path2 else ""))
    for a, bb in zip(order, order[1:]):
        ctx.check(cfg.dominates(nodes[a], nodes[bb]), fi, f"`{a}` precedes `{bb}` in every round", line=nodes[bb].lineno,
                  role=f"order:{a}<{bb}", expected=f"{a} dominates {bb}", found="not dominated")
    # repopulation precedes statistics when it runs
    p = cfg.paths_avoiding(nodes["repopulate"], set(), {nodes["statistics"].id}, kinds=("n",))
    back = cfg.paths_avoiding(nodes["statistics"], {ml.header.id}, {nodes["repopulate"].id}, kinds=("n",))
    ctx.check(p is not None and back is None, fi, "repopulation (when it runs) precedes statistics of the same round",
              line=nodes["repopulate"].lineno, role="order:repopulate<statistics",
              expected="repopulate ... statistics within one round", found="statistics can run before repopulation in a round")
    # guard round > 0
    b = ana.builder(fi, no_inline=ana.known)
    g = b.guard_term(nodes["repopulate"], relative_to=ml.body_entry)
    var = None
    if isinstance(ml.loop.target, ast.Name):
        var = Sym(ml.loop.target.id)
    accepted = set()
    if var is not None:
        accepted = {tm.compare(">", var, 0).key, tm.compare(">=", var, 1).key, tm.compare("!=", var, 0).key}
    parts = g.parts if isinstance(g, tm.And) else [g]
    ctx.check(any(pp.key in accepted for pp in parts), fi, "repopulation is guarded by `round index > 0`",
              line=nodes["repopulate"].lineno, role="guard:repopulate", expected="if current_iteration > 0", found=str(g))
    rest = [pp for pp in parts if pp.key not in accepted and pp != tm.TRUE]
    ctx.check(not rest, fi, "repopulation is attempted in every round after the first (no further condition in the main loop)",
              line=nodes["repopulate"].lineno, role="covers:repopulate", expected="no condition besides `round index > 0`",
              found=" & ".join(map(str, rest)))
    # threading of the state
    names = {p: ml.assigned_name(n) for p, n in nodes.items()}
    for p in PHASES:
        ctx.check(names[p] is not None, fi, f"result of `{p}` is bound to a state variable", line=nodes[p].lineno,
                  role=f"thread:{p}:bound", expected="state = phase(state, ...)", found=unparse(nodes[p].ast))
    prev = {"optimise": "statistics", "relabel": "optimise"}
    for p, q_ in prev.items():
        arg = ml.model_arg(p)
        ok = False
        found = unparse(arg) if arg is not None else "missing"
        if isinstance(arg, ast.Name):
            defs = rd.origins(nodes[p], arg.id)
            ok = [d.id for d in defs] == [nodes[q_].id]
            found = f"`{arg.id}` defined at line(s) {[d.lineno for d in defs]}"
        ctx.check(ok, fi, f"`{p}` receives exactly the state produced by `{q_}` of the same round", line=nodes[p].lineno,
                  role=f"thread:{q_}->{p}", expected=f"the definition at line {nodes[q_].lineno}", found=found)
    arg = ml.model_arg("statistics")
    ok = False
    found = unparse(arg) if arg is not None else "missing"
    if isinstance(arg, ast.Name):
        defs = rd.origins(nodes["statistics"], arg.id)
        allowed = {nodes["repopulate"].id, nodes["relabel"].id} | {d.id for d in rd.origins(ml.cfg.for_init[id(ml.loop)], arg.id)}
        ok = bool(defs) and {d.id for d in defs} <= allowed and nodes["relabel"].id in {d.id for d in defs}
        found = f"`{arg.id}` defined at line(s) {[d.lineno for d in defs]}"
    ctx.check(ok, fi, "`statistics` receives the state of the previous relabel (or its repopulated copy, or the initial state)",
              line=nodes["statistics"].lineno, role="thread:->statistics", expected="previous round's relabel / repopulate / initial state",
              found=found)
    arg = ml.model_arg("repopulate")
    ok = False
    if isinstance(arg, ast.Name):
        defs = rd.origins(nodes["repopulate"], arg.id)
        allowed = {nodes["relabel"].id} | {d.id for d in rd.origins(ml.cfg.for_init[id(ml.loop)], arg.id)}
        ok = {d.id for d in defs} <= allowed and nodes["relabel"].id in {d.id for d in defs}
        found = f"`{arg.id}` defined at line(s) {[d.lineno for d in defs]}"
    ctx.check(ok, fi, "`repopulate` receives the state of the previous round's relabel", line=nodes["repopulate"].lineno,
              role="thread:relabel->repopulate", expected="previous relabel", found=found)


def _break_nodes(ml: MainLoop):
    out = []
    for n in ml.cfg.nodes:
        if n.kind == "stmt" and isinstance(n.ast, ast.Break) and ml.cfg.enclosing_loops(n) and ml.cfg.enclosing_loops(n)[-1] is ml.loop:
            out.append(n)
    return out


def _conjuncts(fl: Flow, test: ast.expr, pol: bool, at, depth=0):
    """Resolve a branch test (through temporaries, `not`, and and/or under De Morgan) into the comparisons that hold on the
    branch: list of (Compare node, polarity, node at which the comparison is evaluated)."""
    if depth > 8:
        return []
    if isinstance(test, ast.UnaryOp) and isinstance(test.op, ast.Not):
        return _conjuncts(fl, test.operand, not pol, at, depth + 1)
    if isinstance(test, ast.BoolOp):
        if (isinstance(test.op, ast.And) and pol) or (isinstance(test.op, ast.Or) and not pol):
            out = []
            for v in test.values:
                out += _conjuncts(fl, v, pol, at, depth + 1)
            return out
        return [(test, pol, at)]      # a disjunction: kept whole (it is not a conjunct we can use)
    if isinstance(test, ast.Name):
        ds = fl.rd.reaching(at, test.id)
        if len(ds) == 1 and ds[0].kind == "stmt":
            from .common import def_value
            v = def_value(ds[0])
            if v is not None:
                return _conjuncts(fl, v, pol, ds[0], depth + 1)
        return [(test, pol, at)]
    return [(test, pol, at)]


@rule("C09", "R3", "FLOW", "the only early exit is guarded by equality of this round's labels with the previous round's", floor=3)
def r3(ctx):
    ana = ctx.ana
    ml = MainLoop(ana)
    fi, cfg, rd = ml.fi, ml.cfg, ml.rd
    fl = Flow(ana, fi)
    rel = ml.phase_node("relabel")
    breaks = _break_nodes(ml)
    rets = [n for n in cfg.nodes if n.kind == "stmt" and isinstance(n.ast, ast.Return) and ml.in_loop(n)]
    ctx.check(not rets, fi, "no return inside the round loop", role="exit:return", line=rets[0].lineno if rets else 0,
              expected="rounds end by exhaustion or by the fixed-point break", found=f"{len(rets)} return(s)")
    if not breaks:
        ctx.fail(fi, "the round loop has no fixed-point break (it always runs iteration_limit rounds, but must stop at a fixed point)",
                 line=ml.loop.lineno, role="exit:break-missing", expected="break when labels repeat")
        return
    base = {(id(o), p) for (_t, p, o) in cfg.guards(ml.body_entry)}
    for bn in breaks:
        gs = [g for g in cfg.guards(bn) if (id(g[2]), g[1]) not in base]
        eq = None
        shown = []
        for test, pol, owner in gs:
            tnode0 = cfg.stmt_node[id(owner)]
            for c, cpol, cat in _conjuncts(fl, test, pol, tnode0):
                shown.append(("" if cpol else "not ") + unparse(c, 60))
                if isinstance(c, ast.Compare) and len(c.ops) == 1 and ((isinstance(c.ops[0], ast.Eq) and cpol) or (isinstance(c.ops[0], ast.NotEq) and not cpol)):
                    eq = (c, cat)
        if eq is None:
            ctx.fail(fi, "break is not guarded by an equality test on labellings", line=bn.lineno, role="exit:break-guard",
                     expected="if previous_labels == state.point_labels: break", found="; ".join(shown))
            continue
        cmp_, tnode = eq
        sides = [cmp_.left, cmp_.comparators[0]]
        cur = [x for x in sides if isinstance(x, ast.Attribute) and x.attr in ("point_labels", "_point_labels") and isinstance(x.value, ast.Name)]
        prev = [x for x in sides if isinstance(x, ast.Name)]
        if len(cur) != 1 or len(prev) != 1:
            ctx.unrecognised(fi, "fixed-point test does not compare <state>.point_labels with a saved labelling in a form the rule recognises", line=cmp_.lineno,
                     role="exit:break-guard", found=unparse(cmp_))
            continue
        cur, prev = cur[0], prev[0]
        defs = rd.origins(tnode, cur.value.id)
        ctx.check([d.id for d in defs] == [rel.id], fi, "the current side of the test is the labelling just produced by relabel",
                  line=cmp_.lineno, role="exit:current-side", expected=f"state defined at line {rel.lineno}",
                  found=f"`{cur.value.id}` defined at line(s) {[d.lineno for d in defs]}")
        pdefs = rd.origins(tnode, prev.id)
        inloop = [d for d in pdefs if ml.in_loop(d)]
        outloop = [d for d in pdefs if not ml.in_loop(d)]
        from .common import def_value
        init_ok = len(outloop) == 1 and isinstance(def_value(outloop[0]), ast.Constant) and def_value(outloop[0]).value is None
        ctx.check(init_ok, fi, "before the first round the saved labelling is None (never equal to a labelling)", line=cmp_.lineno,
                  role="exit:prev-init", expected=f"{prev.id} = None before the loop",
                  found=f"initial definition(s) at line(s) {[d.lineno for d in outloop]}")
        ok = len(inloop) == 1 and def_value(inloop[0]) is not None
        why = f"{len(inloop)} in-loop definitions"
        if ok:
            d = inloop[0]
            dep = fl.closure(def_value(d), d)
            src_ok = any(a.endswith(".point_labels") or a.endswith("._point_labels") for a in dep.attrs)
            st_defs = set()
            direct = {n.id for n in ast.walk(def_value(d)) if isinstance(n, ast.Name)}
            typed = [nm for nm in dep.names if ana.res.type_of(fi, ast.Name(id=nm, ctx=ast.Load())) == MODEL_STATE]
            # the state variable read by the save itself (names further up the dependency chain are earlier states)
            for nm in ([n_ for n_ in typed if n_ in direct] or typed):
                st_defs |= {x.id for x in rd.origins(d, nm)}
            ok = src_ok and st_defs == {rel.id}
            why = f"saved value {unparse(def_value(d))} (state defs at lines {sorted(cfg.nodes[i].lineno for i in st_defs)})"
            after = cfg.dominates(tnode, d)
            ctx.check(after, fi, "the labelling is saved after the fixed-point test of its round", line=d.lineno, role="exit:prev-after-test",
                      expected="save after the test (so the test compares with the previous round)", found="saved before the test")
            # and it is saved on every path that continues to the next round
            skip = cfg.paths_avoiding(tnode, {d.id}, {ml.header.id}, kinds=("n",))
            ctx.check(skip is None, fi, "every round that does not stop saves its labelling for the next comparison", line=d.lineno,
                      role="exit:prev-every-round", expected="no path from the test to the next round that skips the save",
                      found="a path to the next round without saving")
        ctx.check(ok, fi, "the saved labelling is (a copy of) the labels produced by relabel in that round", line=cmp_.lineno,
                  role="exit:prev-source", expected="previous = copy(state.point_labels) with state from relabel", found=why)


@rule("C09", "R4", "FLOW", "every result field derives from the state produced by the last relabel", floor=3, evidence=True)
def r4(ctx):
    ana = ctx.ana
    from . import c04
    saved_ev, ctx.evidence = ctx.evidence, False
    try:
        ctx.sub(c04.r5, only=("mrfs",))      # "the ... MRFs it returns are those of the last round": the very matrices the labelling was scored with
    finally:
        ctx.evidence = saved_ev
    ml = MainLoop(ana)
    fi, cfg, rd = ml.fi, ml.cfg, ml.rd
    rel = ml.phase_node("relabel")
    # uses of ModelState-typed names after the loop
    excused = set()
    init = ml.cfg.for_init[id(ml.loop)]
    checked = 0
    for n in Resolver.walk_own(fi.node):
        if isinstance(n, ast.Name) and isinstance(n.ctx, ast.Load) and ana.res.type_of(fi, n) == MODEL_STATE:
            at = cfg.expr_node.get(id(n))
            if at is None or ml.in_loop(at) or cfg.dominates(at, ml.header) or at.id == init.id:
                continue
            if not cfg.dominates(ml.header, at):
                continue
            defs = rd.origins(at, n.id)
            ids = {d.id for d in defs}
            # definitions made before the loop (of this name, or of the name it is a plain copy of)
            pre = {d.id for d in rd.origins(init, n.id)} | {d.id for d in defs if not ml.in_loop(d) and cfg.dominates(d, ml.header)}
            stale = ids - {rel.id} - pre
            zero_trip_only = ids - {rel.id}
            ok = rel.id in ids and not stale
            checked += 1
            ctx.check(ok, fi, f"`{n.id}` read at line {n.lineno} is the state produced by the last relabel", line=n.lineno,
                      role=f"result-state:{n.id}@{_stmt_role(at)}", expected=f"definition at line {rel.lineno}",
                      found=f"definitions at lines {sorted(cfg.nodes[i].lineno for i in ids)}")
            if zero_trip_only & pre:
                excused |= zero_trip_only & pre
    if checked == 0:
        raise AnalysisError("no read of the model state after the round loop")
    # the reported cost is the final state's own cost field (not a running minimum, not a cost kept from an earlier round)
    ctor = calls_to(ana, fi, "fast_ticc.containers.results.SingleDataSeriesResult")
    if len(ctor) == 1:
        kw = ctor_args(ana, ctor[0])
        v = kw.get("label_assignment_cost")
        fl_ = Flow(ana, fi)
        hops = 0
        while isinstance(v, ast.Name) and hops < 3:
            d_ = fl_.sole_def(v.id, fl_.at(v))
            v = d_.ast.value if d_ is not None and isinstance(d_.ast, ast.Assign) and len(d_.ast.targets) == 1 and isinstance(d_.ast.targets[0], ast.Name) else None
            hops += 1
        ok = isinstance(v, ast.Attribute) and v.attr == "label_assignment_cost" and isinstance(v.value, ast.Name) and ana.res.type_of(fi, v.value) == MODEL_STATE
        ctx.check(ok, fi, "the reported label_assignment_cost is the cost field of the state the result is built from", line=ctor[0].node.lineno,
                  role="result-cost", expected="label_assignment_cost=<final state>.label_assignment_cost", found=unparse(kw.get("label_assignment_cost")) if kw.get("label_assignment_cost") is not None else "missing")
    if excused:
        ctx.note("pre-loop definitions of the state reach the result only along the zero-trip edge of the loop, which "
                 "C09.R1 (assert iteration_limit > 0 dominating range(iteration_limit)) makes infeasible")
    # each result keyword that reports model output depends on the state
    ctor = calls_to(ana, fi, "fast_ticc.containers.results.SingleDataSeriesResult")
    if len(ctor) != 1:
        raise AnalysisError("SingleDataSeriesResult constructor call not found exactly once in fit_stacked_data")
    fl = Flow(ana, fi)
    must = ["point_labels", "label_assignment_cost", "markov_random_fields", "all_log_likelihood", "overall_log_likelihood",
            "overall_log_likelihood_mean", "overall_log_likelihood_median", "cluster_log_likelihood_mean",
            "cluster_log_likelihood_median", "bayesian_information_criterion", "calinski_harabasz_index"]
    kws = ctor_args(ana, ctor[0])
    for name in must:
        v = kws.get(name)
        if v is None:
            ctx.fail(fi, f"result field `{name}` is not passed by keyword", line=ctor[0].node.lineno, role=f"result-field:{name}")
            continue
        dep = fl.closure(v)
        st = [nm for nm in dep.names if ana.res.type_of(fi, ast.Name(id=nm, ctx=ast.Load())) == MODEL_STATE]
        ctx.check(bool(st), fi, f"result field `{name}` is computed from the final model state", line=v.lineno,
                  role=f"result-field:{name}", expected="data-dependent on the state variable", found=unparse(v))


def _stmt_role(at):
    st = at.ast
    if isinstance(st, ast.Assign) and len(st.targets) == 1:
        return unparse(st.targets[0], 30)
    if isinstance(st, ast.Return):
        return "return"
    return at.kind


@rule("C09", "R5", "ORDER", "statistics and MRFs are fitted to the current labels: assigning labels re-derives membership at once")
def r5(ctx):
    from . import c13
    ctx.sub(c13.r2)


@rule("C09", "R6", "CMP", "repopulation only touches clusters with fewer than 2 points")
def r6(ctx):
    from . import c08
    ctx.sub(c08.r2)


@rule("C09", "R7", "AGREE", "a round fits MRF k to cluster k's own statistics and relabels with the minimum-cost kernel")
def r7(ctx):
    """"each [round] fitting cluster statistics and MRFs to the current labels before relabelling ... the returned labelling is a
    minimum-cost labelling for the returned model": the two mechanisms the loop delegates to."""
    from . import c01, c14, c20
    ctx.sub(c14.r2, only=("producer:", "consumer:", "unordered:"))     # result k of the optimiser updates cluster k (never completion order)
    ctx.sub(c20.r2, only=("get:",))                       # ... and a failed or slow task is never replaced by the previous MRF
    for r_ in (c01.r1, c01.r2, c01.r3, c01.r4, c01.r6, c01.r7):
        ctx.sub(r_)                                       # the relabel kernel returns a minimum-cost sequence and its cost
    ctx.sub(c01.r9, only=("handover:",))                  # ... for minus the log-likelihood of the model it was given
    from . import c12
    ctx.sub(c12.r3, only=("unconditional", "range", "slot"))     # every cluster's statistics are refitted to the current labels, one-member clusters included
    ctx.sub(c12.r1)                                       # ... from the rows of its current members (not from a table keyed by something else)
    from . import c03
    ctx.sub(c03.r5, only=("logdet:refresh",))             # the relabel table's log-determinants are taken by slogdet (no determinant is formed)


# ---------------------------------------------------------------------------------------------------------------------------
# Life-cycle obligations over the *cyclic* control-flow graph of the main loop.  C09.R2 states the order of the phases inside one
# round (that is what C09 says); the properties that merely depend on the loop need less, and need it along every path - through
# the back edge as well.  Each obligation below is a necessary condition of the property named with it.
def lifecycle(ctx, which):
    """which: subset of {"fresh-stats", "refill-before-fit", "fit-pairs", "bic-state", "nothing-after-relabel", "index-means-current"}"""
    saved_ev, ctx.evidence = ctx.evidence, True      # path facts of the round loop, not a shape template
    try:
        _lifecycle(ctx, which)
    finally:
        ctx.evidence = saved_ev


def _lifecycle(ctx, which):
    ana = ctx.ana
    ml = MainLoop(ana)
    fi, cfg, rd = ml.fi, ml.cfg, ml.rd
    nodes = {p: [cfg.node_of(c.node) for c in ml.calls[p]] for p in PHASES}
    missing = [p for p, n in nodes.items() if not n and p != "repopulate"]
    if missing:
        raise AnalysisError(f"phase(s) {missing} are not called in the main loop")
    init = [cfg.node_of(c.node) for c in calls_to(ana, fi, "fast_ticc.cluster_label_assignment.build_initial_clusters")]

    def no_path(srcs, dsts, avoid, drop_edges=()):
        av = {a.id for a in avoid}
        saved = {}
        for a, b in drop_edges:
            saved.setdefault(a, cfg.succ[a])
            cfg.succ[a] = [(s_, k) for (s_, k) in cfg.succ[a] if s_ != b]
        try:
            for src in srcs:
                for dst in dsts:
                    # a source that is itself to be avoided still *starts* the path (it is the event we start from)
                    if cfg.paths_avoiding(src, av - {src.id}, {dst.id}, kinds=("n",)) is not None:
                        return False
            return True
        finally:
            for a, v in saved.items():
                cfg.succ[a] = v

    def arg_of(call_node, phase):
        cs = [c for c in ml.calls[phase] if cfg.node_of(c.node) is call_node][0]
        return bind_args(cs.callee.func, cs.node).get("model")

    st, op, rl, rp = nodes["statistics"], nodes["optimise"], nodes["relabel"], nodes["repopulate"]
    if "fresh-stats" in which:
        # C12: whenever the optimiser runs, the statistics were recomputed after the last change of the labelling
        for name, srcs in (("initial labels", init), ("repopulate", rp), ("relabel", rl)):
            if not srcs:
                continue
            ctx.check(no_path(srcs, op, st), fi, f"after `{name}` changed the labelling, the statistics phase runs before the optimiser does (on every path, "
                      "through the back edge as well)", line=srcs[0].lineno, role=f"fresh-stats:{name}", expected="every path to optimise passes statistics",
                      found="a path reaches the optimiser with statistics of an older labelling")
        for o_ in op:
            arg = arg_of(o_, "optimise")
            ok = isinstance(arg, ast.Name) and bool(rd.origins(o_, arg.id)) and {d.id for d in rd.origins(o_, arg.id)} <= {x.id for x in st}
            ctx.check(ok, fi, "the optimiser receives exactly the state the statistics phase produced", line=o_.lineno, role="fresh-stats:thread",
                      expected="state = statistics(state); optimise(state)", found=unparse(arg) if arg is not None else "missing")
    if "refill-before-fit" in which:
        # C03: from the second round on, no labelling reaches the statistics phase without having passed repopulation
        drop = []
        var = Sym(ml.loop.target.id) if isinstance(ml.loop.target, ast.Name) else None
        accepted = {tm.compare(">", var, 0).key, tm.compare(">=", var, 1).key, tm.compare("!=", var, 0).key} if var is not None else set()
        b = ana.builder(fi, no_inline=ana.known)
        for r_ in rp:
            for t, pol, owner in cfg.guards(r_):
                if owner is ml.loop:
                    continue
                try:
                    gt = b.term(t, cfg.stmt_node[id(owner)])
                except Exception:
                    continue
                gt = gt if pol else tm.negate(gt)
                if gt.key not in accepted:
                    continue
                # the branch that skips repopulation because `round > 0` is false cannot be taken after the back edge
                for n in cfg.nodes:
                    if n.kind == "branch" and n.ast is owner and n.polarity != pol:
                        for pr, _k in cfg.pred.get(n.id, []):
                            drop.append((pr, n.id))
        ctx.check(bool(rp) and no_path(rl, st, rp, drop_edges=drop), fi,
                  "a labelling produced by `relabel` reaches the next statistics phase only through repopulation", line=(rp or st)[0].lineno,
                  role="refill-before-fit", expected="relabel ... repopulate ... statistics on every cyclic path",
                  found="a path from relabel to statistics that skips repopulation")
        for s_ in st:
            arg = arg_of(s_, "statistics")
            ok = False
            found = unparse(arg) if arg is not None else "missing"
            if isinstance(arg, ast.Name) and rp:
                defs = {d.id for d in rd.origins(s_, arg.id)}
                pre = {d.id for d in rd.origins(ml.cfg.for_init[id(ml.loop)], arg.id)}
                ok = bool(defs) and defs <= ({x.id for x in rp + rl + st} | pre)
                found = f"`{arg.id}` defined at line(s) {sorted(cfg.nodes[i].lineno for i in defs)}"
            ctx.check(ok, fi, "the statistics phase fits the (repopulated) state of the previous relabel or the initial state", line=s_.lineno,
                      role="refill-before-fit:thread", expected="relabel / repopulate / initial state", found=found)
    if "index-means-current" in which:
        # C17: the stored cluster means the index reads were fitted to the labelling it is computed for
        chs = calls_to(ana, fi, "fast_ticc.cluster_metrics.calinski_harabasz_index")
        if not chs:
            raise AnalysisError("the Calinski-Harabasz index is not computed in the main loop function")
        cn = [cfg.node_of(c.node) for c in chs]
        for name, srcs in (("relabel", rl), ("repopulate", rp)):
            if not srcs:
                continue
            ctx.check(no_path(srcs, cn, st), fi, f"after `{name}` changed the labelling, the statistics are refreshed before the index reads the stored "
                      "cluster means (on every path)", line=cn[0].lineno, role=f"index-means-current:{name}",
                      expected=f"{name} ... statistics ... calinski_harabasz_index, or means computed from the current members",
                      found=f"a path {name} -> calinski_harabasz_index without a statistics refresh: the index mixes the returned membership with means of an "
                            "earlier one (they differ when the converged round repopulated a cluster)")
    if "fit-pairs" in which:
        # C16: at the BIC, every cluster's MRF is the one fitted to the covariance stored next to it
        bic = calls_to(ana, fi, "fast_ticc.cluster_metrics.bayesian_information_criterion")
        if not bic:
            raise AnalysisError("the BIC is not computed in the main loop function")
        bn = [cfg.node_of(c.node) for c in bic]
        ctx.check(no_path(st, bn, op), fi, "no statistics refresh reaches the BIC without a fit in between (Theta_k was fitted to the S_k it is scored with)",
                  line=bn[0].lineno, role="fit-pairs", expected="statistics ... optimise ... BIC on every path", found="a path statistics -> BIC that skips the optimiser")
        for o_ in op:
            arg = arg_of(o_, "optimise")
            ok = isinstance(arg, ast.Name) and bool(rd.origins(o_, arg.id)) and {d.id for d in rd.origins(o_, arg.id)} <= {x.id for x in st}
            ctx.check(ok, fi, "the optimiser fits the state the statistics phase produced", line=o_.lineno, role="fit-pairs:thread",
                      found=unparse(arg) if arg is not None else "missing")
    if "bic-state" in which:
        # C16: the criterion is computed from the very state whose labels and MRFs the result reports
        bic = calls_to(ana, fi, "fast_ticc.cluster_metrics.bayesian_information_criterion")
        ctor = calls_to(ana, fi, "fast_ticc.containers.results.SingleDataSeriesResult")
        if not bic or len(ctor) != 1:
            raise AnalysisError("BIC call / result constructor not found in the main loop function")
        kw = ctor_args(ana, ctor[0])
        fl = Flow(ana, fi)

        def state_origins(expr):
            """definitions of the ModelState variables read while the expression's value is computed (first state read on each
            dependency chain: the statements that define the value, not the states those were derived from)"""
            out = set()
            dep = fl.closure(expr)
            nodes_ = [cfg.node_of(expr)] + [cfg.nodes[i] for i in dep.defs]
            for nd in nodes_:
                if nd is None or nd.ast is None or nd.kind not in ("stmt", "for", "for_init"):
                    continue
                if any(ana.res.type_of(fi, ast.Name(id=v_, ctx=ast.Load())) == MODEL_STATE for v_ in (nd.defs or ())):
                    continue       # a statement that *produces* a state: what it read is an earlier state
                src = nd.ast.iter if isinstance(nd.ast, ast.For) else getattr(nd.ast, "value", nd.ast)
                if src is None:
                    continue
                for n in ast.walk(src):
                    if isinstance(n, ast.Name) and isinstance(n.ctx, ast.Load) and ana.res.type_of(fi, n) == MODEL_STATE:
                        at = cfg.expr_node.get(id(n)) or nd
                        out |= {d.id for d in rd.origins(at, n.id)}
            return out
        want = state_origins(kw["point_labels"]) if "point_labels" in kw else set()
        for b_ in bic:
            bn = cfg.node_of(b_.node)
            arg = bind_args(b_.callee.func, b_.node).get("model")
            got = {d.id for d in rd.origins(bn, arg.id)} if isinstance(arg, ast.Name) else set()
            ok = bool(got) and bool(want) and got == want
            ctx.check(ok, fi, "the BIC is computed from the state whose labels the result reports", line=bn.lineno, role="bic-state",
                      expected=f"state defined at line(s) {sorted(cfg.nodes[i].lineno for i in want)}",
                      found=f"state defined at line(s) {sorted(cfg.nodes[i].lineno for i in got)}")
    if "index-state" in which:
        # C17: the index the result reports was computed from the state whose labels it reports (not from an earlier round's state)
        ctor = calls_to(ana, fi, "fast_ticc.containers.results.SingleDataSeriesResult")
        if len(ctor) != 1:
            raise AnalysisError("SingleDataSeriesResult constructor call not found exactly once")
        kw = ctor_args(ana, ctor[0])
        if "calinski_harabasz_index" not in kw or "point_labels" not in kw:
            raise AnalysisError("the result constructor is not given calinski_harabasz_index= / point_labels=")
        fl = Flow(ana, fi)
        lab_dep = fl.closure(kw["point_labels"])
        want = set()
        for nd in [cfg.node_of(kw["point_labels"])] + [cfg.nodes[i] for i in lab_dep.defs]:
            src = None if nd is None or nd.ast is None else (nd.ast.iter if isinstance(nd.ast, ast.For) else getattr(nd.ast, "value", nd.ast))
            if src is None or any(ana.res.type_of(fi, ast.Name(id=v_, ctx=ast.Load())) == MODEL_STATE for v_ in (nd.defs or ())):
                continue
            for n in ast.walk(src):
                if isinstance(n, ast.Name) and isinstance(n.ctx, ast.Load) and ana.res.type_of(fi, n) == MODEL_STATE:
                    want |= {d.id for d in rd.origins(cfg.expr_node.get(id(n)) or nd, n.id)}
        dep = fl.closure(kw["calinski_harabasz_index"])
        chq = "fast_ticc.cluster_metrics.calinski_harabasz_index"
        feeding = [c for c in calls_to(ana, fi, chq) if any(c.node is x for x in dep.calls) or c.node is kw["calinski_harabasz_index"]]
        if not feeding:
            raise AnalysisError("the reported index does not come from a calinski_harabasz_index call in the main loop function")
        for c in feeding:
            cn_ = cfg.node_of(c.node)
            arg = bind_args(c.callee.func, c.node).get("model")
            got = {d.id for d in rd.origins(cn_, arg.id)} if isinstance(arg, ast.Name) else set()
            ok = bool(got) and bool(want) and got == want
            ctx.check(ok, fi, "the reported index is computed from the state whose labels the result reports", line=cn_.lineno, role="index-state",
                      expected=f"state defined at line(s) {sorted(cfg.nodes[i].lineno for i in want)}",
                      found=f"state defined at line(s) {sorted(cfg.nodes[i].lineno for i in got)}")
    if "nothing-after-relabel" in which:
        # C06: labels, cost and likelihoods of the result describe one state - nothing refits, refills or rescores after the last relabel
        ctor = calls_to(ana, fi, "fast_ticc.containers.results.SingleDataSeriesResult")
        if len(ctor) != 1:
            raise AnalysisError("SingleDataSeriesResult constructor call not found exactly once")
        cn = [cfg.node_of(ctor[0].node)]
        for name, srcs in (("repopulate", rp), ("statistics", st), ("optimise", op)):
            if not srcs:
                continue
            ctx.check(no_path(srcs, cn, rl), fi, f"`{name}` never runs after the last relabel (the result's cost was computed for the state it reports)",
                      line=srcs[0].lineno, role=f"nothing-after-relabel:{name}", expected=f"every path from {name} to the result passes relabel",
                      found=f"a path from {name} to the result that skips relabel")
