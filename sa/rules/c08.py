"""C08 - cluster repopulation conserves points and never starves a donor (lemma L-DONOR)."""
from __future__ import annotations

import ast
from fractions import Fraction
from typing import Optional

from .. import terms as tm
from ..loader import AnalysisError
from ..report import rule
from ..resolve import Resolver
from ..terms import And, App, Attr, Cmp, Comp, Idx, Poly, Range, Sym, Tup
from .common import Flow, bind_args, calls_to, short, unparse
from .plumb import plumb

CM = "cluster_maintenance."
REPOP = CM + "repopulate_empty_clusters"
DONOR = CM + "_find_point_donor"
RANK = CM + "_find_ranked_donor_cluster_ids"
MOVE = CM + "_move_random_points"


def _coef(cmp: Cmp, size, m) -> Optional[tuple]:
    """For a normalised comparison over {size, m}: return (op, c) meaning  size OP c*m  with OP in <, <=, >, >=."""
    p = cmp.poly
    cs = cm_ = Fraction(0)
    for mono, c in p.terms:
        if len(mono) == 1 and mono[0][1] == 1 and mono[0][0] == size:
            cs = c
        elif len(mono) == 1 and mono[0][1] == 1 and mono[0][0] == m:
            cm_ = c
        else:
            return None
    if cs == 0:
        return None
    # cs*size + cm*m OP 0
    ratio = -cm_ / cs
    op = cmp.op
    if cs < 0:
        op = {"<": ">", "<=": ">="}.get(op, op)
    return (op, ratio)


@rule("C08", "R1", "OWN", "repopulation works on copies: a fresh state whose clusters are all deep copies; only that state is written", floor=3)
def r1(ctx):
    ana = ctx.ana
    fi = ana.func(REPOP)
    b = ana.builder(fi, no_inline=ana.known)
    m = Sym(fi.params[0])
    stores = b.stores()
    cl = [s for s in stores if s.attr == "clusters"]
    ok = len(cl) == 1
    if ok:
        s = cl[0]
        t = s.value
        ok_base = isinstance(s.base, App) and s.base.fn.endswith("ModelState.shallow_copy") and s.base.args == (m,)
        ctx.check(ok_base, fi, "the working state is a shallow copy of the input state", line=s.stmt.lineno, role="copy:state",
                  expected=f"{m}.shallow_copy()", found=str(s.base))
        src = [Attr(m, "clusters"), Attr(s.base, "clusters")]
        okc = isinstance(t, Comp) and not t.conds and isinstance(t.elt, App) and t.elt.fn.endswith("ClusterParameters.deep_copy") \
            and any(t.elt.args == (Idx(sv, (t.var,)),) and t.iter == Range(0, tm.length(sv)) for sv in src)
        ctx.check(okc, fi, "every cluster of the working state is a deep copy (donors and bystanders included), in cluster order",
                  line=s.stmt.lineno, role="copy:clusters", expected="[c.deep_copy() for c in model.clusters]", found=str(t)[:160])
        new_state = s.base
        # every other store targets the working state
        for s2 in stores:
            if s2 is s:
                continue
            ctx.check(s2.base == new_state, fi, f"store `{unparse(s2.target)}` writes the working copy, not the input state", line=s2.stmt.lineno,
                      role=f"copy:store:{s2.attr or s2.base_name}", expected=str(new_state), found=str(s2.base))
        # copies happen before any label assignment
        cfg = ana.cfg(fi)
        for s2 in stores:
            if s2.attr == "point_labels":
                ctx.check(cfg.dominates(s.node, s2.node), fi, "clusters are copied before labels are reassigned", line=s2.stmt.lineno,
                          role="copy:order", expected="copy dominates the label assignment", found="not dominated")
        rt = b.return_term()
        pieces = {v.key for _g, v in tm.pieces_of(rt)}
        ctx.check(pieces <= {new_state.key, m.key} and new_state.key in pieces, fi,
                  "the function returns the working copy (or the untouched input when nothing needs repopulating)", role="copy:return",
                  expected=f"{new_state} | {m}", found=", ".join(sorted(pieces))[:200])
    else:
        ctx.fail(fi, "the working state's clusters are not replaced by copies exactly once", role="copy:clusters", found=f"{len(cl)} store(s)")
    # ownership analysis: nothing reachable from repopulation may write an object owned by the input state
    from .own import describe, ext_writes, ownership
    oa = ownership(ana, REPOP)
    bad = ext_writes(oa, fi.params[0])
    for mm, objs in bad:
        ctx.fail(fi, f"the caller's model state may be modified at {describe(mm)}", role=f"input-write:{short(mm.func.qualname)}:{mm.kind}",
                 expected="only the working copy is written", found=", ".join(sorted(map(str, objs)))[:140])
    if not bad:
        ctx.ok(fi, f"none of the {len(oa.mutations)} mutation sites reachable from repopulation can write an object owned by the input state",
               role="input-write")


@rule("C08", "R2", "CMP", "recipients are exactly the clusters with fewer than 2 points, each refilled once", floor=3)
def r2(ctx):
    ana = ctx.ana
    fi = ana.func(REPOP)
    b = ana.builder(fi, no_inline=ana.known)
    cfg = ana.cfg(fi)
    m = Sym(fi.params[0])
    clusters = Attr(m, "clusters")
    # the refill loop: the loop that contains the donor search
    dcalls = calls_to(ana, fi, ana.func(DONOR).qualname)
    if not dcalls:
        raise AnalysisError("repopulation does not search for a donor")
    loops = cfg.enclosing_loops(cfg.node_of(dcalls[0].node))
    if len(loops) != 1 or not isinstance(loops[0], ast.For):
        raise AnalysisError("the donor search is not inside a single refill loop")
    lp = loops[0]
    coll_t = b.term(lp.iter, cfg.for_init[id(lp)])
    # coll_t is either a comprehension term, or a set/list filled by a loop (an opaque mutated name)
    g = arg = it = k = None
    if isinstance(coll_t, Comp) and len(coll_t.conds) == 1:
        g, arg, k, it = coll_t.conds[0], coll_t.elt, coll_t.var, coll_t.iter
    elif isinstance(lp.iter, ast.Name):
        coll = lp.iter.id
        adds = [n for n in Resolver.walk_own(fi.node) if isinstance(n, ast.Call) and isinstance(n.func, ast.Attribute)
                and n.func.attr in ("add", "append") and isinstance(n.func.value, ast.Name) and n.func.value.id == coll]
        if len(adds) == 1:
            a = adds[0]
            node = cfg.node_of(a)
            ls = cfg.enclosing_loops(node)
            if len(ls) == 1:
                g = b.guard_term(node)
                arg = b.term(a.args[0], node)
                k, it = b.binder_of(ls[0])
    if g is None:
        raise AnalysisError("recipient collection not recognised (neither a filtered comprehension nor a single add/append loop)")
    size = Attr(Idx(clusters, (k,)), "size")
    ok = g.key in (tm.compare("<", size, 2).key, tm.compare("<=", size, 1).key)
    ctx.check(ok, fi, "a cluster is a recipient iff its size is < 2", line=lp.lineno, role="recipient:test", expected=f"{size} < 2", found=str(g))
    ub = tm.upper_bound(g, size)
    ctx.check(ub is not None and ub >= 1, fi, "every cluster with fewer than 2 points is a recipient", line=lp.lineno, role="recipient:covers",
              expected=f"{size} <= b with b >= 1", found=str(g))
    ctx.check(arg == k and it == Range(0, tm.length(clusters)), fi, "the recipient set holds cluster ids, every cluster is examined",
              line=lp.lineno, role="recipient:ids", expected=f"{k} over all clusters", found=f"{arg} over {it}")
    ctx.ok(fi, "one refill loop over the recipient collection (each recipient refilled once)", role="recipient:loop", line=lp.lineno)
    # early return when the set is empty returns the input untouched
    rt = b.return_term()
    ctx.check(any(v == m for _g, v in tm.pieces_of(rt)), fi, "with no recipient the input state is returned unchanged", role="recipient:none",
              found=str(rt)[:100])


@rule("C08", "R3", "CONST", "eligibility >= 2m, retirement < 3m and donation m satisfy retire = eligible + donate exactly", floor=5)
def r3(ctx):
    ana = ctx.ana
    fi = ana.func(DONOR)
    b = ana.builder(fi, no_inline=ana.known)
    cfg = ana.cfg(fi)
    model = Sym(fi.params[0])
    mm = Attr(Attr(model, "arguments"), "min_cluster_size")
    rets = [n for n in cfg.nodes if n.kind == "stmt" and isinstance(n.ast, ast.Return)]
    if len(rets) != 1:
        raise AnalysisError(f"_find_point_donor: expected one return, found {len(rets)}")
    rn = rets[0]
    rt = b.term(rn.ast.value, rn)
    if not (isinstance(rt, Tup) and len(rt.elems) == 2):
        raise AnalysisError("_find_point_donor does not return (donor, remaining)")
    donor = rt.elems[0]
    sizes = [x for x in tm.subterms(b.guard_term(rn)) if isinstance(x, Attr) and x.name == "size"]
    if not sizes:
        raise AnalysisError("eligibility guard on the donor's size not found")
    size = sizes[0]
    ctx.check(size == Attr(Idx(Attr(model, "clusters"), (donor,)), "size"), fi, "the size tested is the size of the cluster that is returned as donor",
              role="eligible:same-cluster", expected=f"model.clusters[{donor}].size", found=str(size))
    g = b.guard_term(rn)
    parts = g.parts if isinstance(g, And) else [g]
    elig = None
    for p in parts:
        if isinstance(p, Cmp):
            c = _coef(p, size, mm)
            if c and c[0] in (">=", ">"):
                elig = c
    ctx.check(elig is not None and elig[0] == ">=" and elig[1] == 2, fi, "a donor is eligible iff size >= 2*m (it can give m and keep m)",
              line=rn.lineno, role="eligible:threshold", expected="size >= 2 * min_cluster_size", found=str(g))
    # retirement: the pop of the selected donor
    # removal sites: pool.pop(i) / pool.remove(x) / del pool[i]; the one from which the return is reached within the same
    # iteration retires the selected donor, the others discard ineligible candidates
    removals = []
    for n_ in Resolver.walk_own(fi.node):
        if isinstance(n_, ast.Call) and isinstance(n_.func, ast.Attribute) and n_.func.attr in ("pop", "remove"):
            removals.append((n_, cfg.node_of(n_)))
        elif isinstance(n_, ast.Delete) and len(n_.targets) == 1 and isinstance(n_.targets[0], ast.Subscript):
            removals.append((n_, cfg.stmt_node[id(n_)]))
    loop_hdrs = {cfg.stmt_node[id(l)].id for l in Resolver.walk_own(fi.node) if isinstance(l, (ast.While, ast.For))}
    retire = None
    for p, node in removals:
        if cfg.paths_avoiding(node, loop_hdrs, {rn.id}, kinds=("n",)) is not None:
            gp = b.guard_term(node)
            extra = [q for q in (gp.parts if isinstance(gp, And) else [gp]) if q.key not in {pp.key for pp in parts}]
            retire = (p, node, extra)
    if retire is None:
        ctx.fail(fi, "the selected donor is never retired from the pool", role="retire:missing", expected="pop the donor when size < 3*m")
        return
    p, node, extra = retire
    rc = _coef(extra[0], size, mm) if len(extra) == 1 and isinstance(extra[0], Cmp) else None
    ctx.check(rc is not None and rc[0] == "<" and rc[1] == 3, fi, "the donor leaves the pool iff size < 3*m: a donor that stays keeps >= 2*m "
              "(still eligible) and a donor with exactly 3*m stays", line=p.lineno, role="retire:threshold",
              expected="size < 3 * min_cluster_size  (= eligible 2m + donated m)", found="; ".join(str(e) for e in extra))
    # what is removed is the selected donor (the head of the pool)
    head_ok = False
    if isinstance(p, ast.Delete):
        sub = p.targets[0]
        head_ok = donor == b.term(sub, node)
    elif p.func.attr == "pop" and len(p.args) == 1:
        idx = b.term(p.args[0], node)
        pool = b.term(p.func.value, node)
        head_ok = donor == Idx(pool, (idx,)) or (isinstance(donor, Idx) and donor.idx == (idx,))
    elif p.func.attr == "remove" and len(p.args) == 1:
        head_ok = b.term(p.args[0], node) == donor
    ctx.check(head_ok, fi, "the retired entry is the donor that is being returned", line=p.lineno, role="retire:which",
              expected="pop(0) / del pool[0] with donor = pool[0]", found=unparse(p))
    ctx.check(isinstance(donor, Idx) and donor.idx == (tm.ZERO,), fi, "the donor is the head of the ranked pool", role="donor:head",
              expected="pool[0]", found=str(donor))
    # donation size
    mv = ana.func(MOVE)
    bm = ana.builder(mv, no_inline=ana.known)
    samples = [x for n in ana.cfg(mv).nodes if n.kind == "stmt" and isinstance(n.ast, ast.Assign)
               for x in tm.subterms(bm.term(n.ast.value, n)) if isinstance(x, App) and x.fn == "random.sample"]
    if not samples:
        raise AnalysisError("random.sample call not found in _move_random_points")
    sm = samples[0]
    mm2 = Attr(Attr(Sym(mv.params[0]), "arguments"), "min_cluster_size")
    ctx.check(len(sm.args) == 2 and sm.args[1] == mm2, mv, "exactly m = min_cluster_size points are drawn per refill", role="donate:count",
              expected=str(mm2), found=str(sm.args[1]) if len(sm.args) > 1 else "")
    # ranking filter uses the same eligibility constant
    rk = ana.func(RANK)
    br = ana.builder(rk, no_inline=ana.known)
    rrt = br.return_term()
    pot = rrt.args[0] if isinstance(rrt, App) and rrt.fn == "builtins.sorted" and rrt.args else None
    okf = False
    if isinstance(pot, Comp) and len(pot.conds) == 1 and isinstance(pot.conds[0], Cmp):
        msz = Attr(Idx(Attr(Sym(rk.params[0]), "clusters"), (pot.var,)), "size")
        c = _coef(pot.conds[0], msz, Attr(Attr(Sym(rk.params[0]), "arguments"), "min_cluster_size"))
        okf = c == (">=", Fraction(2)) and pot.elt == pot.var and pot.iter == Range(0, tm.length(Attr(Sym(rk.params[0]), "clusters")))
    ctx.check(okf, rk, "the initial pool is every cluster id with size >= 2*m", role="pool:filter", expected="[i for i in range(K) if size_i >= 2*m]",
              found=str(pot)[:160])
    plumb(ctx, ["min_cluster_size"])


def _reach(cfg, node):
    seen = set()
    st = [node.id]
    while st:
        n = st.pop()
        if n in seen:
            continue
        seen.add(n)
        st.extend(s for s, k in cfg.succ[n] if k == "n")
    return seen


@rule("C08", "R4", "FLOW", "donors are ranked by the norm of their own computed covariance, largest first", floor=2)
def r4(ctx):
    ana = ctx.ana
    rk = ana.func(RANK)
    b = ana.builder(rk, no_inline=ana.known)
    rt = b.return_term()
    m = Sym(rk.params[0])
    ok = isinstance(rt, App) and rt.fn == "builtins.sorted" and rt.kwarg("reverse") == tm.Lit(True) and rt.kwarg("key") is not None
    ctx.check(ok, rk, "the pool is sorted in descending order of the key", role="rank:descending", expected="sorted(pool, key=spread, reverse=True)",
              found=str(rt)[:160])
    key = rt.kwarg("key") if isinstance(rt, App) else None
    okk = False
    if isinstance(key, App) and key.fn == "lambda" and len(key.args) == 2 and isinstance(key.args[0], Tup) and len(key.args[0].elems) == 1:
        i = key.args[0].elems[0]
        want = App("numpy.linalg.norm", (Attr(Idx(Attr(m, "clusters"), (i,)), "computed_covariance"),))
        okk = key.args[1] == want
    elif isinstance(key, Attr) and key.name == "__getitem__":
        # key=spread.__getitem__: the key of id i is spread[i]
        i = Sym("$i")
        want = App("numpy.linalg.norm", (Attr(Idx(Attr(m, "clusters"), (i,)), "computed_covariance"),))
        try:
            okk = tm.index(key.base, (i,)) == want
        except Exception:
            okk = False
    ctx.check(okk, rk, "the key of cluster i is norm(clusters[i].computed_covariance) (its own spread, Frobenius norm)", role="rank:key",
              expected="key(i) = numpy.linalg.norm(model.clusters[i].computed_covariance)", found=str(key)[:200])
    # the ranked pool is what the refill loop consumes
    fi = ana.func(REPOP)
    fl = Flow(ana, fi)
    cs = calls_to(ana, fi, ana.func(DONOR).qualname)
    for c in cs:
        ba = bind_args(c.callee.func, c.node)
        dep = fl.closure(ba[c.callee.func.params[1]])
        ctx.check(rk.qualname in dep.call_names, fi, "the donor search consumes the ranked pool (and what earlier searches left of it)",
                  line=c.node.lineno, role="rank:consumed", expected=short(rk.qualname), found=", ".join(sorted(short(x) for x in dep.call_names))[:120])


@rule("C08", "R5", "FLOW", "exactly m distinct member points of the donor are relabelled to the recipient in a fresh label list", floor=5)
def r5(ctx):
    ana = ctx.ana
    mv = ana.func(MOVE)
    b = ana.builder(mv, no_inline=ana.known)
    cfg = ana.cfg(mv)
    model, donor, recip = (Sym(p) for p in mv.params)
    members = Attr(Idx(Attr(model, "clusters"), (donor,)), "member_points")
    rt = b.return_term()
    if not isinstance(rt, Sym):
        from ..build import _root_term
        if isinstance(rt, (Attr, Idx)) and _root_term(rt) == model:
            ctx.fail(mv, "the returned labelling is an object of the caller's model, written through a local alias: the input list is edited",
                     role="move:fresh-copy", expected=f"list({Attr(model, 'point_labels')})", found=str(rt))
            return
        raise AnalysisError("_move_random_points does not return a local list")
    name = rt.name
    d = [n for n in cfg.nodes if n.kind == "stmt" and isinstance(n.ast, ast.Assign) and name in n.defs]
    t0 = b.term(d[0].ast.value, d[0]) if len(d) == 1 else None
    labels = Attr(model, "point_labels")
    fresh = t0 is not None and t0 in (App("builtins.list", (labels,)), App("copy.copy", (labels,)), Idx(labels, (tm.Slc(),)), App("numpy.copy", (labels,)))
    ctx.check(fresh, mv, "the new labelling starts as a fresh copy of the model's labels (the input list is never edited)", role="move:fresh-copy",
              expected=f"list({labels})", found=str(t0))
    stores = [s for s in b.stores() if s.base_name == name]
    ok = len(stores) == 1 and len(stores[0].loops) == 1 and stores[0].guards == tm.TRUE and stores[0].aug is None
    if not ctx.check(ok, mv, "one unconditional store per donated point", role="move:single-store", found=f"{len(stores)} store(s)"):
        return
    s = stores[0]
    ctx.check(s.value == recip, mv, "donated points receive the recipient's id", line=s.stmt.lineno, role="move:value", expected=str(recip), found=str(s.value))
    # index: members[sample[j]]
    idx = s.idx[0]
    ok = False
    found = str(idx)
    want = App("random.sample", (Range(0, tm.length(members)), Attr(Attr(model, "arguments"), "min_cluster_size")))
    # the store index is members[sample[j]] with j running over the whole sample
    if isinstance(idx, Idx) and idx.base == members and len(idx.idx) == 1 and isinstance(idx.idx[0], Idx) and len(idx.idx[0].idx) == 1:
        sm = idx.idx[0].base
        j = idx.idx[0].idx[0]
        full = bool(s.loop_vars) and s.loop_vars[-1] == j and s.loop_ranges[-1] is None
        if not full and s.loop_vars and s.loop_vars[-1] == j:
            full = True
        # the loop must run over every drawn index: its binder is range(len(sample)) (possibly through a list of ids of that length)
        bind = b.binder_of(s.loops[-1]) if s.loops else None
        full = bind is not None and bind[0] == j and bind[1] in (Range(0, tm.length(sm)), Range(0, tm.length(Range(0, tm.length(sm)))))
        ok = sm == want and full
        found = f"{name}[{members}[{sm}[{j}]]] for {bind[0] if bind else '?'} in {bind[1] if bind else '?'}"
    # direct form: random.sample(members, m)[j] - the drawn elements themselves (same positions, same use of the generator)
    if not ok and isinstance(idx, Idx) and len(idx.idx) == 1 and isinstance(idx.base, App) and idx.base.fn == "random.sample":
        sm = idx.base
        j = idx.idx[0]
        bind = b.binder_of(s.loops[-1]) if s.loops else None
        full = bind is not None and bind[0] == j and bind[1] in (Range(0, tm.length(sm)), Range(0, tm.length(Range(0, tm.length(sm)))))
        ok = sm == App("random.sample", (members, Attr(Attr(model, "arguments"), "min_cluster_size"))) and full
        found = f"{name}[{sm}[{j}]] for {bind[0] if bind else '?'} in {bind[1] if bind else '?'}"
    ctx.check(ok, mv, "the relabelled points are members[i] for i in random.sample(range(len(members)), m): m distinct points of the donor",
              line=s.stmt.lineno, role="move:which", expected=f"random.sample(range(len({members})), m) indexing {members}", found=found[:220])
    others = [m_ for m_ in b.mutated.get(name, []) if not isinstance(m_, ast.Assign)]
    ctx.check(not others, mv, "nothing else edits the new labelling", role="move:no-other-write", found=f"{len(others)} mutation(s)")


@rule("C08", "R6", "ORDER", "each refill is committed to the working state before the next donor is chosen", floor=3)
def r6(ctx):
    ana = ctx.ana
    fi = ana.func(REPOP)
    b = ana.builder(fi, no_inline=ana.known)
    cfg = ana.cfg(fi)
    cl = [s for s in b.stores() if s.attr == "clusters"]
    lab = [s for s in b.stores() if s.attr == "point_labels"]
    if len(cl) != 1 or len(lab) != 1:
        raise AnalysisError("working-state stores not recognised")
    new_state = cl[0].base
    s = lab[0]
    if s.loops:
        lp_ = s.loops[0]
        def own_exits(body):
            for st in body:
                if isinstance(st, (ast.Break, ast.Return)):
                    yield st
                elif isinstance(st, (ast.For, ast.While)):
                    yield from (x for x in ast.walk(st) if isinstance(x, ast.Return))
                elif isinstance(st, (ast.FunctionDef, ast.ClassDef)):
                    continue
                else:
                    for fld in ("body", "orelse", "finalbody"):
                        yield from own_exits(getattr(st, fld, []) or [])
                    for h in getattr(st, "handlers", []) or []:
                        yield from own_exits(h.body)
        exits = list(own_exits(lp_.body))
        ctx.check(not exits, fi, "the refill loop serves every under-populated cluster: nothing leaves it early (the donor search raises when the pool is exhausted)",
                  line=lp_.lineno, role="commit:no-early-exit", expected="no break / return out of the refill loop",
                  found="; ".join(f"{type(x).__name__.lower()} at line {x.lineno}" for x in exits))
    ctx.check(len(s.loops) == 1 and s.base == new_state, fi, "the new labelling is assigned to the working state inside the refill loop "
              "(the setter re-derives membership and sizes, C13.R2)", line=s.stmt.lineno, role="commit:in-loop",
              expected=f"{new_state}.point_labels = ... inside the loop", found=f"{s.base}.point_labels in {len(s.loops)} loop(s)")
    mv = ana.func(MOVE)
    dn = ana.func(DONOR)
    ok = isinstance(s.value, App) and s.value.fn == mv.qualname and s.value.args[0] == new_state
    ctx.check(ok, fi, "points are moved on the working state (current sizes and members)", line=s.stmt.lineno, role="commit:move-on-copy",
              expected=f"_move_random_points({new_state}, donor, recipient)", found=str(s.value)[:140])
    if ok:
        don = s.value.args[1]
        okd = isinstance(don, Idx) and isinstance(don.base, App) and don.base.fn == dn.qualname and don.base.args[0] == new_state and don.idx == (tm.ZERO,)
        ctx.check(okd, fi, "the donor search measures the working state, so a donor that serves twice is re-measured", line=s.stmt.lineno,
                  role="commit:search-on-copy", expected=f"_find_point_donor({new_state}, remaining)[0]", found=str(don)[:140])
        rec = s.value.args[2]
        lp = s.loops[0] if s.loops else None
        okr = lp is not None and isinstance(lp.target, ast.Name) and rec == b.term(ast.Name(id=lp.target.id, ctx=ast.Load()), s.node)
        ctx.check(okr, fi, "the recipient is the loop's current under-populated cluster", role="commit:recipient", found=str(rec))
    # remaining pool threads through iterations
    calls = calls_to(ana, fi, dn.qualname)
    fl = Flow(ana, fi)
    rd = ana.rd(fi)
    for c in calls:
        node = cfg.node_of(c.node)
        ba = bind_args(dn, c.node)
        arg = ba.get(dn.params[1])
        ok = False
        found = unparse(arg) if arg is not None else "missing"
        if isinstance(arg, ast.Name):
            defs = rd.reaching(node, arg.id)
            inl = [d for d in defs if cfg.enclosing_loops(d)]
            outl = [d for d in defs if not cfg.enclosing_loops(d)]
            dep_in = [fl.closure(d.ast.value, d) for d in inl if isinstance(d.ast, (ast.Assign, ast.AnnAssign)) and d.ast.value is not None]
            dep_out = [fl.closure(d.ast.value, d) for d in outl if isinstance(d.ast, (ast.Assign, ast.AnnAssign)) and d.ast.value is not None]
            ok = bool(inl) and all(dn.qualname in dp.call_names for dp in dep_in) and bool(outl) and \
                all(ana.func(RANK).qualname in dp.call_names for dp in dep_out)
            found = f"`{arg.id}` defined at lines {[d.lineno for d in defs]}"
        ctx.check(ok, fi, "the pool left by one search is the pool of the next (initially the ranked pool)", line=c.node.lineno,
                  role="commit:pool-threading", expected="remaining <- ranked ids before the loop, <- previous search result inside it", found=found)


@rule("C08", "R7", "ORDER", "exhausting the donor pool raises RuntimeError naming the shortage", evidence=True)
def r7(ctx):
    from . import c20
    ctx.sub(c20.r4)


@rule("C08", "R8", "CENSUS", "repopulation refuses a labelling only where the donor search is exhausted", floor=1)
def r8(ctx):
    """"... either raises a clear error because no cluster holds at least 2m points, or returns a labelling ...": the raise at the
    end of the donor search (R3/R7) is the only way out other than a result.  Any other `raise` on the repopulation path rejects
    labellings the property promises to repair (for instance a count of donors against recipients: one donor with 3m points serves
    several recipients)."""
    ana = ctx.ana
    donor = ana.func(DONOR)
    seen = 0
    for q in sorted(ana.res.reachable([ana.func(REPOP).qualname])):
        f = ana.prog.functions.get(q)
        if f is None or not f.qualname.startswith("fast_ticc.cluster_maintenance."):
            continue
        handlers = {id(r) for h in ast.walk(f.node) if isinstance(h, ast.ExceptHandler) for r in ast.walk(h) if isinstance(r, ast.Raise)}
        for n in Resolver.walk_own(f.node):
            if isinstance(n, ast.Raise) and id(n) not in handlers:
                seen += 1
                if f is donor:
                    ctx.ok(f, "the donor search raises when its pool is exhausted", line=n.lineno, role="raise:donor-search")
                else:
                    ctx.fail(f, "repopulation raises outside the donor search: a labelling with an eligible donor can be refused",
                             line=n.lineno, role=f"raise:other:{short(f.qualname)}", expected="only _find_point_donor raises (pool exhausted)",
                             found=unparse(n, 90))
    if not seen:
        raise AnalysisError("no raise statement found on the repopulation path")
