"""C19 - caller-owned data is never modified."""
from __future__ import annotations

import ast

from ..loader import AnalysisError
from ..report import rule
from ..resolve import T_NDARRAY
from .common import short
from .own import describe, ext_writes, ownership

ENTRIES = ["front_end.ticc_labels", "front_end.ticc_joint_labels", "admm.front_end.admm_optimize_theta",
           "cluster_label_assignment.assign_point_cluster_labels", "cluster_label_assignment.predict_cluster_labels"]


def _is_data_param(ana, fi, p) -> bool:
    ann = fi.param_annotation(p)
    txt = ast.unparse(ann) if ann is not None else ""
    if txt in ("int", "bool", "str") or "Callable" in txt or "RhoUpdateFunction" in txt:
        return False
    if txt == "float":
        # scalars annotated float may still be passed as arrays (label_switching_cost of the kernel): keep those documented so
        return p in ("label_switching_cost", "sparsity_weight")
    return True


@rule("C19", "R1", "OWN", "no mutation site reachable from a public entry point may write an array or list owned by the caller", floor=10, evidence=True)
def r1(ctx):
    ana = ctx.ana
    for q in ENTRIES:
        fi = ana.func(q)
        oa = ownership(ana, q)
        n_sites = len(oa.mutations)
        for p in fi.params:
            if not _is_data_param(ana, fi, p):
                continue
            hits = []
            for m, objs in ext_writes(oa, p):
                # attribute stores on caller-owned *state objects* are C13's subject; everything else edits an array / list
                if m.kind.startswith("attribute:"):
                    ty = ana.res.type_of(m.func, m.node.targets[0].value) if isinstance(m.node, ast.Assign) and isinstance(m.node.targets[0], ast.Attribute) else ("unknown",)
                    if ty[0] == "cls":
                        continue
                hits.append((m, objs))
            if hits:
                for m, objs in hits:
                    ctx.fail(fi, f"caller-owned `{p}` may be modified in place at {describe(m)}", line=fi.node.lineno,
                             role=f"{short(q)}:{p}:{short(m.func.qualname)}:{m.kind}",
                             expected="every write hits an object the package allocated itself",
                             found=f"may write {', '.join(sorted(map(str, objs)))[:120]}")
            else:
                ctx.ok(fi, f"none of the {n_sites} mutation sites reachable from {short(q)} can write an object owned by `{p}` "
                           f"({oa.stats['activations']} activations, {len(oa.stats['objects'])} abstract objects)", role=f"{short(q)}:{p}")
        unknown = sorted(u for u in oa.unknown_calls if not (u.startswith("builtins.") and u.split(".")[-1][:1].isupper())
                         and "LOGGER" not in u and "prange" not in u)
        # calls through stored callables (args.rho_update) are assumed not to write their arguments: recorded
        for u in unknown:
            ctx.note(f"{short(q)}: callee with unknown effect assumed pure: {u}")


@rule("C19", "R2", "PURE", "nothing caller-owned is retained in memoised results or module-level objects", floor=2, evidence=True)
def r2(ctx):
    ana = ctx.ana
    for q in ENTRIES[:3]:
        oa = ownership(ana, q)
        fi = ana.func(q)
        bad = []
        for (o, f), vs in oa.heap.pts.items():
            if o.kind in ("memo", "glob"):
                e = [v for v in vs if v.is_ext]
                if e:
                    bad.append((o, f, e))
        for f2, node, objs in oa.stored_into_memo:
            bad.append((f2.qualname, "result", list(objs)))
        ctx.check(not bad, fi, f"no caller-owned object becomes reachable from a memo / module-level object along {short(q)}",
                  role=f"retain:{short(q)}", expected="memo results and module state hold package-allocated values only",
                  found="; ".join(f"{o}.{f} -> {e[:2]}" for o, f, e in bad)[:200])


@rule("C19", "R3", "DECOR", "read-only arrays are accepted: no kernel is compiled for explicit (writable-array) signatures", evidence=True)
def r3(ctx):
    """Numba types a non-writeable ndarray as `readonly array`, which matches no explicit `float64[:, :]` signature: with a
    signature list the JIT-compiled labelling step rejects the read-only input the interpreter accepts."""
    from . import c15
    ctx.sub(c15.r1, only=("decorator:signature", "decorator:call-form"))
