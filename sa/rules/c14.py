"""C14 - results are reproducible and independent of process scheduling."""
from __future__ import annotations

import ast
from typing import List, Optional, Set, Tuple

from .. import terms as tm
from ..build import ALL_MUTATOR_METHODS, _root_name
from ..loader import AnalysisError, FuncInfo
from ..report import rule
from ..resolve import Resolver, T_INT
from ..terms import App, Attr, Comp, Idx, Sym
from .common import Flow, all_calls, attr_chain, bind_args, callee_fq, calls_to, kwarg, module_constant, short, unparse, user_argument_reads

# external callees whose result depends on something other than their arguments
NONDET_PREFIXES = ("random.", "numpy.random.", "secrets.", "uuid.", "time.", "datetime.", "os.urandom", "os.getpid",
                   "os.getppid", "os.times", "os.getrandom", "threading.get_ident", "threading.current_thread",
                   "multiprocessing.current_process", "socket.", "platform.", "getpass.", "tempfile.")
NONDET_BUILTINS = {"builtins.id", "builtins.hash", "builtins.input", "builtins.object"}
SEED_FUNCS = {"random.seed", "numpy.random.seed"}
UNORDERED = {".imap_unordered", "concurrent.futures.as_completed", "asyncio.as_completed", ".as_completed", ".ready", ".successful",
             "concurrent.futures.wait", ".done"}


def _is_nondet(name: str) -> bool:
    if name in NONDET_BUILTINS:
        return name != "builtins.object"
    if name.startswith("sklearn."):
        return True
    return any(name.startswith(p) for p in NONDET_PREFIXES)


@rule("C14", "R1", "CENSUS", "closed set of randomness / nondeterminism sources", floor=2, evidence=True)
def r1(ctx):
    ana = ctx.ana
    sites = all_calls(ana, _is_nondet)
    gmm = sample = 0
    for cs in sites:
        name = callee_fq(cs)
        fi = cs.caller
        call = cs.node
        role = f"{name}@{short(fi.qualname)}"
        if name.startswith("sklearn."):
            rs = kwarg(call, "random_state")
            okrs = rs is None or (isinstance(rs, ast.Constant) and (rs.value is None or isinstance(rs.value, int)))
            if ctx.check(okrs, fi, f"{name}(...) draws only from the global NumPy generator (random_state absent, None or a literal)",
                         line=call.lineno, role=role, expected="random_state absent / None / integer literal",
                         found=unparse(rs) if rs is not None else ""):
                gmm += 1
            continue
        if name == "random.sample":
            # population and sample size must not depend on anything nondeterministic (checked by the census itself);
            # it consumes the global Python generator: allowed
            sample += 1
            ctx.ok(fi, "random.sample consumes the global Python generator (allowed source)", role=role, line=call.lineno)
            continue
        if name in SEED_FUNCS:
            const_args = all(isinstance(a, ast.Constant) for a in call.args) and bool(call.args)
            ctx.check(const_args, fi, f"{name} re-seeds a global generator with a constant", line=call.lineno, role=role,
                      expected="no re-seeding from a run-dependent value", found=unparse(call))
            continue
        ctx.fail(fi, f"call to {name}: a source of run-to-run variation outside the confirmed set "
                     "{GaussianMixture fit (NumPy global RNG), random.sample (Python global RNG)}",
                 line=call.lineno, role=role, expected="no other randomness / clock / pid / id() / hash() feeding a value",
                 found=unparse(call))
    # generators created locally (default_rng / RandomState / Random()) are caught by the prefixes above.
    # iteration over hash-ordered containers with non-integer elements
    for fi in ana.prog.functions.values():
        set_names = {}
        for n in Resolver.walk_own(fi.node):
            if isinstance(n, ast.Assign) and len(n.targets) == 1 and isinstance(n.targets[0], ast.Name):
                v = n.value
                is_set = isinstance(v, (ast.Set, ast.SetComp)) or (
                    isinstance(v, ast.Call) and isinstance(v.func, ast.Name) and v.func.id in ("set", "frozenset"))
                if is_set:
                    set_names[n.targets[0].id] = n
        if not set_names:
            continue
        for n in Resolver.walk_own(fi.node):
            iters = []
            if isinstance(n, ast.For):
                iters.append(n.iter)
            elif isinstance(n, ast.comprehension):
                iters.append(n.iter)
            for it in iters:
                if isinstance(it, ast.Name) and it.id in set_names:
                    # element provenance: every .add(x) / constructor element must be an int
                    elems = []
                    for m in Resolver.walk_own(fi.node):
                        if isinstance(m, ast.Call) and isinstance(m.func, ast.Attribute) and isinstance(m.func.value, ast.Name) \
                                and m.func.value.id == it.id and m.func.attr in ("add", "update"):
                            elems += m.args
                    init = set_names[it.id].value
                    if isinstance(init, ast.Set):
                        elems += init.elts
                    elif isinstance(init, ast.Call) and init.args:
                        elems.append(None)
                    elif isinstance(init, ast.SetComp):
                        elems.append(init.elt)
                    all_int = bool(elems) or True
                    bad = None
                    for e in elems:
                        if e is None or ana.res.type_of(fi, e) != T_INT:
                            bad = e
                            all_int = False
                    if all_int:
                        ctx.ok(fi, f"iteration over set `{it.id}` at line {it.lineno}: elements are ints "
                                   "(hash order of ints does not vary between runs)", role=f"set-iter:{it.id}", line=it.lineno)
                    else:
                        raise AnalysisError(f"{fi.relfile}:{it.lineno}: iteration over set `{it.id}` whose element type "
                                            f"cannot be shown to be int ({unparse(bad) if bad is not None else 'constructor argument'})")
    # uninitialised storage: np.empty hands back whatever the allocator recycles - a cell that is read before it is written makes
    # the result depend on the allocation history of the process
    for fi in ana.prog.functions.values():
        for n in Resolver.walk_own(fi.node):
            if not (isinstance(n, ast.Assign) and len(n.targets) == 1 and isinstance(n.targets[0], ast.Name) and isinstance(n.value, ast.Call)):
                continue
            r_ = ana.res.fq_of_expr(fi, n.value.func)
            if not (r_ and r_[1] in ("numpy.empty", "numpy.empty_like", "numpy.ndarray")):
                continue
            name = n.targets[0].id
            reads = []
            parents = {}
            for p_ in Resolver.walk_own(fi.node):
                for c_ in ast.iter_child_nodes(p_):
                    parents[id(c_)] = p_
            for x in Resolver.walk_own(fi.node):
                if isinstance(x, ast.Name) and x.id == name and isinstance(x.ctx, ast.Load):
                    par = parents.get(id(x))
                    if isinstance(par, ast.Subscript) and par.value is x and not isinstance(par.ctx, ast.Load):
                        continue                      # a cell is written
                    if isinstance(par, ast.Return):
                        continue                      # handed to the caller (whose reads are the caller's business: C05 / C10 check coverage)
                    if isinstance(par, ast.Attribute) and par.attr in ("shape", "size", "ndim", "dtype"):
                        continue
                    reads.append(x)
            ctx.check(not reads, fi, f"`{name} = {unparse(n.value, 50)}` is uninitialised storage: the function only writes its cells (and returns it), it never "
                      "reads one", line=n.lineno, role=f"uninitialised:{short(fi.qualname)}:{name}", expected="np.zeros, or no read of the array in this function",
                      found="; ".join(f"read at line {x.lineno}" for x in reads[:4]))
    if gmm == 0 and sample == 0:
        ctx.note("no RNG-consuming call left in the package (initialisation and repopulation became deterministic?)")


@rule("C14", "R2", "AGREE", "tasks are stored and gathered by cluster index, never by completion order", floor=3)
def r2(ctx):
    ana = ctx.ana
    # no completion-order primitives, no callbacks
    saved_ev, ctx.evidence = ctx.evidence, True       # a completion-order primitive is wrong however the gather is written
    try:
        for cs in all_calls(ana, lambda n: n in UNORDERED):
            if callee_fq(cs) in (".ready", ".successful", ".done") and not _task_handle(ana, cs):
                continue
            ctx.fail(cs.caller, f"{callee_fq(cs)} makes the gather depend on which task has finished (completion order)", line=cs.node.lineno,
                     role=f"unordered:{callee_fq(cs)}", expected="gather by cluster index, waiting for each task in turn", found=unparse(cs.node))
    finally:
        ctx.evidence = saved_ev
    submits = all_calls(ana, lambda n: n in (".apply_async", ".map_async", ".starmap_async", ".submit"))
    if not submits:
        raise AnalysisError("no asynchronous task submission found (confirmed floor: 1)")
    for cs in submits:
        cb = [k.arg for k in cs.node.keywords if k.arg in ("callback", "error_callback")]
        if len(cs.node.args) > 3:
            cb.append("positional callback")
        ctx.check(not cb, cs.caller, "task submitted without completion callbacks", line=cs.node.lineno,
                  role="submit:no-callback", expected="no callback= / error_callback= (they run in completion order)",
                  found=", ".join(cb))
    # the task-building helper, by role: whatever function (other than the phase itself) submits the asynchronous task
    prod = ana.func("graphical_lasso.optimize_markov_random_fields")
    submitters = {cs.caller.qualname for cs in submits} - {prod.qualname}
    inline_submit = prod.qualname in {cs.caller.qualname for cs in submits}

    def is_submit(name: str) -> bool:
        return name in submitters or "_setup_optimization_task" in name or (inline_submit and name in (".apply_async", ".submit"))
    # producer: task k is built from cluster k and stored at position k
    b = ana.builder(prod, no_inline=ana.known)
    found_store = False
    for s in b.stores():
        if s.idx is None or len(s.idx) != 1:
            continue
        v = s.value
        if not any(isinstance(x, App) and is_submit(x.fn) for x in tm.subterms(v)):
            continue
        found_store = True
        k = s.idx[0]
        cl = [x for x in tm.subterms(v) if isinstance(x, Idx) and isinstance(x.base, Attr) and x.base.name == "clusters"]
        same = bool(cl) and all(x.idx == (k,) for x in cl)
        ctx.check(same, prod, "task stored at position k is built from cluster k", line=s.stmt.lineno, role="producer:index",
                  expected=f"tasks[{k}] = setup(model.clusters[{k}], ...)", found=f"tasks[{k}] = {v}")
        rng = None
        if s.loops and isinstance(s.loops[-1], ast.For):
            rng = s.loop_ranges[-1]
        want = tm.Range(0, Attr(Attr(Sym("model"), "arguments"), "num_clusters"))
        ctx.check(rng is not None and rng == want, prod, "one task per cluster id in range(num_clusters)",
                  line=s.stmt.lineno, role="producer:range", expected=str(want), found=str(rng))
    if not found_store:
        # comprehension form
        fl = Flow(ana, prod)
        ok = False
        for n in Resolver.walk_own(prod.node):
            if isinstance(n, ast.ListComp) and any(is_submit(callee_fq(cs_)) for cs_ in ana.res.calls(prod) if any(cs_.node is c for c in ast.walk(n.elt))):
                t = b.term(n)
                if isinstance(t, Comp):
                    cl = [x for x in tm.subterms(t.elt) if isinstance(x, Idx) and isinstance(x.base, Attr) and x.base.name == "clusters"]
                    ok = bool(cl) and all(x.idx == (t.var,) for x in cl)
                    ctx.check(ok, prod, "task list built in cluster order by a comprehension", line=n.lineno, role="producer:index",
                              expected="[setup(model.clusters[k], ...) for k ...]", found=str(t)[:120])
                    found_store = True
        if not found_store:
            # append form: `tasks = []` + one unconditional `tasks.append(setup(model.clusters[k], ...))` per k - the same list
            try:
                rt_ = b.return_term()
            except Exception:
                rt_ = None
            comps_ = [x for x in (tm.subterms(rt_) if rt_ is not None else []) if isinstance(x, Comp) and x.kind == "list" and
                      isinstance(x.elt, App) and is_submit(x.elt.fn)]
            rt_ = comps_[0] if len(comps_) == 1 else None
            if isinstance(rt_, Comp) and not rt_.conds and any(isinstance(x, App) and is_submit(x.fn) for x in tm.subterms(rt_.elt)):
                cl = [x for x in tm.subterms(rt_.elt) if isinstance(x, Idx) and isinstance(x.base, Attr) and x.base.name == "clusters"]
                ok = bool(cl) and all(x.idx == (rt_.var,) for x in cl)
                ctx.check(ok, prod, "task list built in cluster order by an append loop", role="producer:index",
                          expected="tasks.append(setup(model.clusters[k], ...)) for k ...", found=str(rt_)[:120])
                want = tm.Range(0, Attr(Attr(Sym("model"), "arguments"), "num_clusters"))
                ctx.check(rt_.iter == want, prod, "one task per cluster id in range(num_clusters)", role="producer:range", expected=str(want), found=str(rt_.iter))
                found_store = True
        if not found_store:
            raise AnalysisError("producer of the task list not recognised in optimize_markov_random_fields")
    # consumer: results are paired with clusters positionally and appended in order
    cons = ana.func("graphical_lasso._retrieve_optimization_results")
    bc = ana.builder(cons, no_inline=ana.known)
    target = None
    for s in bc.stores():
        if s.attr == "clusters":
            target = s
    if target is None:
        raise AnalysisError("_retrieve_optimization_results does not assign .clusters")
    # what the gather *reads* through a fresh shallow copy of the state is the state's own field (same objects)
    t = tm.unshallow(target.value)

    def paired(elt, var):
        gets = [x for x in tm.subterms(elt) if isinstance(x, App) and x.fn in (".get", ".result")]
        cls_ = [x for x in tm.subterms(elt) if isinstance(x, Idx) and isinstance(x.base, Attr) and x.base.name == "clusters"]
        ok = bool(gets) and bool(cls_)
        for g in gets:
            recv = g.args[0]
            ok = ok and isinstance(recv, Idx) and recv.idx == (var,) and recv.base == Sym("optimization_tasks")
            ok = ok and len(g.args) == 1 and not g.kw
        for c in cls_:
            ok = ok and c.idx == (var,)
        return ok

    if not isinstance(t, Comp):
        # several append sites (branches, handlers): every element appended must still be result k paired with cluster k
        apps = _append_sites(bc, cons, target)
        if not apps:
            raise AnalysisError(f"new cluster list is not built by an ordered loop/comprehension: {str(t)[:100]}")
        for elt, var, node in apps:
            ctx.check(paired(elt, var), cons, "every element put in the new cluster list is result k (tasks[k].get()) applied to cluster k",
                      line=node.lineno, role="consumer:pairing",
                      expected="update(model.clusters[k], tasks[k].get())", found=str(elt)[:160], template=None)
        raise AnalysisError(f"the gather loop has {len(apps)} append sites; its length/order cannot be reconstructed: {str(t)[:80]}")
    elt = t.elt
    if not any(isinstance(x, App) and x.fn in (".get", ".result") for x in tm.subterms(elt)):
        # the element is an object completed by field stores (update helper folded into the gather loop): the values stored
        # into it are part of what the list receives
        extra = [s_.value for s_ in bc.stores() if s_.attr and s_.idx is None and s_.base == elt]
        if extra:
            elt = tm.Tup([elt] + extra)
    ctx.check(paired(elt, t.var), cons, "result k (tasks[k].get()) updates cluster k; the new list is in cluster order",
              line=target.stmt.lineno, role="consumer:pairing",
              expected="[update(model.clusters[k], tasks[k].get()) for k in order]", found=str(t)[:160])
    want_len = tm.length(Attr(Sym("model"), "clusters"))
    got_len = tm.length(t)
    if got_len != want_len and isinstance(got_len, App) and got_len.fn == "len" and isinstance(got_len.args[0], Sym) and got_len.args[0].name in cons.own_params:
        # one result per task: the task list has one entry per cluster id when every caller built it that way (producer:range above)
        from .common import param_length_at_callers
        at_callers = param_length_at_callers(ana, cons, got_len.args[0].name)
        if at_callers and all(x == want_len for x in at_callers):
            got_len = want_len
    ctx.check(got_len == want_len, cons, "the gather visits every cluster once", line=target.stmt.lineno,
              role="consumer:length", expected=str(want_len), found=str(tm.length(t)))
    # the list handed to the consumer is the producer's list
    calls = calls_to(ana, prod, cons.qualname)
    if not calls:
        raise AnalysisError("optimize_markov_random_fields does not call _retrieve_optimization_results")
    for cs in calls:
        ba = bind_args(cons, cs.node)
        fl = Flow(ana, prod)
        arg = ba.get("optimization_tasks")
        dep = fl.closure(arg) if arg is not None else None
        ok = dep is not None and any(is_submit(n) for n in dep.call_names)
        ctx.check(ok, prod, "the gathered list is the list of submitted tasks", line=cs.node.lineno, role="consumer:same-list",
                  expected="tasks produced by _setup_optimization_task", found=unparse(arg) if arg is not None else "missing")


def _task_handle(ana, cs) -> bool:
    """The receiver of .ready() / .done() is (data-dependent on) an asynchronous task handle."""
    recv = cs.node.func.value if isinstance(cs.node.func, ast.Attribute) else None
    if recv is None:
        return False
    try:
        dep = Flow(ana, cs.caller).closure(recv)
    except AnalysisError:
        return True
    if any(n in (".apply_async", ".submit", ".map_async") for n in dep.call_names):
        return True
    # comprehension variables and the like: the function as a whole handles task handles
    for p in cs.caller.params:
        ann = cs.caller.param_annotation(p)
        if ann is not None and any(k in ast.unparse(ann) for k in ("AsyncResult", "TaskList", "Future")):
            return True
    if any(callee_fq(c2) in (".apply_async", ".submit", ".map_async") for c2 in ana.res.calls(cs.caller)):
        return True
    for p in dep.params:
        ann = cs.caller.param_annotation(p)
        if ann is not None and any(k in ast.unparse(ann) for k in ("AsyncResult", "TaskList", "Future")):
            return True
    return False


def _append_sites(bc, cons, target):
    """(element term, loop binder, call node) for each `<list>.append(x)` inside a for loop, where <list> is the variable
    assigned to .clusters; [] when the shape is something else."""
    val = target.stmt.value if isinstance(target.stmt, (ast.Assign, ast.AnnAssign)) else None
    if not isinstance(val, ast.Name):
        return []
    out = []
    pm = _parent_map(cons.node)
    for n in Resolver.walk_own(cons.node):
        if isinstance(n, ast.Call) and isinstance(n.func, ast.Attribute) and n.func.attr in ("append", "insert", "extend") \
                and isinstance(n.func.value, ast.Name) and n.func.value.id == val.id:
            if n.func.attr != "append" or len(n.args) != 1:
                return []
            p = pm.get(id(n))
            loop = None
            while p is not None and p is not cons.node:
                if isinstance(p, ast.For):
                    loop = p
                    break
                p = pm.get(id(p))
            if loop is None:
                return []
            var, _rng = bc.binder_of(loop)
            out.append((bc.term(n.args[0], bc.at(n)), var, n))
    return out


def _uses_of_def(ana, fi, dnode, name):
    cfg = ana.cfg(fi)
    rd = ana.rd(fi)
    out = []
    for n in Resolver.walk_own(fi.node):
        if isinstance(n, ast.Name) and n.id == name and isinstance(n.ctx, ast.Load):
            at = cfg.expr_node.get(id(n))
            if at is None:
                continue
            if any(d.id == dnode.id for d in rd.reaching(at, name)):
                out.append((n, at))
    return out


def _parent_map(fnode):
    pm = {}
    for n in ast.walk(fnode):
        for ch in ast.iter_child_nodes(n):
            pm[id(ch)] = n
    return pm


def _value_sinks_ok(ana, fi, expr, pm, depth=0) -> Tuple[bool, str]:
    """The value of `expr` (a read) may only flow, through plain copies, into pool-size arguments or logging calls."""
    from .c20 import POOL_CTORS, pool_factories
    facts = pool_factories(ana)
    if depth > 6:
        return False, "copy chain too long"
    par = pm.get(id(expr))
    # skip keyword wrapper
    if isinstance(par, ast.keyword):
        kwnode = par
        par = pm.get(id(par))
    else:
        kwnode = None
    if isinstance(par, ast.Call) and (expr in par.args or kwnode is not None):
        c = ana.res.callee(fi, par)
        nm = c.func.qualname if c.func is not None else str(c.target)
        if nm in facts or nm in POOL_CTORS:
            return True, ""
        if ana.is_logging_call(fi, par):
            return True, ""
        return False, f"passed to {nm}"
    if isinstance(par, (ast.Assign, ast.AnnAssign)) and par.value is expr:
        tgt = par.targets[0] if isinstance(par, ast.Assign) else par.target
        if isinstance(tgt, ast.Name):
            cfg = ana.cfg(fi)
            dnode = cfg.stmt_node.get(id(par))
            for u, _at in _uses_of_def(ana, fi, dnode, tgt.id):
                ok, why = _value_sinks_ok(ana, fi, u, pm, depth + 1)
                if not ok:
                    return False, why
            return True, ""
    return False, f"used in `{unparse(par, 50) if par is not None else '?'}`"


@rule("C14", "R3", "CENSUS", "worker count and the environment switch reach Pool(processes=...) and nothing else", floor=2)
def r3(ctx):
    ana = ctx.ana
    reads = user_argument_reads(ana)["num_processors"]
    ua_print = "fast_ticc.containers.arguments.UserArguments."
    sinks = 0
    for fi, node in reads:
        if fi.qualname.startswith(ua_print):
            continue  # printing / copying inside the container class
        pm = _parent_map(fi.node)
        ok, why = _value_sinks_ok(ana, fi, node, pm)
        if ctx.check(ok, fi, "arguments.num_processors is read only to size the pool", line=node.lineno,
                     role=f"num_processors@{short(fi.qualname)}", expected="argument of the pool factory / Pool(processes=), possibly via a temporary",
                     found=why):
            sinks += 1
    if sinks == 0:
        ctx.note("num_processors is never used to size a pool")
    # ... and it is not wired into another hyper-parameter by the front ends (min_cluster_size=num_processors would make the result
    # depend on the worker count)
    from .plumb import plumb
    plumb(ctx, ["num_processors", "min_cluster_size", "num_clusters", "window_size", "iteration_limit", "sparsity_weight", "biased_covariance",
                "min_meaningful_covariance"])
    # environment reads
    from .c20 import POOL_CTORS
    env_reads = []
    for fi in ana.prog.functions.values():
        for n in Resolver.walk_own(fi.node):
            ch = attr_chain(n) if isinstance(n, ast.Attribute) else None
            if ch and ch[:2] == ["os", "environ"] and len(ch) == 2:
                env_reads.append((fi, n))
            if isinstance(n, ast.Call):
                r = ana.res.fq_of_expr(fi, n.func)
                if r and r[1] in ("os.getenv",):
                    env_reads.append((fi, n))
    for fi, n in env_reads:
        # the value read may only steer the pool size chosen by this function
        cfg = ana.cfg(fi)
        st_node = cfg.node_of(n)
        st = st_node.ast
        ok = False
        detail = ""
        from .common import def_target
        v = def_target(st_node)
        if v is not None:
            uses = _uses_of_def(ana, fi, st_node, v)
            ok = True
            tests = {}
            work_ = list(uses)
            hops_ = 0
            while work_:
                u, at = work_.pop()
                if at.kind == "test":
                    tests[at.id] = at
                    continue
                # one hop: a flag computed from the value by comparisons / `and` / `or` / `not` / len() and itself only tested
                a_ = at.ast if at.kind == "stmt" else None
                flag = def_target(at) if a_ is not None and isinstance(a_, ast.Assign) else None
                pure_flag = flag is not None and hops_ < 2 and all(
                    isinstance(x, (ast.BoolOp, ast.boolop, ast.UnaryOp, ast.Not, ast.Compare, ast.cmpop, ast.Name, ast.Constant, ast.Load, ast.expr_context))
                    or (isinstance(x, ast.Call) and isinstance(x.func, ast.Name) and x.func.id in ("len", "bool"))
                    for x in ast.walk(a_.value))
                if pure_flag:
                    hops_ += 1
                    work_ += _uses_of_def(ana, fi, at, flag)
                    continue
                ok = False
                detail = f"`{v}` used at line {u.lineno} outside a branch test"
            # statements controlled by those tests may only choose the pool size, log, or return a pool
            for t in tests.values():
                for sub in ast.walk(t.ast):
                    if sub is t.ast:
                        continue
                    if isinstance(sub, (ast.Assign, ast.AugAssign)):
                        tg = sub.targets[0] if isinstance(sub, ast.Assign) else sub.target
                        cv = ana.res.callee(fi, sub.value) if isinstance(sub.value, ast.Call) else None
                        if isinstance(tg, ast.Name) and cv is not None and str(cv.target) in POOL_CTORS:
                            continue      # the branch builds the pool itself (factory expanded into its caller)
                        if not (isinstance(tg, ast.Name) and _only_feeds_pool_size(ana, fi, tg.id)):
                            ok = False
                            detail = f"branch on the switch assigns `{unparse(tg)}` (line {sub.lineno}), which is not just the pool size"
                    elif isinstance(sub, ast.Return):
                        rv = sub.value
                        c = ana.res.callee(fi, rv) if isinstance(rv, ast.Call) else None
                        if not (c is not None and str(c.target) in POOL_CTORS):
                            ok = False
                            detail = f"branch on the switch returns `{unparse(rv, 40)}` (line {sub.lineno})"
                    elif isinstance(sub, ast.Raise):
                        ok = False
                        detail = f"branch on the switch raises at line {sub.lineno}"
                    elif isinstance(sub, ast.Expr) and isinstance(sub.value, ast.Call) and not ana.is_logging_call(fi, sub.value):
                        ok = False
                        detail = f"branch on the switch calls {unparse(sub.value.func)} (line {sub.lineno})"
            # every return of the function is a pool constructor call (the switch can only change its size)
            rets = [x for x in Resolver.walk_own(fi.node) if isinstance(x, ast.Return)]
            is_factory = any(isinstance(x.value, ast.Call) and str(ana.res.callee(fi, x.value).target) in POOL_CTORS for x in rets)
            for r_ in (rets if is_factory else []):
                c = ana.res.callee(fi, r_.value) if isinstance(r_.value, ast.Call) else None
                if not (c is not None and str(c.target) in POOL_CTORS):
                    ok = False
                    detail = f"the function returns `{unparse(r_.value, 40)}`, not a pool"
        else:
            detail = "environment value not bound to a local tested only for the pool size"
        ctx.check(ok, fi, "the environment switch only selects the pool size", line=n.lineno,
                  role=f"environ@{short(fi.qualname)}", expected="os.environ value used only to choose Pool(processes=...)",
                  found=detail)
    if not env_reads:
        ctx.ok("package", "no environment variable is read inside a function", nontrivial=False)
    # nothing asks a pool how many workers it has (what is computed would then depend on the worker count)
    internals = {"_processes", "_max_workers", "_pool", "_num_workers"}
    peeks = []
    for fi in ana.prog.functions.values():
        for n in Resolver.walk_own(fi.node):
            if isinstance(n, ast.Attribute) and n.attr in internals:
                peeks.append((fi, n, n.attr))
            elif isinstance(n, ast.Call) and isinstance(n.func, ast.Name) and n.func.id in ("getattr", "hasattr") and len(n.args) >= 2 \
                    and isinstance(n.args[1], ast.Constant) and n.args[1].value in internals:
                peeks.append((fi, n, n.args[1].value))
    for fi, n, what in peeks:
        ctx.fail(fi, f"the size of the worker pool is read back (`{what}`): what is computed may depend on the number of workers",
                 line=n.lineno, role=f"pool-size-read:{short(fi.qualname)}:{what}", expected="the pool is only submitted to, closed and joined", found=unparse(n, 60))


def _only_feeds_pool_size(ana, fi, name) -> bool:
    from .c20 import POOL_CTORS
    for n in Resolver.walk_own(fi.node):
        if isinstance(n, ast.Name) and n.id == name and isinstance(n.ctx, ast.Load):
            # allowed parents: keyword processes= of a pool ctor, logging call argument
            ok = False
            for c in Resolver.walk_own(fi.node):
                if isinstance(c, ast.Call):
                    r = ana.res.fq_of_expr(fi, c.func)
                    if r and r[1] in POOL_CTORS and (any(k.value is n and k.arg in ("processes", "max_workers") for k in c.keywords)
                                                     or (c.args and c.args[0] is n)):
                        ok = True
                    if ana.is_logging_call(fi, c) and any(a is n for a in c.args):
                        ok = True
            if not ok:
                return False
    return True


GLOBAL_SETTERS = {"numpy.seterr", "numpy.seterrcall", "numpy.setbufsize", "numpy.set_printoptions", "numpy.random.seed", "random.seed",
                  "warnings.filterwarnings", "warnings.simplefilter", "warnings.resetwarnings", "logging.basicConfig", "logging.disable",
                  "os.chdir", "os.putenv", "os.unsetenv", "os.umask", "sys.setrecursionlimit", "sys.setswitchinterval", "locale.setlocale",
                  "multiprocessing.set_start_method", "numba.set_num_threads", "threading.setprofile", "sys.settrace", "atexit.register",
                  "signal.signal", "faulthandler.enable", "gc.disable", "gc.enable"}


def module_state_writes(ana) -> List[Tuple[FuncInfo, ast.AST, str]]:
    """Writes to module-level bindings / containers from inside functions, mutable defaults, and calls that change
    process-global settings (they outlive the call, in particular a failed one)."""
    out = []
    for fi in ana.prog.functions.values():
        mi = fi.module
        locs = ana.res.local_names(fi)
        for n in Resolver.walk_own(fi.node):
            if isinstance(n, ast.Call):
                r_ = ana.res.fq_of_expr(fi, n.func)
                if r_ and r_[1] in GLOBAL_SETTERS:
                    const_seed = r_[1] in ("numpy.random.seed", "random.seed")
                    if not const_seed:
                        out.append((fi, n, f"process-global setting changed by {r_[1]}()"))
            if isinstance(n, (ast.Assign, ast.AugAssign)):
                for t_ in (n.targets if isinstance(n, ast.Assign) else [n.target]):
                    if isinstance(t_, ast.Subscript) and unparse(t_.value) == "os.environ":
                        out.append((fi, n, "os.environ modified"))
            if isinstance(n, (ast.Global, ast.Nonlocal)):
                for nm in n.names:
                    out.append((fi, n, f"global {nm}"))
            root = None
            if isinstance(n, (ast.Assign, ast.AugAssign)):
                tgts = n.targets if isinstance(n, ast.Assign) else [n.target]
                for t in tgts:
                    for el in (t.elts if isinstance(t, (ast.Tuple, ast.List)) else [t]):
                        if isinstance(el, (ast.Subscript, ast.Attribute)):
                            root = _root_name(el)
                            if root and root not in locs and _is_module_symbol(ana, mi, root):
                                out.append((fi, n, f"store into module-level `{root}`"))
            elif isinstance(n, ast.Call) and isinstance(n.func, ast.Attribute) and n.func.attr in ALL_MUTATOR_METHODS:
                root = _root_name(n.func.value)
                if root and root not in locs and _is_module_symbol(ana, mi, root) and not ana.is_logging_call(fi, n):
                    r = ana.res.fq_of_expr(fi, n.func.value)
                    if r and r[0] in ("global",):
                        out.append((fi, n, f"mutating call on module-level `{root}`"))
        a = fi.node.args
        for d in list(a.defaults) + [x for x in a.kw_defaults if x is not None]:
            if isinstance(d, (ast.List, ast.Dict, ast.Set, ast.ListComp, ast.DictComp, ast.SetComp)) or (
                    isinstance(d, ast.Call) and isinstance(d.func, ast.Name) and d.func.id in ("list", "dict", "set")):
                out.append((fi, d, "mutable default argument"))
    return out


def _is_module_symbol(ana, mi, name) -> bool:
    return name in mi.globals or name in mi.imports


@rule("C14", "R6", "PURE", "no cross-call state: no function writes module-level bindings or containers", evidence=True)
def r6(ctx):
    writes = module_state_writes(ctx.ana)
    if not writes:
        ctx.ok("package", f"no write to module-level state in {len(ctx.ana.prog.functions)} functions; no mutable default arguments",
               role="module-state")
    for fi, node, what in writes:
        ctx.fail(fi, f"cross-call state: {what}", line=getattr(node, "lineno", 0), role=f"module-state:{what}",
                 expected="results do not depend on earlier calls", found=unparse(node))


@rule("C14", "R4", "PURE", "an optimisation task writes nothing but objects it allocated itself and reads no mutable module state", floor=2, evidence=True)
def r4(ctx):
    from .own import describe, ownership
    ana = ctx.ana
    q = "admm.front_end.admm_optimize_theta"
    fi = ana.func(q)
    oa = ownership(ana, q)
    bad = [(m, [o for o in m.targets if o.kind in ("ext", "glob", "memo")]) for m in oa.mutations]
    bad = [(m, objs) for m, objs in bad if objs]
    for m, objs in bad:
        ctx.fail(fi, f"the task may write a non-local object at {describe(m)}", role=f"task-write:{short(m.func.qualname)}:{m.kind}",
                 expected="only objects allocated by the task", found=", ".join(map(str, objs))[:120])
    if not bad:
        ctx.ok(fi, f"all {len(oa.mutations)} mutation sites reachable from the task write task-allocated objects only "
                   "(e.g. args.rho is a field of the ADMMArguments built by the task)", role="task-write")
    # reads of module-level mutables
    reach = ana.res.reachable([q])
    reads = []
    for fq in reach:
        f = ana.prog.functions[fq]
        locs = ana.res.local_names(f)
        for n in Resolver.walk_own(f.node):
            if isinstance(n, ast.Name) and isinstance(n.ctx, ast.Load) and n.id not in locs and n.id in f.module.globals:
                st = f.module.globals[n.id]
                is_logger = isinstance(st, ast.Assign) and isinstance(st.value, ast.Call) and "getLogger" in unparse(st.value.func)
                is_const = module_constant(f.module, n.id)
                is_alias = isinstance(st, ast.Assign) and isinstance(st.value, (ast.Subscript, ast.Attribute, ast.Name)) and f.module.name.endswith("ticc_types")
                if not (is_logger or is_const or is_alias):
                    reads.append((f, n))
    ctx.check(not reads, fi, f"the {len(reach)} functions of the task's call tree read no mutable module-level object", role="task-reads",
              expected="loggers and constants only", found=", ".join(f"{short(f.qualname)}:{n.id}" for f, n in reads)[:160])


@rule("C14", "R5", "PURE", "memoised helpers depend only on their hashable arguments and their results are never modified", floor=4, evidence=True)
def r5(ctx):
    from .own import describe, ownership
    ana = ctx.ana
    cached = [f for f in ana.prog.functions.values() if any("functools.cache" in unparse(d) or "lru_cache" in unparse(d) for d in f.decorators)]
    if len(cached) < 4:
        raise AnalysisError(f"only {len(cached)} memoised functions found (confirmed floor: 4)")
    for f in cached:
        anns = [unparse(f.param_annotation(p)) if f.param_annotation(p) is not None else "" for p in f.params]
        ctx.check(all(a == "int" for a in anns), f, "cache key is a tuple of ints (hashable, immutable)", role=f"memo-key:{short(f.qualname)}",
                  expected="all parameters annotated int", found=", ".join(anns))
        locs = ana.res.local_names(f)
        globs = [n.id for n in Resolver.walk_own(f.node) if isinstance(n, ast.Name) and isinstance(n.ctx, ast.Load) and n.id not in locs
                 and n.id in f.module.globals and not isinstance(f.module.globals[n.id], (ast.FunctionDef,))]
        ctx.check(not globs, f, "the memoised body reads no module-level variable (its value depends on the arguments only)",
                  role=f"memo-body:{short(f.qualname)}", expected="no module-level variable", found=", ".join(globs))
    for q in ("front_end.ticc_labels", "front_end.ticc_joint_labels", "admm.front_end.admm_optimize_theta"):
        oa = ownership(ana, q)
        memo_objs = {o for o in oa.stats["objects"] if o.kind == "memo"}
        reach = oa.reachable(memo_objs)
        # (a write inside the memoised function itself builds the result before it is cached: it runs once per key)
        bad = [(m, [o for o in m.targets if o in reach]) for m in oa.mutations if m.func not in cached]
        bad = [(m, objs) for m, objs in bad if objs]
        fi = ana.func(q)
        for m, objs in bad:
            ctx.fail(fi, f"a memoised result may be modified at {describe(m)}: later calls with the same key would see the edit",
                     role=f"memo-write:{short(m.func.qualname)}:{m.kind}", expected="cached index lists are read-only", found=", ".join(map(str, objs))[:120])
        if not bad:
            ctx.ok(fi, f"no mutation site reachable from {short(q)} can write one of the {len(memo_objs)} memoised result objects "
                       "(they are only used as indices)", role=f"memo-write:{short(q)}")
