"""C04 - one label per input row; the unlabeled margin is exactly W-1 points."""
from __future__ import annotations

import ast

from .. import terms as tm
from ..loader import AnalysisError
from ..report import rule
from ..terms import App, Attr, Cat, Comp, Idx, Lst, Poly, PW, Range, Rep, Slc, Sym
from .common import bind_args, calls_to, ctor_args, unparse
from .plumb import plumb

PAD = "data_preparation.pad_missing_labels"
SPLIT = "data_preparation.split_joint_labels"


@rule("C04", "R1", "TERM", "padding is floor((W-1)/2) markers in front and the rest of W-1 behind", floor=3)
def r1(ctx):
    ana = ctx.ana
    fi = ana.func(PAD)
    b = ana.builder(fi, no_inline=ana.known)
    rt = b.return_term()
    labels, W = Sym(fi.params[0]), Sym(fi.params[1])
    Wm1 = tm.add(W, -1)
    # floor((W-1)/2) in the forms integer arithmetic offers for W >= 1: int(n/2), n//2, n - ceil(n/2) = n - (n+1)//2
    fronts = [tm.to_int(tm.div(Wm1, 2)), tm.floordiv(Wm1, tm.const(2)), tm.add(Wm1, tm.neg(tm.floordiv(W, tm.const(2))))]
    marker = Lst([tm.const(-1)])

    def for_positive(t):
        # `n // 2 if n > 0 else 0`: the guarded form agrees with floor(n/2) on the property's domain (W >= 1, n >= 0)
        if isinstance(t, PW) and len(t.pieces) == 2:
            pos = [v for g_, v in t.pieces if g_.key == tm.compare(">", Wm1, 0).key]
            rest = [v for g_, v in t.pieces if g_.key != tm.compare(">", Wm1, 0).key]
            if len(pos) == 1 and rest == [tm.ZERO]:
                return pos[0]
        return t
    ok = isinstance(rt, Cat) and len(rt.parts) == 3 and rt.parts[1] == labels
    if not ctx.check(ok, fi, "result is front markers ++ labels ++ back markers, in that order", role="order",
                     expected="[-1]*front + labels + [-1]*back", found=str(rt)[:160]):
        return
    f, bk = rt.parts[0], rt.parts[2]
    if isinstance(f, Rep) and isinstance(bk, Rep):
        fc = for_positive(f.count)
        f = Rep(f.seq, fc)
        if fc is not rt.parts[0].count:
            # the back count was computed from the guarded front count: read it on the same domain
            bc = bk.count
            if isinstance(bc, PW):
                pos = [v for g_, v in bc.pieces if g_.key == tm.compare(">", Wm1, 0).key]
                bc = pos[0] if len(pos) == 1 else bc
            bk = Rep(bk.seq, bc)
    okf = isinstance(f, Rep) and f.seq == marker and f.count in fronts
    ctx.check(okf, fi, "front margin is floor((W-1)/2) markers of value -1", role="front", expected=f"[-1] * {fronts[0]}", found=str(f))
    okb = isinstance(bk, Rep) and bk.seq == marker and isinstance(f, Rep) and tm.add(bk.count, f.count) == Wm1
    ctx.check(okb, fi, "back margin is (W-1) - front markers of value -1", role="back", expected=f"[-1] * ((W-1) - front)", found=str(bk))
    total = tm.length(Cat([f, rt.parts[1], bk])) if isinstance(f, Rep) and isinstance(bk, Rep) else tm.length(rt)
    ctx.check(total == tm.add(tm.length(labels), Wm1), fi, "length grows by exactly W-1", role="length",
              expected=str(tm.add(tm.length(labels), Wm1)), found=str(total))


@rule("C04", "R2", "AGREE", "the stacker's row count and the joint front end's stacked sizes are both T_k - W + 1", floor=2)
def r2(ctx):
    ana = ctx.ana
    from . import c10
    ctx.sub(c10.r1)          # ... and every row has all N*W columns of the caller's series (the MRFs are NW x NW)
    st = ana.func("data_preparation.stack_training_data")
    b = ana.builder(st, no_inline=ana.known)
    cfg = ana.cfg(st)
    data, W = Sym(st.params[0]), Sym(st.params[1])
    rows = tm.add(tm.add(Idx(Attr(data, "shape"), (tm.ZERO,)), tm.neg(W)), 1)
    allocs = []
    for n in cfg.nodes:
        if n.kind == "stmt" and isinstance(n.ast, ast.Assign):
            t = b.term(n.ast.value, n)
            if isinstance(t, App) and t.fn in ("numpy.zeros", "numpy.empty"):
                allocs.append((n, t))
    ok = False
    found = ""
    for n, t in allocs:
        shp = t.args[0] if t.args else t.kwarg("shape")
        if hasattr(shp, "elems") and shp.elems:
            found = str(shp.elems[0])
            ok = ok or shp.elems[0] == rows
    ctx.check(ok, st, "the stacker produces T - W + 1 rows", role="stacker-rows", expected=str(rows), found=found)
    fe = ana.func("front_end.ticc_joint_labels")
    bf = ana.builder(fe, no_inline=ana.known)
    split = calls_to(ana, fe, "fast_ticc.front_end._split_combined_result")
    if not split:
        raise AnalysisError("ticc_joint_labels does not call _split_combined_result")
    _sf = ana.func("front_end._split_combined_result")
    _a = bind_args(_sf, split[0].node).get(_sf.params[1])
    sizes = bf.term(_a) if _a is not None else None
    ok = isinstance(sizes, Comp) and not sizes.conds
    if ok:
        ok = False
        for cont in (App("builtins.list", (Sym("data_series"),)), Sym("data_series")):
            series = Idx(cont, (sizes.var,))
            wants = [tm.add(tm.add(App("len", (series,)), tm.neg(Sym("window_size"))), 1),
                     tm.add(tm.add(Idx(Attr(series, "shape"), (tm.ZERO,)), tm.neg(Sym("window_size"))), 1)]
            ok = ok or (sizes.elt in wants and sizes.iter == Range(0, tm.length(cont)))
    # composition: (T - W + 1) stacked rows + (W - 1) markers = T labels per series
    T_, W_ = Sym("T"), Sym("W")
    total = tm.add(tm.add(tm.add(T_, tm.neg(W_)), 1), tm.add(W_, -1))
    ctx.check(total == T_, st, "stacked rows plus padding give back the series length: (T - W + 1) + (W - 1) = T", role="compose-length",
              expected="T", found=str(total))
    ctx.check(ok, fe, "the sizes used to split the joint labels are len(series) - W + 1, one per series in input order",
              line=split[0].node.lineno, role="frontend-sizes", expected="[len(s) - window_size + 1 for s in data_series]", found=str(sizes)[:140])


@rule("C04", "R3", "TERM", "the joint label list is cut at cumulative stacked lengths, in input order", floor=2)
def r3(ctx):
    ctx.reformulable = True      # a shape template of a five-line sequence algorithm: see RuleCtx._foreign_combinators
    try:
        _r3(ctx)
    finally:
        ctx.reformulable = False


def _r3(ctx):
    ana = ctx.ana
    fi = ana.func(SPLIT)
    b = ana.builder(fi, no_inline=ana.known)
    rt = b.return_term()
    joint, L = Sym(fi.params[0]), Sym(fi.params[1])
    E = App("builtins.list", (App("itertools.accumulate", (L,)),))
    if not isinstance(rt, Comp) or rt.conds:
        ctx.fail(fi, "the result is not one slice per series built in order", role="shape", expected="[joint[e_{k-1}:e_k] for k in order]", found=str(rt)[:160])
        return
    ctx.check(rt.iter == Range(0, tm.length(L)), fi, "one slice per series, in input order", role="count",
              expected=str(Range(0, tm.length(L))), found=str(rt.iter))
    k = rt.var
    elt = rt.elt
    ok = isinstance(elt, Idx) and elt.base == joint and len(elt.idx) == 1 and isinstance(elt.idx[0], Slc) and elt.idx[0].step is None
    if not ctx.check(ok, fi, "each part is a contiguous slice of the joint list", role="slice", expected=f"{joint}[start:end]", found=str(elt)[:120]):
        return
    lo, hi = elt.idx[0].lo, elt.idx[0].hi
    his = [Idx(E, (k,)), Idx(App("itertools.accumulate", (L,)), (k,))]

    def prefix_sum(upto):
        # SUM_{j < upto} L[j] - the running-offset formulation (start = end carried through the loop) of accumulate(L)[upto - 1]
        from ..terms import Sum
        return lambda t: isinstance(t, Sum) and t.guard is None and len(t.binders) == 1 and t.binders[0][1] == Range(0, upto) \
            and t.body == Idx(L, (t.binders[0][0],))
    running = lo is not None and prefix_sum(k)(lo)
    if running:
        ctx.check(hi == tm.add(lo, Idx(L, (k,))), fi, "slice k ends at the cumulative length e_k (running offset: end = start + L[k])", role="end",
                  expected=f"{lo} + {Idx(L, (k,))}", found=str(hi))
        ctx.ok(fi, "slice k starts at e_{k-1} = L[0] + ... + L[k-1] (0 for the first series): parts are adjacent and disjoint", role="start",
               found=str(lo))
        return
    ctx.check(hi in his, fi, "slice k ends at the cumulative length e_k", role="end", expected=str(his[0]), found=str(hi))
    want_lo = PW([(tm.compare("==", k, 0), tm.ZERO), (tm.compare("!=", k, 0), Idx(E, (tm.add(k, -1),)))])
    alt = Idx(Cat([Lst([tm.ZERO]), E]), (k,))
    # ([0] + E[:-1])[k]: for k >= 1 the position k-1 <= n-2 lies inside the prefix E[:-1], so E[:-1][k-1] is E[k-1]
    E_cut = Idx(E, (Slc(None, tm.const(-1), None),))
    alt2 = PW([(tm.compare("==", k, 0), tm.ZERO), (tm.compare("!=", k, 0), Idx(E_cut, (tm.add(k, -1),)))])
    ctx.check(lo is not None and any(tm.pw_equiv(lo, w_, k, lo=0) for w_ in (want_lo, alt, alt2)), fi, "slice k starts at e_{k-1} (0 for the first series): parts are adjacent and disjoint",
              role="start", expected=str(want_lo), found=str(lo))


@rule("C04", "R4", "FLOW", "series k receives pad(split[k], W); the single-series front end pads exactly once", floor=3)
def r4(ctx):
    ana = ctx.ana
    fi = ana.func("front_end._split_combined_result")
    b = ana.builder(fi, no_inline=ana.known)
    master, sizes = Sym(fi.params[0]), Sym(fi.params[1])
    ctor = calls_to(ana, fi, "fast_ticc.containers.results.MultipleDataSeriesResult")
    if len(ctor) != 1:
        raise AnalysisError("MultipleDataSeriesResult constructor call not found exactly once")
    kw = ctor_args(ana, ctor[0])
    t = b.term(kw["point_labels"]) if "point_labels" in kw else None
    split = App(ana.func(SPLIT).qualname, (Attr(master, "point_labels"), sizes))
    ok = isinstance(t, Comp) and not t.conds and t.iter == Range(0, tm.length(split))
    if ok:
        want = App(ana.func(PAD).qualname, (Idx(split, (t.var,)), Attr(master, "window_size")))
        ok = t.elt == want
    ctx.check(ok, fi, "point_labels of the multi-series result is [pad(split[k], W) for k in input order]", line=ctor[0].node.lineno,
              role="assembly", expected=f"[pad({split}[k], master.window_size) for k]", found=str(t)[:200])
    # the function returns that constructor's value
    ctx.check(isinstance(b.return_term(), App) and b.return_term().fn.endswith("MultipleDataSeriesResult"), fi,
              "the assembled result is returned", role="assembly:return", found=str(b.return_term())[:60])
    # joint front end passes the master result and the stacked sizes
    fe = ana.func("front_end.ticc_joint_labels")
    bf = ana.builder(fe, no_inline=ana.known)
    rt = bf.return_term()
    ok = isinstance(rt, App) and rt.fn == fi.qualname and len(rt.args) >= 2 and isinstance(rt.args[0], App) \
        and rt.args[0].fn == "fast_ticc.main_loop.fit_stacked_data"
    ctx.check(ok, fe, "the joint front end returns the split of the main loop's result", role="joint:return",
              expected="_split_combined_result(fit_stacked_data(...), sizes, series)", found=str(rt)[:120])
    # single-series front end
    se = ana.func("front_end.ticc_labels")
    bs = ana.builder(se, no_inline=ana.known)
    stores = [s for s in bs.stores() if s.attr == "point_labels"]
    res = App("fast_ticc.main_loop.fit_stacked_data", (), {})
    ok = len(stores) == 1
    if ok:
        s = stores[0]
        ok = isinstance(s.value, App) and s.value.fn == ana.func(PAD).qualname and len(s.value.args) == 2 \
            and s.value.args[0] == Attr(s.base, "point_labels") \
            and s.value.args[1] in (Sym("window_size"), Attr(s.base, "window_size")) \
            and isinstance(s.base, App) and s.base.fn == "fast_ticc.main_loop.fit_stacked_data" and bs.return_term() == s.base
    ctx.check(ok, se, "ticc_labels pads the main loop's labels exactly once with its window_size and returns that result",
              role="single:pad-once", expected="result.point_labels = pad(result.point_labels, window_size)",
              found="; ".join(f"{s.base}.point_labels = {s.value}" for s in stores)[:200] or "no store")


@rule("C04", "R5", "RANGE", "main loop emits one label per stacked row, exactly K MRFs in cluster order, and echoes K and W", floor=4)
def r5(ctx):
    ana = ctx.ana
    fi = ana.func("main_loop.fit_stacked_data")
    b = ana.builder(fi, no_inline=ana.known)
    data = Sym(fi.params[1])
    ctor = calls_to(ana, fi, "fast_ticc.containers.results.SingleDataSeriesResult")
    if len(ctor) != 1:
        raise AnalysisError("SingleDataSeriesResult constructor call not found exactly once")
    kw = ctor_args(ana, ctor[0])
    rows = Idx(Attr(data, "shape"), (tm.ZERO,))
    # labels
    lab = kw.get("point_labels")
    ok = False
    found = unparse(lab) if lab is not None else "missing"
    if isinstance(lab, ast.Name):
        name = lab.id
        cfg = ana.cfg(fi)
        defs = [n for n in cfg.nodes if n.kind == "stmt" and isinstance(n.ast, ast.Assign) and name in n.defs]
        stores = [s for s in b.stores() if s.base_name == name]
        if len(defs) == 1 and len(stores) == 1 and len(stores[0].loops) == 1:
            alloc = b.term(defs[0].ast.value, defs[0])
            s = stores[0]
            i, rng = b.binder_of(s.loops[0])        # for i in range(rows) / for (i, label) in enumerate(state.point_labels)
            state_labels = [x for x in tm.subterms(s.value) if isinstance(x, Attr) and x.name == "point_labels"]
            ok = tm.length(alloc) == rows and s.idx == (i,) and isinstance(s.value, Idx) \
                and s.value.idx == (i,) and bool(state_labels) and s.value.base == state_labels[0] \
                and rng in (Range(0, rows), Range(0, tm.length(state_labels[0])))
            found = f"alloc {alloc}; {name}[{s.idx[0]}] = {s.value} for {i} in {rng}"
        elif len(defs) == 1 and not stores:
            t = b.term(defs[0].ast.value, defs[0])
            src = t.args[0] if isinstance(t, App) and t.fn == "builtins.list" and t.args else None
            if isinstance(src, Idx) and len(src.idx) == 1 and isinstance(src.idx[0], Slc) and src.idx[0].lo in (None, tm.ZERO) \
                    and src.idx[0].step is None and src.idx[0].hi in (rows, tm.length(src.base)):
                src = src.base        # labels[:T'] of a list that has T' entries
            ok = (src is not None and isinstance(src, Attr) and src.name == "point_labels") or \
                (isinstance(t, Comp) and not t.conds and isinstance(t.elt, Idx) and isinstance(t.elt.base, Attr) and t.elt.base.name == "point_labels"
                 and t.elt.idx == (t.var,) and t.iter in (Range(0, rows), Range(0, tm.length(t.elt.base))))
            found = str(t)
    ctx.check(ok, fi, "the label list has one entry per stacked row, entry i read from the final state at index i",
              role="labels", expected=f"labels[i] = state.point_labels[i] for i in range({rows})", found=found[:200])
    # MRFs
    t = b.term(kw["markov_random_fields"]) if "markov_random_fields" in kw else None
    ok = isinstance(t, Comp) and not t.conds
    if ok:
        states = [x for x in tm.subterms(t.elt) if isinstance(x, Attr) and x.name == "clusters"]
        ok = bool(states)
        if ok:
            st = states[0].base
            K = Attr(Attr(st, "arguments"), "num_clusters")
            ok = t.elt == Attr(Idx(states[0], (t.var,)), "train_inverse") and t.iter in (Range(0, K), Range(0, tm.length(states[0])))
    ctx.check(ok, fi, "markov_random_fields[k] is cluster k's train_inverse for every k in range(K)", role="mrfs",
              expected="[state.clusters[k].train_inverse for k in range(K)]", found=str(t)[:160])
    for f in ("num_clusters", "window_size"):
        t = b.term(kw[f]) if f in kw else None
        ok = isinstance(t, Attr) and t.name == f and isinstance(t.base, Attr) and t.base.name == "arguments"
        ctx.check(ok, fi, f"the result echoes arguments.{f}", role=f"echo:{f}", expected=f"state.arguments.{f}", found=str(t))
    plumb(ctx, ["num_clusters", "window_size"])


@rule("C04", "R6", "FLOW", "labels lie in [0, K): kernel provenance and repopulation's recipient ids")
def r6(ctx):
    from . import c01
    ctx.sub(c01.r8)
    ctx.sub(c01.r1, only=("alloc:P",))   # the back-pointer table must be able to hold every label it stores


@rule("C04", "R7", "FLOW", "the single-series front end stacks the caller's series as it is given, with the caller's window size", floor=2)
def r7(ctx):
    """One label per *input row*: nothing may transpose, trim, subsample or otherwise re-shape the series between the call and
    the stacker."""
    ana = ctx.ana
    from .common import positional_order_kept
    positional_order_kept(ctx, ["front_end.ticc_labels", "front_end.ticc_joint_labels"])     # W and K are the 2nd and 3rd positional arguments
    fe = ana.func("front_end.ticc_labels")
    st = ana.func("data_preparation.stack_training_data")
    cs = calls_to(ana, fe, st.qualname)
    if not cs:
        ctx.unrecognised(fe, "ticc_labels does not call the single-series stacker directly", role="single:stack")
        return
    b = ana.builder(fe, no_inline=ana.known)
    for c in cs:
        ba = bind_args(st, c.node)
        d, w = ba.get(st.params[0]), ba.get(st.params[1])
        dt = b.term(d, b.at(c.node)) if d is not None else None
        wt = b.term(w, b.at(c.node)) if w is not None else None
        ctx.check(dt == Sym(fe.params[0]), fe, "the stacker receives the caller's series itself", line=c.node.lineno, role="single:data",
                  expected=fe.params[0], found=str(dt)[:120])
        ctx.check(wt == Sym("window_size"), fe, "the stacker receives the caller's window size", line=c.node.lineno, role="single:window",
                  expected="window_size", found=str(wt)[:80])
