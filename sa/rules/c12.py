"""C12 - each cluster is fitted to exactly its own windows, with the requested estimator."""
from __future__ import annotations

import ast

from .. import terms as tm
from ..loader import AnalysisError
from ..report import rule
from ..resolve import Resolver
from ..terms import App, Attr, Idx, Lst, Range, Slc, Sym, Tup
from .common import skipping_guards, Flow, bind_args, calls_to, short, unparse
from .plumb import plumb

STATS = "cluster_maintenance.update_cluster_member_data_statistics"
ALL_STATS = "cluster_maintenance.update_all_cluster_statistics"


def _is_full_slice(t):
    return isinstance(t, Slc) and t.lo is None and t.hi is None and t.step is None


def _rows_of(t, data: Sym, cluster: Sym):
    """True when t == data[cluster.member_points, :] (or data[cluster.member_points])."""
    if not isinstance(t, Idx) or t.base != data:
        return False
    mp = Attr(cluster, "member_points")
    if len(t.idx) == 1:
        return t.idx[0] == mp
    if len(t.idx) == 2:
        return t.idx[0] == mp and _is_full_slice(t.idx[1])
    return False


@rule("C12", "R1", "FLOW", "covariance and mean are taken over training_data[c.member_points] of the cluster that receives them", floor=4)
def r1(ctx):
    ana = ctx.ana
    fi = ana.func(STATS)
    b = ana.builder(fi, no_inline=ana.known)
    params = fi.params
    if len(params) < 3:
        raise AnalysisError(f"{STATS} no longer has (cluster, training_data, flag) parameters")
    cluster, data = Sym(params[0]), Sym(params[1])
    stores = {s.attr: s for s in b.stores() if s.attr in ("empirical_covariance", "stacked_data_mean")}
    for attr in ("empirical_covariance", "stacked_data_mean"):
        if attr not in stores:
            ctx.fail(fi, f"`{attr}` is not assigned in the statistics update", role=f"store:{attr}")
            continue
        s = stores[attr]
        # the receiving object is a copy of the same cluster
        recv_ok = isinstance(s.base, App) and s.base.fn.endswith("ClusterParameters.shallow_copy") and s.base.args == (cluster,) \
            or isinstance(s.base, App) and s.base.fn.endswith("ClusterParameters.deep_copy") and s.base.args == (cluster,) \
            or s.base == cluster
        ctx.check(recv_ok, fi, f"`{attr}` is stored on (a copy of) the cluster whose members were read", line=s.stmt.lineno,
                  role=f"receiver:{attr}", expected=f"{params[0]}.shallow_copy().{attr} = ...", found=str(s.base))
        v = s.value
        if attr == "empirical_covariance":
            if not (isinstance(v, App) and v.fn == "numpy.cov" and v.args):
                ctx.unrecognised(fi, "empirical covariance is not computed by a numpy.cov call (an explicit scatter-matrix formula is not modelled)",
                                 line=s.stmt.lineno, role="cov:callee", found=str(v)[:100])
                continue
            x = v.args[0]
            rowvar = v.kwarg("rowvar")
            transposed = isinstance(x, App) and x.fn == "T"
            inner = x.args[0] if transposed else x
            rows_ok = _rows_of(inner, data, cluster)
            ctx.check(rows_ok, fi, "numpy.cov sees exactly the rows training_data[cluster.member_points]", line=s.stmt.lineno,
                      role="cov:rows", expected=f"{params[1]}[{params[0]}.member_points, :]", found=str(inner))
            var_rows = (transposed and (rowvar is None or rowvar == tm.Lit(True))) or ((not transposed) and rowvar == tm.Lit(False))
            ctx.check(var_rows, fi, "variables are the columns of the stacked data (transpose or rowvar=False)", line=s.stmt.lineno,
                      role="cov:orientation", expected="np.cov(X.T) or np.cov(X, rowvar=False)",
                      found=f"transposed={transposed} rowvar={rowvar}")
            extra = [k for k, _ in v.kw if k not in ("bias", "rowvar", "ddof")]      # ddof: see R2
            if extra or len(v.args) > 1:
                raise AnalysisError(f"numpy.cov called with {extra or 'extra positional arguments'}: effect on the estimator not modelled")
        else:
            ok = isinstance(v, App) and v.fn == "numpy.mean" and len(v.args) == 1 and _rows_of(v.args[0], data, cluster) \
                and v.kwarg("axis") == tm.ZERO and len(v.kw) == 1
            ctx.check(ok, fi, "the mean is numpy.mean(training_data[cluster.member_points], axis=0)", line=s.stmt.lineno,
                      role="mean:rows", expected=f"np.mean({params[1]}[{params[0]}.member_points, :], axis=0)", found=str(v)[:120])
    # the function returns the object it updated
    rt = b.return_term()
    if stores:
        anyb = next(iter(stores.values())).base
        ctx.check(rt == anyb, fi, "the updated cluster is what the function returns", role="return", expected=str(anyb), found=str(rt))


@rule("C12", "R2", "FLOW", "bias= of the covariance estimator is the user's biased_covariance flag", floor=3)
def r2(ctx):
    ana = ctx.ana
    fi = ana.func(STATS)
    b = ana.builder(fi, no_inline=ana.known)
    flag = fi.params[2]
    covs = [s for s in b.stores() if s.attr == "empirical_covariance"]
    if not covs:
        raise AnalysisError("no empirical_covariance store")
    v = covs[0].value
    if not (isinstance(v, App) and v.fn == "numpy.cov"):
        ctx.unrecognised(fi, "the covariance is not computed by a numpy.cov call: how the estimator flag enters an explicit formula is not modelled",
                         line=covs[0].stmt.lineno, role="bias:kw", found=str(v)[:100])
        return
    ddof = v.kwarg("ddof")
    if ddof is not None and ddof != tm.Lit(None):
        # numpy.cov: an explicit ddof overrides bias; the normalisation is n - ddof, so bias=flag is ddof = 0 if flag else 1
        f_ = Sym(flag)
        trueish = {f_.key, tm.compare("!=", f_, 0).key, tm.compare("==", f_, 1).key, tm.negate(tm.compare("==", f_, 0)).key}
        falseish = {tm.negate(f_).key, tm.compare("==", f_, 0).key, tm.compare("!=", f_, 1).key, tm.negate(tm.compare("!=", f_, 0)).key}
        ps = tm.pieces_of(ddof)
        ok = len(ps) == 2 and all((g_.key in trueish and v_ == tm.ZERO) or (g_.key in falseish and v_ == tm.ONE) for g_, v_ in ps) \
            and {v_.key for _g, v_ in ps} == {tm.ZERO.key, tm.ONE.key}
        ok = ok or ddof == tm.add(1, tm.neg(f_))
        ctx.check(ok, fi, "numpy.cov(ddof=...) is 0 for the biased estimator and 1 otherwise, selected by the flag parameter itself",
                  line=covs[0].stmt.lineno, role="bias:kw", expected=f"ddof = 0 if {flag} else 1 (same as bias={flag})", found=f"ddof={ddof}")
        return _r2_call_site(ctx, ana, fi, flag)
    bias = v.kwarg("bias") if isinstance(v, App) else None
    ctx.check(bias == Sym(flag), fi, "numpy.cov(bias=...) receives the flag parameter itself", line=covs[0].stmt.lineno,
              role="bias:kw", expected=f"bias={flag}", found=f"bias={bias}")
    _r2_call_site(ctx, ana, fi, flag)


def _r2_call_site(ctx, ana, fi, flag):
    # call site: flag <- model.arguments.biased_covariance
    caller = ana.func(ALL_STATS)
    cs = calls_to(ana, caller, fi.qualname)
    if not cs:
        raise AnalysisError(f"{ALL_STATS} does not call {STATS}")
    for c in cs:
        ba = bind_args(fi, c.node)
        a = ba.get(flag)
        ok = isinstance(a, ast.Attribute) and a.attr == "biased_covariance" and \
            ana.res.type_of(caller, a.value) == ("cls", "fast_ticc.containers.arguments.UserArguments")
        if not ok and isinstance(a, ast.Name):
            fl = Flow(ana, caller)
            d = fl.sole_def(a.id, fl.at(a))
            if d is not None and isinstance(d.ast, ast.Assign) and isinstance(d.ast.value, ast.Attribute) and d.ast.value.attr == "biased_covariance":
                ok = ana.res.type_of(caller, d.ast.value.value) == ("cls", "fast_ticc.containers.arguments.UserArguments")
        ctx.check(ok, caller, "the flag passed down is arguments.biased_covariance", line=c.node.lineno, role="bias:call-site",
                  expected="model.arguments.biased_covariance", found=unparse(a) if a is not None else "missing (default)")
    plumb(ctx, ["biased_covariance"])


@rule("C12", "R3", "RANGE", "statistics are refreshed for every cluster id, each from its own slot, on the phase's input data", floor=3)
def r3(ctx):
    ana = ctx.ana
    fi = ana.func(ALL_STATS)
    b = ana.builder(fi, no_inline=ana.known)
    stats = ana.func(STATS)
    found = False
    for s in b.stores():
        if s.idx is None or not (isinstance(s.base, Attr) and s.base.name == "clusters"):
            continue
        v = s.value
        if not (isinstance(v, App) and v.fn == stats.qualname):
            continue
        found = True
        k = s.idx[0]
        same = len(v.args) >= 1 and v.args[0] == Idx(s.base, (k,))
        if not same and len(v.args) >= 1:
            # clusters[k] of the phase's input state is the same object as clusters[k] of its fresh shallow copy, as long as slot k of the
            # copy has not been overwritten yet - and it is overwritten by this very store
            same = tm.unshallow(v.args[0]) == tm.unshallow(Idx(s.base, (k,)))
        ctx.check(same, fi, "cluster k is replaced by the statistics update of cluster k of the same state", line=s.stmt.lineno,
                  role="slot", expected=f"clusters[{k}] = update(clusters[{k}], ...)", found=f"clusters[{k}] = update({v.args[0] if v.args else ''}, ...)")
        data_ok = len(v.args) >= 2 and v.args[1] == Sym(fi.params[1])
        ctx.check(data_ok, fi, "the update reads the training data given to the phase", line=s.stmt.lineno, role="data",
                  expected=fi.params[1], found=str(v.args[1]) if len(v.args) > 1 else "")
        hdr = b.cfg.stmt_node.get(id(s.loops[-1])) if s.loops else None
        skips = skipping_guards(b, s.node, hdr)
        ctx.check(not skips, fi, "no cluster id is skipped: the refresh of cluster k is unconditional inside the loop", line=s.stmt.lineno,
                  role="unconditional", expected="no branch around the update",
                  found="; ".join(f"{'' if pol else 'not '}({t})" for t, pol, _o in skips))
        rng = s.loop_ranges[-1] if s.loops else None
        want = Range(0, Attr(Attr(Sym(fi.params[0]), "arguments"), "num_clusters"))
        if rng is not None and rng != want:
            rng = tm.unshallow(rng)          # the cluster count of a fresh shallow copy is the original's
        ctx.check(rng == want, fi, "the loop visits every cluster id in range(num_clusters)", line=s.stmt.lineno, role="range",
                  expected=str(want), found=str(rng))
        # the state whose clusters are updated is a copy of the input state (membership is the input's)
        st = s.base.base
        ok = st == Sym(fi.params[0]) or (isinstance(st, App) and st.fn.endswith("ModelState.shallow_copy") and st.args == (Sym(fi.params[0]),)) \
            or (isinstance(st, App) and st.fn.endswith("ModelState.deep_copy") and st.args == (Sym(fi.params[0]),))
        ctx.check(ok, fi, "the updated state is a copy of the phase's input state", line=s.stmt.lineno, role="state",
                  expected=f"{fi.params[0]}.shallow_copy()", found=str(st))
        ctx.check(b.return_term() == st, fi, "the phase returns the state it updated", role="return", expected=str(st), found=str(b.return_term()))
    if not found:
        raise AnalysisError("per-cluster statistics update store not recognised in update_all_cluster_statistics")
    # all phases of the main loop receive the same stacked data parameter
    ml = ana.func("main_loop.fit_stacked_data")
    fl = Flow(ana, ml)
    for target, pname in (("fast_ticc.cluster_maintenance.update_all_cluster_statistics", "training_data"),
                          ("fast_ticc.graphical_lasso.optimize_markov_random_fields", "stacked_training_data"),
                          ("fast_ticc.cluster_label_assignment.predict_cluster_labels", "test_data")):
        for c in calls_to(ana, ml, target):
            ba = bind_args(c.callee.func, c.node)
            a = ba.get(pname)
            p = fl.resolves_to_param(a) if a is not None else None
            ctx.check(p == ml.params[1], ml, f"{short(target)} receives the stacked data handed to the main loop", line=c.node.lineno,
                      role=f"data:{short(target)}", expected=ml.params[1], found=unparse(a) if a is not None else "missing")


@rule("C12", "R4", "FLOW", "the optimiser receives the cluster's covariance, the user's sparsity weight, W and N unchanged", floor=6)
def r4(ctx):
    ana = ctx.ana
    setup = ana.func("graphical_lasso._setup_optimization_task")
    target = ana.func("admm.front_end.admm_optimize_theta")
    b = ana.builder(setup, no_inline=ana.known)
    rt = b.return_term()
    if not (isinstance(rt, App) and rt.fn in (".apply_async", ".apply", ".submit")):
        raise AnalysisError(f"_setup_optimization_task does not return pool.apply_async(...): {str(rt)[:80]}")
    args = list(rt.args[1:])
    fn = args[0] if args else None
    ctx.check(fn == Sym(target.qualname), setup, "the task runs the public ADMM entry point", role="task:callee",
              expected=target.qualname, found=str(fn))
    pos = args[1] if len(args) > 1 else rt.kwarg("args")
    kws = args[2] if len(args) > 2 else rt.kwarg("kwds")
    if not isinstance(pos, (Lst, Tup)):
        raise AnalysisError(f"positional task arguments are not a literal list: {pos}")
    tparams = target.own_params
    bound = dict(zip(tparams, pos.elems))
    sp = list(setup.params)                       # reference names, reference order
    own = list(setup.own_params)                  # the parameters as written today
    sp_full = sp                                  # applications are written in the reference order (TermBuilder._positional)
    want = {
        "empirical_covariance": Attr(Sym(sp[0]), "empirical_covariance"),
        "sparsity_weight": Sym(sp[3]),
        "window_size": Sym(sp[2]),
        "num_data_series": Sym(sp[1]),
    }
    kw_keys = []
    if isinstance(kws, App) and kws.fn == "dict":
        for pair in kws.args:
            if isinstance(pair, Tup) and isinstance(pair.elems[0], tm.Lit):
                kw_keys.append(pair.elems[0].value)
                if pair.elems[0].value in want:
                    bound[pair.elems[0].value] = pair.elems[1]
    elif kws is not None:
        raise AnalysisError(f"keyword task arguments are not a literal dict: {kws}")
    for p, w in want.items():
        ctx.check(bound.get(p) == w, setup, f"task argument `{p}` is {w}", role=f"task:{p}", expected=str(w), found=str(bound.get(p)))
    controls = {"rho", "rho_update", "max_iterations", "relative_tolerance", "absolute_tolerance", "verbose"}
    ctx.check(set(kw_keys) <= controls | set(want), setup, "the keyword dict holds solver controls only", role="task:kwargs",
              expected=str(sorted(controls)), found=str(kw_keys))
    # call site of the setup helper
    caller = ana.func("graphical_lasso.optimize_markov_random_fields")
    bc = ana.builder(caller, no_inline=ana.known)
    calls = [x for s in bc.stores() for x in tm.subterms(s.value) if isinstance(x, App) and x.fn == setup.qualname]
    if not calls:
        for n in Resolver.walk_own(caller.node):
            if isinstance(n, ast.ListComp):
                t = bc.term(n)
                calls += [x for x in tm.subterms(t) if isinstance(x, App) and x.fn == setup.qualname]
    if not calls:
        try:
            calls = [x for x in tm.subterms(bc.return_term()) if isinstance(x, App) and x.fn == setup.qualname]     # append-loop form
        except Exception:
            calls = []
    if not calls:
        raise AnalysisError("call of _setup_optimization_task not found in optimize_markov_random_fields")
    m = Sym(caller.params[0])
    data = Sym(caller.params[1])
    W = Attr(Attr(m, "arguments"), "window_size")
    for c in calls:
        ba = dict(zip(sp_full, c.args))
        ba.update(dict(c.kw))
        cl = ba.get(sp[0])
        ctx.check(isinstance(cl, Idx) and cl.base == Attr(m, "clusters"), caller, "the task is built from a cluster of the phase's input state",
                  role="call:cluster", expected="model.clusters[k]", found=str(cl))
        ctx.check(ba.get(sp[3]) == Attr(Attr(m, "arguments"), "sparsity_weight"), caller, "sparsity weight is arguments.sparsity_weight",
                  role="call:sparsity_weight", expected="model.arguments.sparsity_weight", found=str(ba.get(sp[3])))
        ctx.check(ba.get(sp[2]) == W, caller, "window size is arguments.window_size", role="call:window_size",
                  expected=str(W), found=str(ba.get(sp[2])))
        n_want1 = tm.to_int(tm.div(Idx(Attr(data, "shape"), (tm.ONE,)), W))
        n_want2 = tm.floordiv(Idx(Attr(data, "shape"), (tm.ONE,)), W)
        got = ba.get(sp[1])
        ctx.check(got in (n_want1, n_want2), caller, "sensor count is columns / window size", role="call:num_data_series",
                  expected=str(n_want1), found=str(got))
    plumb(ctx, ["sparsity_weight", "window_size"])


@rule("C12", "R5", "ORDER", "membership read by the statistics phase is current, also right after a repopulation event")
def r5(ctx):
    from . import c13, c08
    ctx.sub(c13.r2)    # assigning labels re-derives member_points immediately (full-equality skip condition only)
    ctx.sub(c08.r6, only=("commit:in-loop",))    # each refill is committed to the working state through the label setter
    from . import c09
    from . import c14
    ctx.sub(c14.r2, only=("producer:", "consumer:", "unordered:"))    # task k is built from cluster k's covariance and its result is stored for cluster k
    c09.lifecycle(ctx, {"fresh-stats"})    # nothing relabels between the statistics phase and the optimiser: repopulate -> statistics -> optimise


@rule("C12", "R6", "OWN", "between the statistics phase and the hand-off nothing edits the fitted statistics: the optimise phase never writes its input state", evidence=True)
def r6(ctx):
    """The optimiser must receive the sample covariance itself - an in-place clean-up of `empirical_covariance` on the way (a
    threshold, a symmetrisation, a regulariser) changes what cluster k is fitted to."""
    from . import c13
    ctx.sub(c13.r6, only=(r"input-write:graphical_lasso\.optimize_markov_random_fields",))
