"""C07 - jointly labelled series are independent across series boundaries."""
from __future__ import annotations

import ast

from .. import terms as tm
from ..loader import AnalysisError
from ..report import rule
from ..resolve import Resolver
from ..terms import App, Attr, Comp, Idx, Poly, Range, Slc, Sym, Tup
from .common import Flow, bind_args, call_arg, calls_to, ctor_args, short, unparse
from .plumb import FRONT_ENDS, UA, bundle_ctor_calls, plumb

STACK1 = "fast_ticc.data_preparation.stack_training_data"
STACKN = "data_preparation.stack_training_data_multiple_series"
MASK = "data_preparation.label_switching_cost_template"


@rule("C07", "R1", "FLOW", "multi-series stacking is vstack of the per-series stackings, in input order", floor=1)
def r1(ctx):
    ana = ctx.ana
    fi = ana.func(STACKN)
    b = ana.builder(fi, no_inline=ana.known)
    rt = b.return_term()
    series, W = Sym(fi.params[0]), Sym(fi.params[1])
    ok = False
    if isinstance(rt, App) and rt.fn in ("numpy.vstack", "numpy.concatenate", "numpy.row_stack") and rt.args:
        axis = rt.kwarg("axis")
        arg = rt.args[0]
        if isinstance(arg, Comp) and not arg.conds and (axis is None or axis == tm.ZERO):
            want_elt = App(STACK1, (Idx(series, (arg.var,)), W))
            alt = App(STACK1, (), {"data": Idx(series, (arg.var,)), "window_size": W})
            ok = (arg.elt == want_elt or arg.elt == alt) and arg.iter == Range(0, tm.length(series))
    ctx.check(ok, fi, "result is vstack([stack(s, W) for s in all_series]): every series stacked on its own, none dropped, order kept",
              role="per-series", expected=f"numpy.vstack([{STACK1}(s, {W}) for s in {series}])", found=str(rt)[:200])
    # the joint front end stacks through this helper with its own list and window size
    fe = ana.func("front_end.ticc_joint_labels")
    cs = calls_to(ana, fe, fi.qualname)
    if not cs:
        raise AnalysisError("ticc_joint_labels does not call the multi-series stacker")
    fl = Flow(ana, fe)
    for c in cs:
        ba = bind_args(fi, c.node)
        w = ba.get(fi.params[1])
        ctx.check(w is not None and fl.resolves_to_param(w) == "window_size", fe, "the joint front end stacks with its window_size keyword",
                  line=c.node.lineno, role="per-series:window", expected="window_size", found=unparse(w) if w is not None else "missing")
        s = ba.get(fi.params[0])
        dep = fl.closure(s) if s is not None else None
        ctx.check(dep is not None and "data_series" in dep.params, fe, "the joint front end stacks the caller's series",
                  line=c.node.lineno, role="per-series:data", expected="data_series", found=unparse(s) if s is not None else "missing")


@rule("C07", "R2", "TERM", "the mask has zeros exactly at e_k - 1 + o (kernel convention) for every series but the last", floor=4)
def r2(ctx):
    ana = ctx.ana
    from .c01 import kernel_price_offset
    o = kernel_price_offset(ana)
    if o is None:
        raise AnalysisError("price offset of the kernel cannot be read (C01.R4 not uniform)")
    fi = ana.func(MASK)
    L = Sym(fi.params[0])
    # the mask is a fresh array on every call: a memoised helper on the way would hand the same (mutable) array to every caller
    saved_ev, ctx.evidence = ctx.evidence, True
    try:
        reach = ana.res.reachable([fi.qualname])
        for q_ in sorted(reach):
            g_ = ana.prog.functions.get(q_)
            if g_ is None or not g_.qualname.startswith("fast_ticc.data_preparation"):
                continue
            if any("cache" in unparse(d_, 60) for d_ in g_.decorators):
                ctx.fail(g_, "the switching-cost mask comes from a memoised function: every caller receives (and may edit) the same array object",
                         line=g_.node.lineno, role=f"mask:memoised:{g_.name}", expected="a freshly allocated mask per call", found=", ".join(unparse(d_, 40) for d_ in g_.decorators))
    finally:
        ctx.evidence = saved_ev
    b = ana.builder(fi, no_inline=ana.known)
    rt = b.return_term()
    if not isinstance(rt, Sym):
        raise AnalysisError(f"mask helper returns {rt}: only the allocate-then-overwrite idiom is modelled")
    name = rt.name
    cfg = ana.cfg(fi)
    defs = [n for n in cfg.nodes if n.kind == "stmt" and isinstance(n.ast, ast.Assign) and name in n.defs]
    if len(defs) != 1:
        raise AnalysisError("mask array is not allocated by a single assignment")
    alloc = b.term(defs[0].ast.value, defs[0])
    total = App("builtins.sum", (L,))
    forms = {App("numpy.ones", (), {"shape": Tup([total])}).key, App("numpy.ones", (Tup([total]),)).key,
             App("numpy.ones", (total,)).key, App("numpy.ones", (), {"shape": total}).key}
    ctx.check(alloc.key in forms, fi, "the mask starts as ones of length sum(lengths)", line=defs[0].lineno, role="mask:alloc",
              expected=f"numpy.ones(shape=({total},))", found=str(alloc))
    stores = [s for s in b.stores() if s.base_name == name]
    other = [m for m in b.mutated.get(name, []) if not isinstance(m, ast.Assign)]
    looped = None
    if len(stores) == 1 and len(stores[0].loops) == 1 and stores[0].aug is None and len(stores[0].idx or ()) == 1 and isinstance(stores[0].loops[0], ast.For):
        # for e in E: template[f(e)] = 0   is the fancy-index store   template[[f(e) for e in E]] = 0   (the value does not depend on e)
        kv, krng = b.binder_of(stores[0].loops[0])
        if isinstance(krng, Range) and not any(x == kv for x in tm.subterms(stores[0].value)):
            looped = Comp(stores[0].idx[0], kv, krng)
    if not ctx.check(len(stores) == 1 and not other and (not stores[0].loops or looped is not None) and stores[0].aug is None, fi,
                     "exactly one overwrite of the mask", role="mask:single-store",
                     expected="template[<indices>] = 0", found=f"{len(stores)} store(s), {len(other)} other mutation(s)"):
        return
    s = stores[0]
    if looped is not None:
        import copy as _copy
        s = _copy.copy(s)
        s.idx = (looped,)
    # (a guard that only excludes the empty argument list - which raises - skips nothing)
    harmless = {tm.compare("!=", tm.length(L), 0).key, tm.compare(">", tm.length(L), 0).key}
    gparts = s.guards.parts if isinstance(s.guards, tm.And) else ([] if s.guards == tm.TRUE else [s.guards])
    ctx.check(s.value == tm.ZERO and all(g_.key in harmless for g_ in gparts), fi, "the overwrite writes the constant 0 unconditionally", line=s.stmt.lineno,
              role="mask:value", expected="0", found=f"{s.value} if {s.guards}")
    # index list: endpoints = accumulate(lengths) without its last element, shifted by o - 1
    idx = s.idx[0] if len(s.idx) == 1 else None
    E_full = [App("builtins.list", (App("itertools.accumulate", (L,)),)), App("itertools.accumulate", (L,))]
    shift = tm.const(o - 1)
    ok = False
    found = str(idx)
    ends_name = None
    if isinstance(idx, Comp) and not idx.conds:
        # [e + shift for e in E]
        it = idx.iter
        elt = idx.elt
        if isinstance(it, Range) and it.lo == tm.ZERO and isinstance(elt, (Poly, Idx)):
            base_atoms = [a for a in (elt.atoms() if isinstance(elt, Poly) else [elt]) if isinstance(a, Idx) and a.idx == (idx.var,)]
            if len(base_atoms) == 1:
                E = base_atoms[0].base
                if tm.add(elt, tm.neg(base_atoms[0])) == shift or (shift == tm.ZERO and elt == base_atoms[0]):
                    if it.hi == tm.length(E):
                        ok, ends_name = _is_all_but_last(ana, fi, b, E, E_full, s)
                        found = f"[{elt} for {idx.var} over {E}]"
    elif isinstance(idx, Poly) or isinstance(idx, (Sym, Idx, App)):
        # np.array(E) + shift, or E itself when shift == 0
        atoms = idx.atoms() if isinstance(idx, Poly) else [idx]
        # an index array built from a possibly empty list must be given an integer dtype (numpy.array([]) is float64 and
        # cannot index: the single-series case)
        def _int_array(a):
            return isinstance(a, App) and a.fn in ("numpy.array", "numpy.asarray") and a.args and str(a.kwarg("dtype")) in ("builtins.int", "numpy.int64", "numpy.intp", "numpy.int_")

        def _int_cumsum(a):
            # numpy.cumsum(lengths[:n-1], dtype=<integer>) is accumulate(lengths) without its last element, as an integer array
            # (also for the empty prefix: the dtype is given)
            return isinstance(a, App) and a.fn == "numpy.cumsum" and len(a.args) == 1 and str(a.kwarg("dtype")) in ("builtins.int", "numpy.int64", "numpy.intp", "numpy.int_") \
                and isinstance(a.args[0], Idx) and a.args[0].base == L and len(a.args[0].idx) == 1 and isinstance(a.args[0].idx[0], Slc) \
                and a.args[0].idx[0].lo in (None, tm.ZERO) and a.args[0].idx[0].step is None \
                and a.args[0].idx[0].hi in (tm.const(-1), tm.add(tm.length(L), -1))
        cs = [a for a in atoms if _int_cumsum(a)]
        if len(cs) == 1 and tm.add(idx, tm.neg(cs[0])) == shift:
            ok = True
            found = f"{cs[0]} + {shift}"
        arrs = [a for a in atoms if _int_array(a) or isinstance(a, (Sym, Idx))] if not ok else []
        if len(arrs) == 1:
            a = arrs[0]
            E = a.args[0] if isinstance(a, App) else a
            rest = tm.add(idx, tm.neg(a))
            if rest == shift and (isinstance(a, App) or shift == tm.ZERO):
                ok, ends_name = _is_all_but_last(ana, fi, b, E, E_full, s)
    ctx.check(ok, fi, f"zeros are written at accumulate(lengths)[k] - 1 + {o} for all k but the last "
                      f"(the kernel prices pair (i, i+1) with b[i+{o}])", line=s.stmt.lineno, role="mask:positions",
              expected=f"[e - 1 + {o} for e in accumulate(lengths)[:-1]]", found=found)
    # single series: no zeros (follows from all-but-last of a one-element list)
    ctx.ok(fi, "with one series the index list is empty, so the mask is all ones (all-but-last of a one-element list)",
           role="mask:single-series") if ok else None


def _is_all_but_last(ana, fi, b, E, E_full, store):
    """E denotes accumulate(lengths) without its last element: either a slice [:-1] of the full list, or a
    local list initialised with the full list from which exactly one pop() (no argument) removed the tail."""
    if isinstance(E, Idx) and len(E.idx) == 1 and isinstance(E.idx[0], Slc):
        sl = E.idx[0]
        if sl.lo in (None, tm.ZERO) and sl.hi == tm.const(-1) and sl.step is None and any(E.base == f for f in E_full):
            return True, None
        return False, None
    if isinstance(E, Sym):
        cfg = ana.cfg(fi)
        defs = [n for n in cfg.nodes if n.kind == "stmt" and isinstance(n.ast, ast.Assign) and E.name in n.defs]
        if len(defs) != 1:
            return False, None
        t0 = b.term(defs[0].ast.value, defs[0])
        if not any(t0 == f for f in E_full[:1]):
            return False, None
        muts = b.mutated.get(E.name, [])
        pops = [m for m in muts if isinstance(m, ast.Call) and m.func.attr == "pop" and not m.args and not m.keywords]
        if len(pops) != 1 or len(muts) != 1:
            return False, None
        pn = cfg.node_of(pops[0])
        if cfg.enclosing_loops(pn) or cfg.guards(pn):
            return False, None
        if not (cfg.dominates(defs[0], pn) and cfg.dominates(pn, store.node)):
            return False, None
        return True, E.name
    return False, None


@rule("C07", "R3", "FLOW", "the masked switching cost is what reaches the labelling step of a joint run", floor=1)
def r3(ctx):
    ana = ctx.ana
    fe = ana.func("front_end.ticc_joint_labels")
    main = calls_to(ana, fe, "fast_ticc.main_loop.fit_stacked_data")
    ctors = bundle_ctor_calls(ana, fe)
    if not main or not ctors:
        raise AnalysisError("ticc_joint_labels: UserArguments(...) / fit_stacked_data(...) not found")
    fl = Flow(ana, fe)
    ba = bind_args(main[0].callee.func, main[0].node)
    arg = ba.get("user_args")
    feeding = None
    if isinstance(arg, ast.Name):
        v_ = fl.resolve_copies(arg)
        feeding = next((c for c in ctors if c.node is v_), None)
    elif isinstance(arg, ast.Call):
        feeding = next((c for c in ctors if c.node is arg), None)
    if feeding is None:
        raise AnalysisError("the bundle passed to fit_stacked_data is not a single UserArguments(...) construction")
    v = ctor_args(ana, feeding).get("label_switching_cost")
    if v is None:
        ctx.fail(fe, "UserArguments is built without label_switching_cost", line=feeding.node.lineno, role="masked-price")
        return
    dep = fl.closure(v)
    mask_q = ana.func(MASK).qualname
    masked = mask_q in dep.call_names
    uses = []
    for n in Resolver.walk_own(fe.node):
        if isinstance(n, ast.Assign) and any(isinstance(c, ast.Call) and ana.res.callee(fe, c).func is not None
                                             and ana.res.callee(fe, c).func.qualname == mask_q for c in ast.walk(n.value)):
            uses.append(n.lineno)
    ctx.check(masked, fe, "the label_switching_cost given to UserArguments is data-dependent on the boundary mask",
              line=v.lineno, role="masked-price" if masked else "masked-price:depends-only-on:" + ",".join(sorted(dep.params) or ["<constants>"]),
              expected=f"a definition data-dependent on {short(mask_q)}(...)",
              found=f"reaching value `{unparse(v)}` depends on parameters {sorted(dep.params)} only; the mask is computed at line(s) {uses} "
                    f"after/apart from the bundle" if not masked else "",
              reaching_definitions_at_sink=sorted(dep.params), sink="UserArguments(label_switching_cost=...) -> fit_stacked_data(args, ...)")
    if masked:
        ctx.check("label_switching_cost" in dep.params, fe, "the masked price still depends on the user's switching cost", line=v.lineno,
                  role="masked-price:param", expected="label_switching_cost * mask", found=unparse(v))
        b = ana.builder(fe, no_inline=ana.known)
        t = b.term(v)
        sizes_ok = any(isinstance(x, App) and x.fn == mask_q for x in tm.subterms(t))
        ctx.check(sizes_ok, fe, "the product is taken with the mask helper's result", role="masked-price:product", found=str(t)[:120])


@rule("C07", "R4", "AGREE", "both front ends plumb every hyper-parameter alike and share defaults", floor=10)
def r4(ctx):
    ana = ctx.ana
    fields = ["window_size", "num_clusters", "sparsity_weight", "label_switching_cost", "iteration_limit",
              "min_meaningful_covariance", "num_processors", "min_cluster_size", "biased_covariance"]
    plumb(ctx, fields, skip={("ticc_joint_labels", "label_switching_cost")})
    a, b_ = ana.func(FRONT_ENDS[0]), ana.func(FRONT_ENDS[1])
    for f in fields:
        da, db = a.default_of(f), b_.default_of(f)
        same = (da is None and db is None) or (da is not None and db is not None and ast.dump(da) == ast.dump(db))
        ctx.check(same, b_, f"default of `{f}` is the same in both front ends", role=f"defaults:{f}",
                  expected=unparse(da) if da is not None else "required", found=unparse(db) if db is not None else "required")
    # the mask is computed from the stacked lengths T_k - W + 1 (agreement with the stacker is C04.R2)
    fe = b_
    bb = ana.builder(fe, no_inline=ana.known)
    cs = calls_to(ana, fe, ana.func(MASK).qualname)
    for c in cs:
        a0 = call_arg(ana, c, ana.func(MASK).params[0], pos=0)
        t = bb.term(a0) if a0 is not None else None
        ok = isinstance(t, Comp) and not t.conds
        if ok:
            ok = False
            for cont in (App("builtins.list", (Sym("data_series"),)), Sym("data_series")):
                want = tm.add(tm.add(App("len", (Idx(cont, (t.var,)),)), tm.neg(Sym("window_size"))), 1)
                want2 = tm.add(tm.add(Idx(Attr(Idx(cont, (t.var,)), "shape"), (tm.ZERO,)), tm.neg(Sym("window_size"))), 1)
                ok = ok or (t.elt in (want, want2) and t.iter == Range(0, tm.length(cont)))
        ctx.check(ok, fe, "the mask is built from the stacked lengths len(series) - W + 1", line=c.node.lineno, role="mask:sizes",
                  expected="[len(s) - window_size + 1 for s in data_series]", found=str(t)[:140])


@rule("C07", "R5", "TERM", "the labelling kernel honours a per-pair price: zero entries make the boundary pairs free, and the optimum is over within-series pairs only")
def r5(ctx):
    from . import c01
    ctx.sub(c01.r1)
    ctx.sub(c01.r2)
    ctx.sub(c01.r3)
    ctx.sub(c01.r4)
    ctx.sub(c01.r5)
    ctx.sub(c01.r6, only=("start:cost",))   # "... and the reported cost equals" the cost of the returned path
    ctx.sub(c01.r7)                          # which follows the stored back-pointers
    from . import c19
    ctx.sub(c19.r3)                          # the compiled kernel accepts a per-pair vector (no explicit scalar-only signature)
    # and the relabel phase hands it the price vector as it stands (no "constant vector" collapse), and stores what that very call
    # returned - not a memo keyed on something coarser than the per-pair vector (round 8, C07-u2: key = max(beta), stale boundaries)
    ctx.sub(c01.r9, only=("handover:price", "handover:point_labels", "handover:label_assignment_cost"))


@rule("C07", "R6", "RANGE", "each series is stacked exactly (no window mixes two series; no series loses or gains rows)")
def r6(ctx):
    from .c10 import stack_obligations
    stack_obligations(ctx)


@rule("C07", "R7", "FLOW", "joint and single-series front ends pad alike: each series gets pad_missing_labels(split[k], W)")
def r7(ctx):
    from . import c04
    ctx.sub(c04.r4)
    ctx.sub(c04.r1)
    ctx.sub(c04.r3)                          # the joint labels are cut at the series boundaries, one fresh list per call
    from . import c06
    ctx.sub(c06.r4, only=("copy:label_assignment_cost",))   # "the reported cost equals": the joint result carries the master run's cost
