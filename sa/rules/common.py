"""Helpers shared by the rule modules: data-dependence closure (FLOW), call-site queries
(CENSUS), argument binding, AST utilities."""
from __future__ import annotations

import ast
from dataclasses import dataclass, field
from typing import Callable, Dict, Iterable, List, Optional, Set, Tuple

from ..build import Analysis, TermBuilder, _root_name
from ..cfg import CFG, Node
from ..loader import AnalysisError, FuncInfo
from ..resolve import CallSite, Resolver

PKG = "fast_ticc."


def q(name: str) -> str:
    return name if name.startswith(PKG) else PKG + name


def short(qualname: str) -> str:
    return qualname[len(PKG):] if qualname.startswith(PKG) else qualname


def callee_fq(cs: CallSite) -> str:
    c = cs.callee
    if c.func is not None:
        return c.func.qualname
    if c.kind == "ctor" and c.cls is not None:
        return c.cls.qualname
    if c.kind == "method_unknown":
        return "." + str(c.target)
    return str(c.target)


def calls_to(ana: Analysis, fi: FuncInfo, pred) -> List[CallSite]:
    out = []
    for cs in ana.res.calls(fi):
        if not isinstance(cs.node, ast.Call) or cs.indirect:
            continue
        name = callee_fq(cs)
        if not callable(pred):
            # a reference helper that lives on under another name (Program.match_renamed) may be asked for by either name
            back = {v: k for k, v in getattr(ana.prog, "renamed", {}).items()}
            if name == pred or back.get(name, name) == pred:
                out.append(cs)
            continue
        if pred(name):
            out.append(cs)
    return out


def all_calls(ana: Analysis, pred, include_indirect=False) -> List[CallSite]:
    out = []
    for fi in ana.prog.functions.values():
        for cs in ana.res.calls(fi):
            if not isinstance(cs.node, ast.Call):
                continue
            if cs.indirect and not include_indirect:
                continue
            name = callee_fq(cs)
            if pred(name):
                out.append(cs)
    return out


def bind_args(f: FuncInfo, call: ast.Call, skip_self=False) -> Dict[str, ast.expr]:
    """Bind the argument expressions of a direct call to the callee's parameter names."""
    params = list(f.own_params)
    if skip_self and params and params[0] in ("self", "cls"):
        params = params[1:]
    out: Dict[str, ast.expr] = {}
    for p, a in zip(params, call.args):
        if isinstance(a, ast.Starred):
            raise AnalysisError(f"starred argument at line {call.lineno} cannot be bound statically")
        out[p] = a
    for k in call.keywords:
        if k.arg is None:
            raise AnalysisError(f"**kwargs at line {call.lineno} cannot be bound statically")
        out[k.arg] = k.value
    # a stand-in whose parameters were renamed answers to the reference names as well
    for ref_name, own in getattr(f, "param_alias", {}).items():
        if own in out and ref_name not in out:
            out[ref_name] = out[own]
    return out


def kwarg(call: ast.Call, name: str) -> Optional[ast.expr]:
    for k in call.keywords:
        if k.arg == name:
            return k.value
    return None


def attr_chain(e) -> Optional[List[str]]:
    parts = []
    while isinstance(e, ast.Attribute):
        parts.append(e.attr)
        e = e.value
    if isinstance(e, ast.Name):
        parts.append(e.id)
        return list(reversed(parts))
    return None


@dataclass
class Dep:
    params: Set[str] = field(default_factory=set)
    defs: Set[int] = field(default_factory=set)          # CFG node ids of definitions consulted
    calls: List[ast.Call] = field(default_factory=list)
    call_names: Set[str] = field(default_factory=set)
    attrs: Set[str] = field(default_factory=set)          # dotted attribute chains read (a.b.c)
    consts: List[object] = field(default_factory=list)
    names: Set[str] = field(default_factory=set)
    globals: Set[str] = field(default_factory=set)


class Flow:
    """Data-dependence closure over reaching definitions of one function."""

    def __init__(self, ana: Analysis, fi: FuncInfo):
        self.ana = ana
        self.fi = fi
        self.cfg = ana.cfg(fi)
        self.rd = ana.rd(fi)
        self._descend_call = None

    def at(self, e) -> Node:
        return self.cfg.node_of(e)

    def closure(self, e: ast.AST, at: Optional[Node] = None, through_calls=True, descend_call=None) -> Dep:
        """descend_call(call) -> bool: whether the arguments of a call contribute to the value
        (default: always).  Used for value-taint as opposed to object-reachability."""
        dep = Dep()
        seen: Set[Tuple[int, str]] = set()
        self._descend_call = descend_call
        self._walk(e, at or self.at(e), dep, seen, through_calls, bound=set())
        self._descend_call = None
        return dep

    def _walk(self, e, at: Node, dep: Dep, seen, through_calls, bound: Set[str]):
        if e is None:
            return
        for n in _walk_expr(e, getattr(self, '_descend_call', None)):
            if isinstance(n, (ast.ListComp, ast.SetComp, ast.GeneratorExp, ast.DictComp)):
                inner = set(bound)
                for g in n.generators:
                    for nm in _target_names(g.target):
                        inner.add(nm)
                # iterate children with extended scope
                for g in n.generators:
                    self._walk(g.iter, at, dep, seen, through_calls, bound)
                    for c in g.ifs:
                        self._walk(c, at, dep, seen, through_calls, inner)
                if isinstance(n, ast.DictComp):
                    self._walk(n.key, at, dep, seen, through_calls, inner)
                    self._walk(n.value, at, dep, seen, through_calls, inner)
                else:
                    self._walk(n.elt, at, dep, seen, through_calls, inner)
                continue
            if isinstance(n, ast.Name) and isinstance(n.ctx, ast.Load):
                if n.id in bound:
                    continue
                dep.names.add(n.id)
                self._name(n.id, at, dep, seen, through_calls)
            elif isinstance(n, ast.Attribute):
                ch = attr_chain(n)
                if ch:
                    dep.attrs.add(".".join(ch))
            elif isinstance(n, ast.Call):
                dep.calls.append(n)
                c = self.ana.res.callee(self.fi, n)
                nm = c.func.qualname if c.func is not None else (c.cls.qualname if c.cls is not None and c.kind == "ctor"
                                                                 else ("." + str(c.target) if c.kind == "method_unknown" else str(c.target)))
                dep.call_names.add(nm)
            elif isinstance(n, ast.Constant):
                dep.consts.append(n.value)

    def _name(self, name, at: Node, dep: Dep, seen, through_calls):
        defs = self.rd.reaching(at, name)
        if not defs:
            if name not in self.ana.res.local_names(self.fi):
                dep.globals.add(name)
            return
        for d in defs:
            key = (d.id, name)
            if key in seen:
                continue
            seen.add(key)
            dep.defs.add(d.id)
            if d.kind == "entry":
                dep.params.add(name)
                continue
            if d.kind == "for":
                self._walk(d.ast.iter, self.cfg.for_init[id(d.ast)], dep, seen, through_calls, set())
                continue
            st = d.ast
            if isinstance(st, ast.Assign):
                self._walk(st.value, d, dep, seen, through_calls, set())
            elif isinstance(st, ast.AugAssign):
                self._walk(st.value, d, dep, seen, through_calls, set())
                self._name(name, d, dep, seen, through_calls)
            elif isinstance(st, ast.AnnAssign) and st.value is not None:
                self._walk(st.value, d, dep, seen, through_calls, set())
        # in-place mutations of the object bound to the name also feed it
        for n in self.cfg.nodes:
            if n.kind != "stmt":
                continue
            st = n.ast
            if isinstance(st, (ast.Assign, ast.AugAssign)):
                tgts = st.targets if isinstance(st, ast.Assign) else [st.target]
                for t in tgts:
                    if isinstance(t, ast.Subscript) and isinstance(t.value, ast.Name) and t.value.id == name:
                        key = (n.id, name + "[]")
                        if key not in seen:
                            seen.add(key)
                            dep.defs.add(n.id)
                            self._walk(st.value, n, dep, seen, through_calls, set())
                            self._walk(t.slice, n, dep, seen, through_calls, set())
            elif isinstance(st, ast.Expr) and isinstance(st.value, ast.Call) and isinstance(st.value.func, ast.Attribute):
                f = st.value.func
                if isinstance(f.value, ast.Name) and f.value.id == name and f.attr in ("append", "extend", "insert", "add", "update"):
                    key = (n.id, name + ".mut")
                    if key not in seen:
                        seen.add(key)
                        dep.defs.add(n.id)
                        for a in st.value.args:
                            self._walk(a, n, dep, seen, through_calls, set())

    # convenience -----------------------------------------------------------
    def sole_def(self, name: str, at: Node) -> Optional[Node]:
        ds = self.rd.reaching(at, name)
        return ds[0] if len(ds) == 1 else None

    def resolves_to_param(self, e: ast.expr, at: Optional[Node] = None, depth=0) -> Optional[str]:
        """If the expression is (a chain of plain copies of) a parameter, its name."""
        if depth > 10:
            return None
        at = at or self.at(e)
        if isinstance(e, ast.Name):
            ds = self.rd.reaching(at, e.id)
            if len(ds) != 1:
                return None
            d = ds[0]
            if d.kind == "entry":
                return e.id
            if d.kind == "stmt" and def_value(d) is not None:
                return self.resolves_to_param(def_value(d), d, depth + 1)
        return None

    def resolve_copies(self, e: ast.expr, at: Optional[Node] = None, depth=0) -> ast.expr:
        """Follow plain copies `v = <expr>` from a name to the expression it was bound to (single definition)."""
        at = at or self.at(e)
        while isinstance(e, ast.Name) and depth < 10:
            ds = self.rd.reaching(at, e.id)
            if len(ds) != 1 or ds[0].kind != "stmt" or def_value(ds[0]) is None:
                break
            at = ds[0]
            e = def_value(ds[0])
            depth += 1
        return e


def _walk_expr(e, descend_call=None):
    """Pre-order walk that does not descend into comprehensions (handled by the caller)."""
    stack = [e]
    while stack:
        n = stack.pop()
        yield n
        if descend_call is not None and isinstance(n, ast.Call) and not descend_call(n):
            continue
        if isinstance(n, (ast.ListComp, ast.SetComp, ast.GeneratorExp, ast.DictComp)) and n is not e:
            continue
        if isinstance(n, (ast.ListComp, ast.SetComp, ast.GeneratorExp, ast.DictComp)):
            continue
        if isinstance(n, ast.Lambda):
            continue
        stack.extend(reversed(list(ast.iter_child_nodes(n))))


def _target_names(t) -> List[str]:
    if isinstance(t, ast.Name):
        return [t.id]
    if isinstance(t, (ast.Tuple, ast.List)):
        out = []
        for e in t.elts:
            out += _target_names(e)
        return out
    return []


def def_value(node) -> Optional[ast.expr]:
    """Value expression of a definition node that is a plain `name = value` / `name: T = value`."""
    st = getattr(node, "ast", node)
    if isinstance(st, ast.Assign) and len(st.targets) == 1 and isinstance(st.targets[0], ast.Name):
        return st.value
    if isinstance(st, ast.AnnAssign) and isinstance(st.target, ast.Name) and st.value is not None:
        return st.value
    return None


def def_target(node) -> Optional[str]:
    st = getattr(node, "ast", node)
    if isinstance(st, ast.Assign) and len(st.targets) == 1 and isinstance(st.targets[0], ast.Name):
        return st.targets[0].id
    if isinstance(st, ast.AnnAssign) and isinstance(st.target, ast.Name) and st.value is not None:
        return st.target.id
    return None


def stmts_in(fnode) -> Iterable[ast.stmt]:
    for n in Resolver.walk_own(fnode):
        if isinstance(n, ast.stmt):
            yield n


def find_loops_over(fi: FuncInfo, pred) -> List[ast.For]:
    return [n for n in Resolver.walk_own(fi.node) if isinstance(n, ast.For) and pred(n)]


def unparse(e, n=80) -> str:
    try:
        s = ast.unparse(e)
    except Exception:
        s = repr(e)
    s = " ".join(s.split())
    return s if len(s) <= n else s[: n - 3] + "..."


def njit_kernels(ana: Analysis) -> List[Tuple[FuncInfo, ast.expr]]:
    """Functions decorated with the guard's njit (call form or bare)."""
    out = []
    for fi in ana.prog.functions.values():
        for d in fi.decorators:
            target = d.func if isinstance(d, ast.Call) else d
            r = ana.res.fq_of_expr(fi.module, target)
            if r and (r[1].endswith("numba_guard.njit") or r[1] in ("numba.njit", "numba.jit")):
                out.append((fi, d))
    return out


def user_argument_reads(ana: Analysis) -> Dict[str, List[Tuple[FuncInfo, ast.Attribute]]]:
    """Every read of <expr of type UserArguments>.<field> in the package."""
    ua = ana.prog.cls("containers.arguments.UserArguments")
    out: Dict[str, List[Tuple[FuncInfo, ast.Attribute]]] = {f: [] for f in ua.fields}
    for fi in ana.prog.functions.values():
        for n in Resolver.walk_own(fi.node):
            if isinstance(n, ast.Attribute) and isinstance(n.ctx, ast.Load) and n.attr in out:
                ty = ana.res.type_of(fi, n.value)
                if ty == ("cls", ua.qualname):
                    out[n.attr].append((fi, n))
    return out


def alloc_dims(t):
    """Dimensions of numpy.zeros/ones/empty(...) as a list of terms (shape given positionally or by keyword, as a scalar,
    tuple or list), else None."""
    from ..terms import App, Lst, Tup
    if not (isinstance(t, App) and t.fn in ("numpy.zeros", "numpy.ones", "numpy.empty")):
        return None
    shp = t.args[0] if t.args else t.kwarg("shape")
    if shp is None:
        return None
    if isinstance(shp, (Tup, Lst)):
        return list(shp.elems)
    return [shp]


def skipping_guards(b, node, relative_to=None):
    """Branch conditions under which `node` is *skipped while execution continues* (relative to another node): the guards of
    `node` whose other arm does not end in a raise.  `assert c` and `if not c: raise ...` do not count: there the statement
    is never silently skipped."""
    cfg = b.cfg
    gs = cfg.guards(node)
    if relative_to is not None:
        base = {(id(o), p) for (_t, p, o) in cfg.guards(relative_to)}
        gs = [g for g in gs if (id(g[2]), g[1]) not in base]
    out = []
    for test, pol, owner in gs:
        if isinstance(owner, ast.Assert):
            continue
        if isinstance(owner, ast.If):
            other = owner.body if not pol else owner.orelse
            if other and isinstance(other[-1], ast.Raise):
                continue
        out.append((unparse(test, 60), pol, owner))
    return out


def message_text(ana: Analysis, fi: FuncInfo, expr) -> str:
    """All string literals that can end up in the message built by `expr`: the literals written in it, and those of the values of
    the names it mentions (a local assigned in the function, or a module-level constant of the function's module or an imported one)."""
    seen, out = set(), []

    def visit(e, depth=0):
        for c in ast.walk(e):
            if isinstance(c, ast.Constant) and isinstance(c.value, str):
                out.append(c.value)
            elif isinstance(c, ast.Attribute) and c.attr in ("__name__", "__qualname__") and isinstance(c.value, (ast.Name, ast.Attribute)):
                r_ = ana.res.fq_of_expr(fi, c.value)
                if r_ and r_[1].rsplit(".", 1)[-1] and r_[1] in ana.prog.functions:
                    out.append(r_[1].rsplit(".", 1)[-1])          # `{ticc_joint_labels.__name__}` spells the function's name
            elif isinstance(c, ast.Name) and isinstance(c.ctx, ast.Load) and c.id not in seen and depth < 3:
                seen.add(c.id)
                for st in ast.walk(fi.node):
                    if isinstance(st, (ast.Assign, ast.AnnAssign)) and st.value is not None:
                        tg = st.targets if isinstance(st, ast.Assign) else [st.target]
                        if any(isinstance(t, ast.Name) and t.id == c.id for t in tg):
                            visit(st.value, depth + 1)
                g = fi.module.globals.get(c.id)
                if isinstance(g, (ast.Assign, ast.AnnAssign)) and g.value is not None:
                    visit(g.value, depth + 1)
                fq = fi.module.imports.get(c.id)
                if fq and "." in fq:
                    mod, nm = fq.rsplit(".", 1)
                    m = ana.prog.modules.get(mod)
                    if m is not None and isinstance(m.globals.get(nm), (ast.Assign, ast.AnnAssign)) and m.globals[nm].value is not None:
                        visit(m.globals[nm].value, depth + 1)
    visit(expr)
    return " ".join(out)


def ctor_args(ana: Analysis, cs) -> Dict[str, ast.expr]:
    """field name -> argument expression of a constructor call, whether the argument was passed by keyword or by position
    (dataclass field order, or the parameters of an explicit __init__)."""
    call = cs.node if hasattr(cs, "node") else cs
    out = {k.arg: k.value for k in call.keywords if k.arg is not None}
    if not call.args:
        return out
    ci = getattr(getattr(cs, "callee", None), "cls", None)
    if ci is None:
        raise AnalysisError(f"positional constructor arguments at line {call.lineno} cannot be bound (class not resolved)")
    init = ci.methods.get("__init__")
    if init is not None:
        names = [p_ for p_ in init.own_params if p_ not in ("self", "cls")]
    else:
        names = list(ci.fields)
    for name, a in zip(names, call.args):
        if isinstance(a, ast.Starred):
            raise AnalysisError(f"starred constructor argument at line {call.lineno} cannot be bound statically")
        out.setdefault(name, a)
    return out


def call_arg(ana: Analysis, cs, name: str, pos: Optional[int] = None) -> Optional[ast.expr]:
    """The argument expression a call passes for parameter `name` of a package function (by keyword, or at the parameter's
    position); `pos` is used when the callee is not resolved."""
    call = cs.node
    f = getattr(getattr(cs, "callee", None), "func", None)
    if f is not None:
        try:
            ba = bind_args(f, call, skip_self=(f.kind in ("method", "classmethod") and isinstance(call.func, ast.Attribute)))
        except AnalysisError:
            ba = None
        if ba is not None:
            return ba.get(name)
    for k in call.keywords:
        if k.arg == name:
            return k.value
    if pos is not None and len(call.args) > pos and not any(isinstance(a, ast.Starred) for a in call.args[:pos + 1]):
        return call.args[pos]
    return None


def immutable_constant_expr(e) -> bool:
    """A literal whose value cannot change after the module is loaded: numbers, strings, None, -1, 2 * 3, tuples of such."""
    if isinstance(e, ast.Constant):
        return True
    if isinstance(e, ast.UnaryOp):
        return immutable_constant_expr(e.operand)
    if isinstance(e, ast.BinOp):
        return immutable_constant_expr(e.left) and immutable_constant_expr(e.right)
    if isinstance(e, ast.Tuple):
        return all(immutable_constant_expr(x) for x in e.elts)
    return False


def module_constant(mod, name: str) -> bool:
    """`name` is bound exactly once at module level, to an immutable literal."""
    st = mod.globals.get(name)
    if mod.global_assign_count.get(name, 0) != 1:
        return False
    if isinstance(st, ast.Assign):
        return immutable_constant_expr(st.value)
    if isinstance(st, ast.AnnAssign) and st.value is not None:
        return immutable_constant_expr(st.value)
    return False


def positional_order_kept(ctx, qualnames, role_prefix="signature"):
    """The public entry points are called positionally in the documented order (data, window_size, num_clusters, ...): the order
    of their parameters is part of the interface.  Compared with the order recorded on the reference tree (sa/known_signatures.json);
    appending new optional parameters at the end is fine."""
    ana = ctx.ana
    ref = ana.prog._reference_signatures()
    saved, ctx.evidence = ctx.evidence, True
    try:
        for q in qualnames:
            fi = ana.func(q)
            want = ref.get(fi.qualname)
            if not want:
                raise AnalysisError(f"no reference signature recorded for {fi.qualname}")
            own = list(fi.own_params)
            ok = own[:len(want)] == list(want)
            moved = [p for p in want if p in own and own.index(p) != list(want).index(p)]
            ctx.check(ok, fi, f"`{short(fi.qualname)}` takes its parameters in the documented positional order", role=f"{role_prefix}:{short(fi.qualname)}",
                      expected=", ".join(want[:6]) + (", ..." if len(want) > 6 else ""),
                      found=(", ".join(own[:6]) + (", ..." if len(own) > 6 else "")) + (f"  (moved: {', '.join(moved)})" if moved else ""))
    finally:
        ctx.evidence = saved


def param_length_at_callers(ana: Analysis, f: FuncInfo, pname: str):
    """len(<argument passed for parameter pname>) at every direct call site of f, as terms of the callers (None when some call
    site cannot be bound).  `len(tasks)` inside the gather is the length of the list the dispatch loop filled."""
    out = []
    for g in ana.prog.functions.values():
        for cs in ana.res.calls(g):
            if cs.callee.func is not f or cs.indirect or not isinstance(cs.node, ast.Call):
                continue
            try:
                ba = bind_args(f, cs.node, skip_self=(cs.callee.kind == "method_internal"))
            except AnalysisError:
                return None
            a = ba.get(pname)
            if a is None:
                return None
            b = ana.builder(g, no_inline=ana.known)
            call = ast.copy_location(ast.Call(func=ast.Name("len", ast.Load()), args=[a], keywords=[]), a)
            ast.fix_missing_locations(call)
            try:
                out.append(b.term(call, b.at(cs.node)))
            except Exception:
                return None
    return out or None
