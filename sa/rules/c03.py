"""C03 - every MRF is a finite, symmetric, positive-definite precision matrix; epsilon-floor contract."""
from __future__ import annotations

import ast

from ..resolve import Resolver

from .. import terms as tm
from ..loader import AnalysisError
from ..report import rule
from ..terms import And, App, Attr, Cmp, Grp, Idx, Poly, PW, Sym
from .common import Flow, bind_args, calls_to, short, unparse
from .numrules import logdet_form
from .plumb import plumb

SOLVER = "admm.solver."
GL = "graphical_lasso."


@rule("C03", "R1", "FLOW", "the solver returns the X iterate (eigenvalues e/(2 rho) > 0), not the sparse consensus variable", floor=3)
def r1(ctx):
    ana = ctx.ana
    # "whatever finite data a cluster holds": the covariance handed to the solver is finite for a one-point cluster when the biased
    # estimator is requested (an explicit ddof=1 overrides bias= and yields NaN)
    from . import c12
    ctx.sub(c12.r2, only=("bias:kw",))
    fi = ana.func(SOLVER + "run_admm_optimization")
    cfg, rd = ana.cfg(fi), ana.rd(fi)
    rets = [n for n in cfg.nodes if n.kind == "stmt" and isinstance(n.ast, ast.Return)]
    if len(rets) != 1 or not isinstance(rets[0].ast.value, ast.Name):
        raise AnalysisError("run_admm_optimization does not return a single local variable")
    name = rets[0].ast.value.id
    defs = rd.reaching(rets[0], name)
    xup = ana.func(SOLVER + "admm_update_x").qualname
    inloop = [d for d in defs if cfg.enclosing_loops(d)]
    ok = bool(inloop)
    for d in inloop:
        v = d.ast.value if isinstance(d.ast, ast.Assign) else None
        c = ana.res.callee(fi, v) if isinstance(v, ast.Call) else None
        ok = ok and c is not None and c.func is not None and c.func.qualname == xup
    ctx.check(ok, fi, f"the returned `{name}` is the result of the last X update", line=rets[0].lineno, role="returns-x",
              expected="x = admm_update_x(...); return x", found="; ".join(unparse(d.ast) for d in defs if d.ast is not None)[:200])
    # admm_update_x returns the proximal step's result
    ux = ana.func(SOLVER + "admm_update_x")
    b = ana.builder(ux, no_inline=ana.known)
    rt = b.return_term()
    ok = isinstance(rt, App) and rt.fn == ana.func(SOLVER + "x_update_prox").qualname
    ctx.check(ok, ux, "the X update returns x_update_prox(...)", role="x-is-prox", expected="x_update_prox(S, reinflate(z - u), rho)", found=str(rt)[:140])
    # public entry point returns the solver's result
    fe = ana.func("admm.front_end.admm_optimize_theta")
    bf = ana.builder(fe, no_inline=ana.known)
    rf = bf.return_term()
    ok = isinstance(rf, App) and rf.fn.endswith("results.ADMMResult") and rf.kwarg("theta") is not None \
        and isinstance(rf.kwarg("theta"), App) and rf.kwarg("theta").fn == fi.qualname
    ctx.check(ok, fe, "the optimiser entry point returns ADMMResult(theta = run_admm_optimization(...))", role="entry-returns-theta",
              expected="ADMMResult(theta=run_admm_optimization(args, S))", found=str(rf)[:140])


def eigen_map(ana):
    """Pieces (guard, value) of the eigenvalue vector fed to numpy.diag in x_update_prox, plus d, rho."""
    fi = ana.func(SOLVER + "x_update_prox")
    b = ana.builder(fi, no_inline=ana.known)
    rt = b.return_term()
    diags = [x for x in tm.subterms(rt) if isinstance(x, App) and x.fn == "numpy.diag"]
    if len(diags) != 1:
        raise AnalysisError(f"x_update_prox: expected one numpy.diag(eigenvalues), found {len(diags)}")
    e = diags[0].args[0]
    eigh = [x for x in tm.subterms(rt) if isinstance(x, App) and x.fn == "numpy.linalg.eigh"]
    if not eigh:
        raise AnalysisError("x_update_prox: no numpy.linalg.eigh call")
    d = Idx(eigh[0], (tm.ZERO,))
    q = Idx(eigh[0], (tm.ONE,))
    return fi, b, rt, e, d, q, eigh[0], diags[0]


@rule("C03", "R2", "NUM", "the eigenvalue map is evaluated without catastrophic cancellation on either sign of d", floor=1, evidence=True)
def r2(ctx):
    # the Z update: the soft threshold divides by rho * R only (positive by construction); a data-dependent divisor (|v| in the
    # "shrinkage" form v * max(1 - lambda/|v|, 0)) is 0/0 for an exactly decoupled sensor with an unpenalised entry
    st_ = ctx.ana.func("admm.solver.soft_threshold_prox")
    if len(st_.own_params) == 3:
        rr = st_.own_params[2]
        for n_ in Resolver.walk_own(st_.node):
            if isinstance(n_, ast.BinOp) and isinstance(n_.op, (ast.Div, ast.FloorDiv, ast.Mod)) and not (
                    (isinstance(n_.right, ast.Name) and n_.right.id == rr) or isinstance(n_.right, ast.Constant)):
                ctx.unrecognised(st_, f"the soft threshold divides by `{unparse(n_.right, 40)}`, which is not its rho*R argument: that the quotient is finite for "
                                 "every finite input is not derived here", line=n_.lineno, role="soft-threshold:divisor")
    fi, b, rt, e, d, q, eigh, diag = eigen_map(ctx.ana)
    pieces = tm.pieces_of(e)
    nonneg = {tm.compare(">=", d, 0).key}
    nonpos = {tm.compare("<", d, 0).key, tm.compare("<=", d, 0).key}
    for k, (g, v) in enumerate(pieces):
        # an eigenvalue of S - rho(Z - U) is exactly 0 for duplicated points or a constant sensor: nothing may divide by d itself
        gparts0 = g.parts if isinstance(g, And) else [g]
        excludes_zero = any(p.key in (tm.compare("!=", d, 0).key, tm.compare(">", d, 0).key, tm.compare("<", d, 0).key) for p in gparts0)
        divs = []
        for x in tm.subterms(v):
            if isinstance(x, Poly):
                for mono, _c in x.terms:
                    for a_, e_ in mono:
                        if e_ < 0 and (a_ == d or (isinstance(a_, App) and a_.fn == "abs" and a_.args == (d,))):
                            divs.append(str(x)[:80])
        if divs and not excludes_zero:
            ctx.fail(fi, "the eigenvalue map divides by an eigenvalue d: d is exactly 0 for a rank-deficient input (duplicated points, a constant sensor), "
                         "the quotient is inf/NaN and Theta is no longer finite", role=f"eigenvalue-map:divides-by-d@{k}",
                     expected="denominators bounded away from 0: sqrt(d^2 + 4 rho) - d", found=divs[0])
            continue
        roots = [x for x in tm.subterms(v) if isinstance(x, App) and x.fn == "sqrt" and tm.mentions(x, d)]
        if not roots:
            raise AnalysisError(f"eigenvalue piece without sqrt(d^2 + k): {str(v)[:100]}")
        r = roots[0]
        gparts = g.parts if isinstance(g, And) else [g]
        sum_form = isinstance(v, Poly) and any(len(m) == 1 and m[0][0] == d and c > 0 for m, c in v.terms) \
            and any(len(m) == 1 and m[0][0] == r and c > 0 for m, c in v.terms)
        diff_denoms = [x for x in tm.subterms(v) if isinstance(x, Grp) and tm.add(x.poly, tm.neg(tm.add(r, tm.neg(d)))) == tm.ZERO
                       or isinstance(x, Grp) and tm.add(x.poly, tm.neg(tm.add(d, tm.neg(r)))) == tm.ZERO]
        if sum_form:
            ok = any(p.key in nonneg for p in gparts)
            ctx.check(ok, fi, "`d + sqrt(d^2 + k)` is only evaluated where d >= 0 (for d << 0 the sum rounds to 0 and Theta becomes singular)",
                      role=f"eigenvalue-map:sum@{k}", expected="guard implying d >= 0", found=f"guard {g}")
        elif diff_denoms:
            ok = any(p.key in nonpos for p in gparts)
            ctx.check(ok, fi, "`k / (sqrt(d^2 + k) - d)` is only evaluated where d <= 0 (for d >> 0 the difference cancels)",
                      role=f"eigenvalue-map:rationalised@{k}", expected="guard implying d <= 0", found=f"guard {g}")
        else:
            raise AnalysisError(f"eigenvalue piece in an unrecognised form: {str(v)[:120]}")


def _table_fn(f):
    ref = getattr(f, "reference_qualname", None) or f.qualname       # a renamed stand-in answers to its reference name
    return ref.endswith(("_upper_triangle_indices", "_full_matrix_size")) or f.qualname.endswith(("_upper_triangle_indices", "_full_matrix_size")) \
        or "triu_indices" in f.name


def scatter_site(ana):
    """The function that scatters the compressed vector into a square zero matrix: the reference helper, or reinflate_matrix
    itself when the helper was folded into it."""
    if ana.prog.has_func("matrix_compression._uncompress_upper_triangle") or \
            "fast_ticc.matrix_compression._uncompress_upper_triangle" in getattr(ana.prog, "renamed", {}):
        return ana.func("matrix_compression._uncompress_upper_triangle")
    return ana.func("matrix_compression.reinflate_matrix")


def reinflate_symmetry(ctx):
    ana = ctx.ana
    re_ = ana.func("matrix_compression.reinflate_matrix")
    mirror_in_helper = ana.prog.has_func("matrix_compression._upper_to_full") or \
        "fast_ticc.matrix_compression._upper_to_full" in getattr(ana.prog, "renamed", {})
    fi = ana.func("matrix_compression._upper_to_full") if mirror_in_helper else re_
    b = ana.builder(fi, no_inline=(ana.known if mirror_in_helper else _table_fn))
    rt = tm.strip_copies(b.return_term())
    syms = sorted({x.name for x in tm.subterms(rt) if isinstance(x, Sym)})
    if len(syms) != 1:
        raise AnalysisError(f"mirror step is not a function of one matrix: {str(rt)[:100]}")
    U = Sym(syms[0])
    want = tm.add(tm.add(U, tm.transpose(U)), tm.neg(App("numpy.diag", (App("diagonal", (U,)),))))
    alt = tm.add(tm.add(U, tm.transpose(U)), tm.neg(App("numpy.diag", (App("numpy.diag", (U,)),))))
    ctx.check(rt in (want, alt), fi, "full = U + U^T - diag(diagonal(U))", role="mirror", expected=str(want), found=str(rt))
    ctx.check(tm.transpose(rt) == rt, fi, "the reinflated matrix is invariant under transposition (exactly symmetric)", role="mirror:symmetric",
              expected="T(full) == full", found=str(tm.transpose(rt)))
    if mirror_in_helper:
        ctx.check(U == Sym(fi.params[0]), fi, "the mirrored matrix is the helper's argument", role="mirror:operand", found=str(U))
        br = ana.builder(re_, no_inline=ana.known)
        r = br.return_term()
        sc = scatter_site(ana)
        ok = isinstance(r, App) and r.fn == fi.qualname and len(r.args) == 1 and (
            (isinstance(r.args[0], App) and r.args[0].fn == sc.qualname and r.args[0].args == (Sym(re_.params[0]),)) if sc is not re_
            else isinstance(r.args[0], Sym))
        ctx.check(ok, re_, "reinflate_matrix = mirror(scatter(vector))", role="mirror:compose", expected="_upper_to_full(_uncompress_upper_triangle(v))", found=str(r)[:120])
    else:
        # folded form: the mirrored matrix must be the scatter target of the same function (or the scatter helper's result)
        sc = scatter_site(ana)
        if sc is re_:
            tgt = [s_.base_name for s_ in b.stores() if s_.idx is not None]
            ctx.check(tgt == [U.name], re_, "reinflate_matrix mirrors the matrix it scattered the vector into", role="mirror:compose",
                      expected=f"{U.name} is the scatter target", found=", ".join(map(str, tgt)))
        else:
            b2 = ana.builder(re_, no_inline=lambda f: _table_fn(f) or f is sc)
            r2 = b2.return_term()
            Ux = App(sc.qualname, (Sym(re_.params[0]),))
            want2 = tm.add(tm.add(Ux, tm.transpose(Ux)), tm.neg(App("numpy.diag", (App("diagonal", (Ux,)),))))
            ctx.check(r2 == want2, re_, "reinflate_matrix = mirror(scatter(vector))", role="mirror:compose", expected=str(want2)[:120], found=str(r2)[:120])


@rule("C03", "R3", "TERM", "reinflation of the compressed upper triangle is exactly symmetric", floor=3)
def r3(ctx):
    reinflate_symmetry(ctx)


def mrf_update_site(ana):
    """(function that stores train_inverse after a solve, its model symbol, its optimiser-result symbol or None).
    The update helper on the reference tree; the gather phase itself when the helper was folded into it."""
    try:
        upd = ana.func(GL + "_update_cluster_covariances")
        return upd, Sym(upd.params[0]), Sym(upd.params[2])
    except AnalysisError:
        cons = ana.func(GL + "_retrieve_optimization_results")
        return cons, Sym(cons.params[0]), None


@rule("C03", "R4", "CMP", "the small-entry filter zeroes exactly |x| < eps on the matrix that becomes the MRF, with the user's eps", floor=6)
def r4(ctx):
    ana = ctx.ana
    fi = ana.func(GL + "_zero_small_elements")
    b = ana.builder(fi, no_inline=ana.known)
    arr, eps = Sym(fi.params[0]), Sym(fi.params[1])
    rt = b.return_term()
    rets = [n for n in Resolver.walk_own(fi.node) if isinstance(n, ast.Return)]
    same = {v.key for _g, v in tm.pieces_of(rt)}
    if isinstance(rt, Sym):
        name = rt.name
    elif len(same) == 1 and all(isinstance(v, Sym) for _g, v in tm.pieces_of(rt)):
        name = tm.pieces_of(rt)[0][1].name      # several returns of the same local (an early exit): the store's guard decides
    elif len(rets) == 1 and isinstance(rets[0].value, ast.Name):
        name = rets[0].value.id        # the returned local, whatever expression first bound it
    else:
        raise AnalysisError(f"filter returns {str(rt)[:80]}: only the copy-or-alias + masked overwrite idiom is modelled")
    stores = [s for s in b.stores() if s.base_name == name]
    others = [m for m in b.mutated.get(name, []) if not isinstance(m, ast.Assign)]
    if not ctx.check(len(stores) == 1 and not others and not stores[0].loops, fi, "the filter performs exactly one overwrite",
                     role="filter:single-store", found=f"{len(stores)} store(s), {len(others)} other mutation(s)"):
        return
    s = stores[0]
    x = Sym(name)
    mask = s.idx[0] if len(s.idx) == 1 else None
    strict_abs = tm.compare("<", App("abs", (x,)), eps)
    two_sided = And([tm.compare("<", x, eps), tm.compare(">", x, tm.neg(eps))])
    ctx.check(mask is not None and mask.key in (strict_abs.key, two_sided.key), fi,
              "the mask is exactly |x| < eps (strict: entries of magnitude eps are kept; eps = 0 zeroes nothing)", line=s.stmt.lineno,
              role="filter:mask", expected=str(strict_abs), found=str(mask))
    ctx.check(s.value == tm.ZERO and s.aug is None and s.guards == tm.TRUE, fi, "masked entries are set to 0 and nothing else is written",
              line=s.stmt.lineno, role="filter:value", expected="x[mask] = 0", found=f"{s.aug or ''}= {s.value} if {s.guards}")
    # the filtered object: copy when copy=True, the input itself otherwise
    cfg = ana.cfg(fi)
    defs = [n for n in cfg.nodes if name in n.defs and n.kind == "stmt"]
    vals = {v_.key for d in defs if isinstance(d.ast, (ast.Assign, ast.AnnAssign)) and d.ast.value is not None
            for _g, v_ in tm.pieces_of(b.term(d.ast.value, d))}
    want = {App("numpy.copy", (arr,)).key, arr.key}
    ctx.check(vals == want, fi, "the filter works on numpy.copy(array) or, in in-place mode, on the array itself", role="filter:operand",
              expected="np.copy(array) | array", found=", ".join(sorted(vals)))
    # call chain: train_inverse := filter(reinflate(result), arguments.min_meaningful_covariance, copy=False)
    upd, m, res = mrf_update_site(ana)
    try:
        inline_only = {ana.func(GL + "_reconstruct_optimized_matrix").qualname}
    except AnalysisError:
        inline_only = set()       # already folded into its caller
    bu = ana.builder(upd, no_inline=lambda f: f.qualname not in inline_only)
    st = [s2 for s2 in bu.stores() if s2.attr == "train_inverse"]
    if len(st) != 1:
        raise AnalysisError(f"{short(upd.qualname)} does not assign train_inverse exactly once")
    v = st[0].value
    if "@mutated" in str(v):
        # the matrix that becomes the MRF is completed by an in-place library call (fill_diagonal, putmask, copyto ...) around the
        # filter: kept entries are then no longer "exactly what the optimiser produced" / small ones no longer all zero
        saved_ev, ctx.evidence = ctx.evidence, True
        try:
            ctx.fail(upd, "the matrix stored as train_inverse is edited in place around the small-entry filter", line=st[0].stmt.lineno,
                     role="filter:in-place-edit", expected="train_inverse = filter(reinflate(result), eps) and nothing else", found=str(v)[:120])
        finally:
            ctx.evidence = saved_ev
        return
    ok = isinstance(v, App) and v.fn == fi.qualname and len(v.args) >= 2
    if ok:
        ra = v.args[0].args if isinstance(v.args[0], App) and v.args[0].fn.endswith("matrix_compression.reinflate_matrix") else ()
        # the optimiser result: the update helper's parameter, or (helper folded into the gather) <task>.get().theta
        is_result = len(ra) == 1 and (ra[0] == res if res is not None else
                                      (isinstance(ra[0], Attr) and ra[0].name == "theta" and isinstance(ra[0].base, App) and ra[0].base.fn in (".get", ".result")))
        ok_arr = is_result
        ok_eps = v.args[1] == Attr(Attr(m, "arguments"), "min_meaningful_covariance")
        ctx.check(ok_arr, upd, "the filter is applied to the freshly reinflated optimiser result (so in-place mode touches no caller data)",
                  role="filter:applied-to", expected=f"reinflate_matrix({res})", found=str(v.args[0])[:100])
        ctx.check(ok_eps, upd, "eps is arguments.min_meaningful_covariance", role="filter:eps", expected="model.arguments.min_meaningful_covariance",
                  found=str(v.args[1]))
    else:
        ctx.fail(upd, "train_inverse is not the filtered reinflation of the optimiser result", role="filter:applied-to",
                 expected="_zero_small_elements(reinflate_matrix(result), eps, copy=False)", found=str(v)[:140])
    # computed covariance and log-determinant are derived from that same matrix
    cc = [s2 for s2 in bu.stores() if s2.attr == "computed_covariance"]
    okc = len(cc) == 1 and cc[0].value == App("numpy.linalg.inv", (v,))
    ctx.check(okc, upd, "computed_covariance is the inverse of the matrix stored as train_inverse", role="filter:inverse",
              expected="numpy.linalg.inv(train_inverse)", found=str(cc[0].value)[:120] if cc else "no store")
    plumb(ctx, ["min_meaningful_covariance"])


@rule("C03", "R5", "NUM", "every log-determinant consumer obtains it without forming the determinant", floor=3, evidence=True)
def r5(ctx):
    ana = ctx.ana
    # site 1: MRF update
    upd, _m, _res = mrf_update_site(ana)
    bu = ana.builder(upd, no_inline=ana.known)
    ti = [s for s in bu.stores() if s.attr == "train_inverse"]
    ld = [s for s in bu.stores() if s.attr == "log_determinant"]
    if len(ti) != 1 or len(ld) != 1:
        raise AnalysisError("_update_cluster_covariances: train_inverse / log_determinant stores not found")
    form, how = logdet_form(ld[0].value, ti[0].value)
    if form == "unknown":
        raise AnalysisError(f"log-determinant of the MRF update in an unrecognised form: {how}")
    ctx.check(form == "ok", upd, "log_determinant of the updated cluster is logdet(train_inverse) via slogdet", line=ld[0].stmt.lineno,
              role="logdet:mrf-update", expected="numpy.linalg.slogdet(train_inverse)[1]", found=how)
    # site 2: scoring refresh
    ll = ana.func("likelihood.all_points_all_clusters_log_likelihood")
    bl = ana.builder(ll, no_inline=ana.known)
    ld2 = [s for s in bl.stores() if s.attr == "log_determinant"]   # includes stores of helpers extracted from the wrapper
    if len(ld2) != 1:
        raise AnalysisError("likelihood refresh: log_determinant store not found exactly once")
    s = ld2[0]
    M = Attr(s.base, "train_inverse")
    form, how = logdet_form(s.value, M)
    if form == "unknown":
        raise AnalysisError(f"log-determinant of the scoring refresh in an unrecognised form: {how}")
    ctx.check(form == "ok", ll, "the scoring refresh sets log_determinant = logdet(train_inverse) of the same cluster via slogdet",
              line=s.stmt.lineno, role="logdet:refresh", expected=f"numpy.linalg.slogdet({M})[1]", found=how)
    # site 3: BIC
    from . import c16
    ctx.sub(c16.r4)


@rule("C03", "R6", "CMP", "clusters with fewer than 2 points are repopulated before they are fitted (the covariance of a single point is NaN)")
def r6(ctx):
    from . import c08, c09
    # (who else is refilled, and when repopulation must *not* run, is C08's / C09's business)
    ctx.sub(c08.r2, only=("recipient:covers", "recipient:ids", "recipient:loop"))
    c09.lifecycle(ctx, {"refill-before-fit"})     # along every cyclic path, not just inside one round
    # a donor measured on stale sizes can be drained below 2 points itself
    ctx.sub(c08.r6, only=("commit:search-on-copy", "commit:in-loop"))


@rule("C03", "R7", "FLOW", "aggregates over an empty cluster are guarded (no NaN mean / median in the result)")
def r7(ctx):
    from . import c06
    ctx.sub(c06.r2, only=("empty-guard:",))   # which list is averaged is C06's business
    # the information criterion is built from the stored (finite) covariance and MRF of each cluster - not from a covariance
    # re-estimated at scoring time, which is NaN for a one-member cluster
    from . import c16
    ctx.sub(c16.r1, only=("likelihood:trace",))
