"""C05 - reported log-likelihoods are exact Gaussian log-densities."""
from __future__ import annotations

import ast

from .. import terms as tm
from ..loader import AnalysisError
from ..report import rule
from ..resolve import Resolver
from ..terms import App, Attr, Comp, Idx, Range, Slc, Sym
from .common import bind_args, calls_to, unparse

LK = "likelihood."


@rule("C05", "R1", "TERM", "the scalar kernel returns 1/2 (logdet - (x-mu)^T Theta (x-mu) - NW log 2pi)", floor=1)
def r1(ctx):
    ana = ctx.ana
    fi = ana.func(LK + "point_log_likelihood_fast")
    b = ana.builder(fi)
    rt = b.return_term()
    x, mu, th, ld, W, N = (Sym(p) for p in fi.params)
    xm = tm.add(x, tm.neg(mu))
    quads = [App("matmul", (App("matmul", (tm.transpose(xm), th)), xm)), App("matmul", (App("matmul", (xm, th)), xm)),
             App("matmul", (tm.transpose(xm), App("matmul", (th, xm)))), App("matmul", (xm, App("matmul", (th, xm))))]
    nw_log = tm.mul(tm.mul(W, N), App("log", (tm.mul(2, Sym("pi")),)))
    wants = [tm.mul(tm.const(tm.Fraction(1, 2)) if hasattr(tm, "Fraction") else 0, 0)]
    from fractions import Fraction
    half = tm.const(Fraction(1, 2))
    wants = [tm.mul(half, tm.add(tm.add(ld, tm.neg(q)), tm.neg(nw_log))) for q in quads]
    ctx.check(any(rt == w for w in wants), fi, "density formula, with the centred quadratic form (x - mu) formed before multiplying",
              role="density", expected=str(wants[0]), found=str(rt)[:300])


@rule("C05", "R2", "AGREE", "table cell (p, k) is the scalar kernel on row p and on mu[k], Theta[k], logdet[k] with one k", floor=5)
def r2(ctx):
    ana = ctx.ana
    from . import c01
    ctx.sub(c01.r9, only=("handover:cost",))      # "the table that drives label assignment" is minus this table as it stands (not clamped, capped or rescaled)
    fi = ana.func(LK + "all_points_all_clusters_log_likelihood_fast")
    scalar = ana.func(LK + "point_log_likelihood_fast")
    b = ana.builder(fi, no_inline=ana.known)
    if len(fi.params) != 6:
        raise AnalysisError(f"table kernel takes {len(fi.params)} parameters ({', '.join(fi.params)}): the rule is written for (W, K, means, precisions, log-determinants, data)")
    W, K, mus, thetas, lds, data = (Sym(p) for p in fi.params)
    stores = [s for s in b.stores() if s.idx is not None and len(s.idx) == 2]
    if len(stores) != 1:
        raise AnalysisError(f"table kernel: expected one 2-D store, found {len(stores)}")
    s = stores[0]
    p_, k_ = s.idx
    rngs = [b.loop_range(l) for l in s.loops]
    rows = (Range(0, tm.length(data)), Range(0, Idx(Attr(data, "shape"), (tm.ZERO,))))      # len(x) is x.shape[0] for the 2-D data array
    ok = len(s.loops) == 2 and rngs[0] in rows and rngs[1] == Range(0, K) \
        and p_ == Sym(s.loops[0].target.id) and k_ == Sym(s.loops[1].target.id)
    ctx.check(ok, fi, "the table is filled for every point p in range(len(data)) and every cluster k in range(K)", line=s.stmt.lineno,
              role="table:ranges", expected="result[p, k] for p < len(data), k < K", found=f"[{p_}, {k_}] with ranges {rngs}")
    Nt = [tm.to_int(tm.div(Idx(Attr(data, "shape"), (tm.ONE,)), W)), tm.floordiv(Idx(Attr(data, "shape"), (tm.ONE,)), W)]
    v = s.value
    ok = isinstance(v, App) and v.fn == scalar.qualname and len(v.args) == 6
    if ok:
        a = v.args
        ctx.check(a[0] in (Idx(data, (p_, Slc())), Idx(data, (p_,))), fi, "the point is row p of the data", role="table:row", expected=f"{data}[{p_}, :]", found=str(a[0]))
        ctx.check(a[1] == Idx(mus, (k_,)) and a[2] == Idx(thetas, (k_,)) and a[3] == Idx(lds, (k_,)), fi,
                  "mean, precision matrix and log-determinant are all taken at the same cluster index k", role="table:same-k",
                  expected=f"{mus}[{k_}], {thetas}[{k_}], {lds}[{k_}]", found=f"{a[1]}, {a[2]}, {a[3]}")
        ctx.check(a[4] == W and a[5] in Nt, fi, "window size and sensor count (columns / W) are passed on", role="table:sizes",
                  expected=f"{W}, {Nt[0]}", found=f"{a[4]}, {a[5]}")
    else:
        ctx.fail(fi, "table cells are not computed by the scalar kernel", line=s.stmt.lineno, role="table:callee", expected=scalar.qualname, found=str(v)[:120])
    # result allocation and return
    rt = b.return_term()
    ctx.check(isinstance(rt, Sym) and rt.name == s.base_name, fi, "the filled table is returned", role="table:return", found=str(rt))
    # wrapper: arrays built from the same cluster sequence, fields by name, argument order
    wr = ana.func(LK + "all_points_all_clusters_log_likelihood")
    bw = ana.builder(wr, no_inline=ana.known)
    m, d = Sym(wr.params[0]), Sym(wr.params[1])
    r = bw.return_term()
    ok = isinstance(r, App) and r.fn == fi.qualname
    if not ctx.check(ok, wr, "the wrapper returns the table kernel's result", role="wrapper:return", found=str(r)[:100]):
        return
    ba = dict(zip(fi.params if sorted(fi.params) == sorted(fi.own_params) else fi.own_params, r.args))
    ba.update(dict(r.kw))
    fields = {"mus": "stacked_data_mean", "thetas": "inverse_covariance", "log_det_thetas": "log_determinant"}
    for pname, field in fields.items():
        t = ba.get(pname)
        plain = isinstance(t, App) and t.fn in ("numpy.asarray", "numpy.array") and len(t.args) == 1 and not t.kw
        inner = t.args[0] if plain else t
        ok = (plain or isinstance(t, Comp)) and isinstance(inner, Comp) and not inner.conds and inner.elt == Attr(Idx(Attr(m, "clusters"), (inner.var,)), field) \
            and inner.iter == Range(0, tm.length(Attr(m, "clusters")))
        ctx.check(ok, wr, f"`{pname}`[k] is cluster k's {field}", role=f"wrapper:{pname}",
                  expected=f"asarray([c.{field} for c in model.clusters])", found=str(t)[:140])
    ctx.check(ba.get("stacked_training_data") == d and ba.get("window_size") == Attr(Attr(m, "arguments"), "window_size")
              and ba.get("num_clusters") == Attr(Attr(m, "arguments"), "num_clusters"), wr,
              "data, window size and cluster count are the phase's data and the model's arguments", role="wrapper:scalars",
              expected="arguments.window_size, arguments.num_clusters, data", found=f"{ba.get('window_size')}, {ba.get('num_clusters')}, {ba.get('stacked_training_data')}")


@rule("C05", "R3", "ORDER", "scoring fields are refreshed from train_inverse for every cluster before the table is built", floor=4)
def r3(ctx):
    ana = ctx.ana
    wr = ana.func(LK + "all_points_all_clusters_log_likelihood")
    bw = ana.builder(wr, no_inline=ana.known)
    cfg = ana.cfg(wr)
    m = Sym(wr.params[0])
    # stores performed by the wrapper itself or by helpers extracted from it
    st = {}
    for s in bw.stores():
        if s.attr in ("inverse_covariance", "log_determinant"):
            st.setdefault(s.attr, []).append(s)
    done_nodes = []
    for attr in ("inverse_covariance", "log_determinant"):
        if len(st.get(attr, [])) != 1:
            ctx.fail(wr, f"`{attr}` is not refreshed exactly once before scoring", role=f"refresh:{attr}", found=f"{len(st.get(attr, []))} store(s)")
            continue
        s = st[attr][0]
        base_ok = isinstance(s.base, Idx) and s.base.base == Attr(m, "clusters") and len(s.base.idx) == 1
        k = s.base.idx[0] if base_ok else None
        rng = None
        if base_ok:
            for lv, lr in zip(s.loop_vars, s.loop_ranges):
                if lv == k:
                    rng = lr
            if rng is None and s.loops:
                # iteration over the cluster list itself
                bnd = [(lv, lp) for lv, lp in zip(s.loop_vars, s.loops) if lv == k]
                if bnd:
                    rng = Range(0, tm.length(Attr(m, "clusters")))
        # (a guard that only says the range is not empty - `if K > 0:` around the loop - skips nothing)
        nonempty = {tm.compare(">", Attr(Attr(m, "arguments"), "num_clusters"), 0).key, tm.compare(">", tm.length(Attr(m, "clusters")), 0).key}
        gparts = s.guards.parts if isinstance(s.guards, tm.And) else ([] if s.guards == tm.TRUE else [s.guards])
        ok = base_ok and rng in (Range(0, Attr(Attr(m, "arguments"), "num_clusters")), Range(0, tm.length(Attr(m, "clusters")))) \
            and all(g_.key in nonempty for g_ in gparts)
        ctx.check(ok, wr, f"`{attr}` is refreshed unconditionally for every cluster k in range(K)", line=s.stmt.lineno, role=f"refresh:{attr}:range",
                  expected="for k in range(K): clusters[k]." + attr + " = ...", found=f"{s.base}.{attr} under {s.guards}, range {rng}")
        if attr == "inverse_covariance" and base_ok:
            ctx.check(s.value == Attr(s.base, "train_inverse"), wr, "inverse_covariance := train_inverse of the same cluster", line=s.stmt.lineno,
                      role="refresh:source", expected=str(Attr(s.base, "train_inverse")), found=str(s.value))
        # the point after which the refresh is complete, in the wrapper's own CFG
        outer = cfg.enclosing_loops(s.node)
        if outer:
            ex = [n for n in cfg.nodes if n.kind == "for_exit" and n.ast is outer[0]]
            done = ex[0] if ex else None
        else:
            done = s.node
        done_nodes.append((attr, done, s))
    for attr, done, s in done_nodes:
        # every read of the field in the wrapper (other than inside the refresh itself) happens after the refresh
        reads = []
        for n in Resolver.walk_own(wr.node):
            if isinstance(n, ast.Attribute) and n.attr == attr and isinstance(n.ctx, ast.Load):
                at = cfg.expr_node.get(id(n))
                if at is not None and at.id != s.node.id:
                    reads.append(at)
        ok = done is not None and bool(reads) and all(cfg.dominates(done, r) and r.id != done.id or (cfg.dominates(done, r) and done.kind != "stmt") for r in reads)
        ok = done is not None and bool(reads) and all(cfg.dominates(done, r) for r in reads)
        ctx.check(ok, wr, f"the refresh of `{attr}` completes before the field is gathered for the kernel", role=f"refresh:{attr}:order",
                  expected="refresh dominates every read of the field", found=f"{len(reads)} read site(s)")
    # the relabel phase copies clusters after scoring, so the returned state carries the refreshed fields
    pr = ana.func("cluster_label_assignment.predict_cluster_labels")
    cfgp = ana.cfg(pr)
    calls = calls_to(ana, pr, wr.qualname)
    copies = [cfgp.node_of(n) for n in Resolver.walk_own(pr.node) if isinstance(n, ast.Call) and isinstance(n.func, ast.Attribute) and n.func.attr == "deep_copy"]
    ok = len(calls) == 1 and bool(copies) and all(cfgp.dominates(cfgp.node_of(calls[0].node), c) for c in copies)
    ctx.check(ok, pr, "clusters are copied into the returned state after the scoring call refreshed them", role="refresh:then-copy",
              expected="likelihood(...) dominates the deep copies", found=f"{len(calls)} scoring call(s), {len(copies)} copy site(s)")
    if calls:
        ba = bind_args(wr, calls[0].node)
        ctx.check(isinstance(ba.get(wr.params[0]), ast.Name) and ba[wr.params[0]].id == pr.params[0], pr,
                  "the scored model is the phase's input model", role="refresh:model", found=unparse(ba.get(wr.params[0])))


@rule("C05", "R4", "AGREE", "result-time per-point values use the same kernel, the point's own row and its own label's cluster", floor=2)
def r4(ctx):
    ana = ctx.ana
    pl = ana.func(LK + "point_log_likelihood")
    fast = ana.func(LK + "point_log_likelihood_fast")
    b = ana.builder(pl, no_inline=ana.known)
    rt = b.return_term()
    pt, cl, W, N = (Sym(p) for p in pl.params)
    want = App(fast.qualname, (pt, Attr(cl, "stacked_data_mean"), Attr(cl, "inverse_covariance"), Attr(cl, "log_determinant"), W, N))
    ctx.check(rt == want, pl, "the wrapper feeds the cluster's mean, inverse_covariance and log_determinant to the scalar kernel in order",
              role="wrapper", expected=str(want), found=str(rt)[:200])
    from .c06 import per_cluster_helper
    fi = per_cluster_helper(ana)
    bb = ana.builder(fi, no_inline=ana.known)
    data, m = Sym(fi.params[0]), Sym(fi.params[1])
    appends = [n for n in Resolver.walk_own(fi.node) if isinstance(n, ast.Call) and isinstance(n.func, ast.Attribute) and n.func.attr == "append"]
    done = False
    for c in appends:
        t = bb.term(c.args[0]) if c.args else None
        if isinstance(t, App) and t.fn == pl.qualname:
            done = True
            labels = Attr(m, "point_labels")
            pv = [x for x in tm.subterms(t) if isinstance(x, Idx) and x.base == labels]
            p = pv[0].idx[0] if pv else None
            Wt = Attr(Attr(m, "arguments"), "window_size")
            Nts = [tm.div(Idx(Attr(data, "shape"), (tm.ONE,)), Wt), tm.to_int(tm.div(Idx(Attr(data, "shape"), (tm.ONE,)), Wt)),
                   tm.floordiv(Idx(Attr(data, "shape"), (tm.ONE,)), Wt)]
            ok = p is not None and len(t.args) == 4 and t.args[0] in (Idx(data, (p,)), Idx(data, (p, Slc()))) \
                and t.args[1] == Idx(Attr(m, "clusters"), (Idx(labels, (p,)),)) and t.args[2] == Wt and t.args[3] in Nts
            ctx.check(ok, fi, "value for point p = loglik(data[p], clusters[label[p]], W, columns / W)", line=c.lineno, role="per-point",
                      expected="point_log_likelihood(data[p], model.clusters[labels[p]], W, N)", found=str(t)[:220])
    if not done:
        ctx.unrecognised(fi, "per-point values are not computed by a point_log_likelihood call the rule recognises", role="per-point", found=f"{len(appends)} append(s)")


@rule("C05", "R5", "NUM", "log-determinants used for scoring stay finite (no determinant is formed)", floor=3, evidence=True)
def r5(ctx):
    from . import c03
    ctx.sub(c03.r5)


@rule("C05", "R6", "FLOW", "sums, means and medians in the result aggregate exactly the per-point log-densities")
def r6(ctx):
    from . import c06
    ctx.sub(c06.r1)
    ctx.sub(c06.r2)


@rule("C05", "R7", "AGREE", "the reported MRF of cluster k is the very matrix points are scored against (train_inverse, unmodified)")
def r7(ctx):
    from . import c04, c03
    ctx.sub(c04.r5, only=("mrfs",))     # markov_random_fields[k] = state.clusters[k].train_inverse
    ctx.sub(r3, only=("refresh:source",))  # ... and the kernel's precision matrix is that same train_inverse
    # ... and nothing refits the clusters between the last scoring pass and the result (the cached precision would be another fit's)
    from . import c09
    c09.lifecycle(ctx, {"nothing-after-relabel"})
