"""C02 - the cluster MRF is the block-Toeplitz graphical-lasso optimum: the solver *is* the scaled-form ADMM iteration."""
from __future__ import annotations

import ast

from .. import terms as tm
from ..loader import AnalysisError
from ..report import rule
from ..resolve import Resolver
from ..terms import And, App, Attr, Cmp, Grp, Idx, Poly, PW, Range, Sym, Tup
from .common import Flow, bind_args, calls_to, unparse

S_ = "admm.solver."


def _z(ana):
    fi = ana.func(S_ + "admm_update_z")
    keep = {ana.func(S_ + "soft_threshold_prox").qualname}
    b = ana.builder(fi, no_inline=lambda f: f.qualname not in keep)
    if len(fi.params) < 3:
        raise AnalysisError("admm_update_z no longer takes (args, u, x)")
    args, u, x = (Sym(p) for p in fi.params[:3])
    W, N, rho = Attr(args, "window_size"), Attr(args, "num_data_series"), Attr(args, "rho")
    stores = [s for s in b.stores() if s.idx is not None and len(s.loops) == 3]
    if len(stores) != 1:
        raise AnalysisError(f"admm_update_z: expected one store in a triple loop, found {len(stores)}")
    return fi, b, args, u, x, W, N, rho, stores[0]


@rule("C02", "R1", "RANGE", "the Z update visits every Toeplitz class (b, r, c) exactly once", floor=3)
def r1(ctx):
    fi, b, args, u, x, W, N, rho, s = _z(ctx.ana)
    lb, lr, lc = s.loops
    bv, rv, cv = (Sym(l.target.id) for l in s.loops)
    ctx.check(b.loop_range(lb) == Range(0, W), fi, "block id b runs over range(W)", line=lb.lineno, role="classes:b", expected=str(Range(0, W)), found=str(b.loop_range(lb)))
    ctx.check(b.loop_range(lr) == Range(0, N), fi, "row r runs over range(N)", line=lr.lineno, role="classes:r", expected=str(Range(0, N)), found=str(b.loop_range(lr)))
    rc = b.loop_range(lc)
    want_lo = PW([(tm.compare("==", bv, 0), rv), (tm.compare("!=", bv, 0), tm.ZERO)])
    ok = rc is not None and rc.hi == N and rc.step == tm.ONE and tm.pw_equiv(rc.lo, want_lo, bv, lo=0)
    ctx.check(ok, fi, "column c runs over [r, N) in the symmetric diagonal block b = 0 and over [0, N) otherwise (upper triangle, L-TOEP)",
              line=lc.lineno, role="classes:c", expected=f"range({want_lo}, {N})", found=str(rc))
    bad = [n for n in ast.walk(lb) if isinstance(n, (ast.Break, ast.Continue, ast.Return))]
    ctx.check(not bad and s.guards == tm.TRUE, fi, "no class is skipped (no break/continue/guard in the nest)", role="classes:no-skip",
              found=f"{len(bad)} early exit(s); guard {s.guards}")


@rule("C02", "R2", "AGREE", "lambda-sum, position list, point sum and store use one (b, r, c, N, W) tuple and one position list", floor=4)
def r2(ctx):
    ana = ctx.ana
    fi, b, args, u, x, W, N, rho, s = _z(ana)
    bv, rv, cv = (Sym(l.target.id) for l in s.loops)
    tup = (bv, rv, cv, N, W)
    loc = App(ana.func("admm.unique_values.locations_compressed").qualname, tup)
    ctx.check(s.idx == (loc,), fi, "the store writes Z at locations_compressed(b, r, c, N, W)", line=s.stmt.lineno, role="tuple:store",
              expected=str(loc), found=str(s.idx[0]) if s.idx else "")
    lams = [t for t in tm.subterms(s.value) if isinstance(t, App) and t.fn == ana.func(S_ + "compute_lambda_sum").qualname]
    ok = bool(lams) and all(t.args == (Attr(args, "sparsity_weight"),) + tup for t in lams)
    ctx.check(ok, fi, "the lambda sum is taken for the same class (b, r, c, N, W) with the solver's sparsity weight", role="tuple:lambda",
              expected=f"compute_lambda_sum(args.sparsity_weight, {', '.join(map(str, tup))})", found=str(lams[0]) if lams else "none")
    sums = [t for t in tm.subterms(s.value) if isinstance(t, App) and t.fn in ("numpy.sum", "builtins.sum")]
    S = tm.add(x, u)
    ok = bool(sums) and all(t.args == (Idx(S, (loc,)),) or t.args == (tm.add(Idx(x, (loc,)), Idx(u, (loc,))),) for t in sums)
    ctx.check(ok, fi, "the point sum reads S = X + U at the same position list that is written", role="tuple:read",
              expected=f"numpy.sum(({S})[{loc}])", found=str(sums[0])[:200] if sums else "none")
    # target allocated with zeros of the compressed size, returned
    cfg = ana.cfg(fi)
    d = [n for n in cfg.nodes if n.kind == "stmt" and isinstance(n.ast, ast.Assign) and s.base_name in n.defs]
    al = b.term(d[0].ast.value, d[0]) if len(d) == 1 else None
    from .common import alloc_dims
    dims = alloc_dims(al) if al is not None else None
    ok = isinstance(al, App) and al.fn == "numpy.zeros" and dims is not None and len(dims) == 1 and dims[0] in (Attr(x, "size"), Attr(x, "shape"), tm.length(x),
                                                                                                             tm.Idx(Attr(x, "shape"), (tm.ZERO,)))
    ctx.check(ok and b.return_term() == Sym(s.base_name), fi, "Z is a fresh zero vector of X's size, fully determined by the class stores, and returned",
              role="tuple:alloc", expected=f"numpy.zeros({x}.size)", found=f"{al}; returns {b.return_term()}")


@rule("C02", "R3", "AGREE", "three independent occurrence counts all equal W - b", floor=3)
def r3(ctx):
    ana = ctx.ana
    fi, b, args, u, x, W, N, rho, s = _z(ana)
    bv = Sym(s.loops[0].target.id)
    # (1) the divisor of the soft threshold: rho * R
    denoms = []
    for g, v in tm.pieces_of(s.value):
        for t in tm.subterms(v):
            if isinstance(t, Poly):
                for mono, c in t.terms:
                    for a, e in mono:
                        if e < 0:
                            denoms.append(a)
    R = None
    found = ""
    gr = [d for d in denoms if isinstance(d, Grp)]
    if gr:
        # (rho*W - rho*b) normalised: divide by rho
        R = tm.div(gr[0].poly, rho)
        found = str(R)
    ctx.check(R is not None and R == tm.add(W, tm.neg(bv)), fi, "Z update divides by rho * (W - b)", role="count:z-update", expected=f"{W} - {bv}", found=found or str(denoms)[:100])
    from . import c18, c11
    ctx.sub(c18.r2)
    ctx.sub(c11.r4, drop=("corner-guards",))   # rejecting invalid block ids is C11's business, not the optimum's


@rule("C02", "R4", "TERM", "per class, Z = soft-threshold((rho*sum S -/+ Q) / (rho R)) with the three-way split at +-Q", floor=3)
def r4(ctx):
    ana = ctx.ana
    fi, b, args, u, x, W, N, rho, s = _z(ana)
    bv, rv, cv = (Sym(l.target.id) for l in s.loops)
    tup = (bv, rv, cv, N, W)
    loc = App(ana.func("admm.unique_values.locations_compressed").qualname, tup)
    Q = App(ana.func(S_ + "compute_lambda_sum").qualname, (Attr(args, "sparsity_weight"),) + tup)
    sm = tm.mul(rho, App("numpy.sum", (Idx(tm.add(x, u), (loc,)),)))
    rR = tm.mul(rho, tm.add(W, tm.neg(bv)))
    up = tm.div(tm.add(sm, tm.neg(Q)), rR)
    dn = tm.div(tm.add(sm, Q), rR)
    g_up = tm.compare(">", sm, Q)
    g_dn = tm.compare("<", sm, tm.neg(Q))
    pieces = tm.pieces_of(s.value)
    got = {}
    for g, v in pieces:
        got[g.key] = v
    want_guards = {g_up.key: "up", tm.conj([tm.negate(g_up), g_dn]).key: "down", tm.conj([tm.negate(g_up), tm.negate(g_dn)]).key: "zero"}
    ok_g = set(got) == set(want_guards)
    ctx.check(ok_g, fi, "the three cases are rho*sumS > Q, rho*sumS < -Q, and otherwise", role="soft-threshold:guards",
              expected="; ".join(want_guards), found="; ".join(got)[:300])
    if ok_g:
        for gk, kind in want_guards.items():
            v = got[gk]
            if kind == "up":
                ok = v in (up, App("max", tuple(sorted((up, tm.ZERO), key=lambda t: t.key))))
                ctx.check(ok, fi, "above the threshold Z = (rho*sumS - Q) / (rho*R)  (the max(.,0) clamp is the identity there)",
                          role="soft-threshold:up", expected=str(up), found=str(v)[:200])
            elif kind == "down":
                ok = v in (dn, App("min", tuple(sorted((dn, tm.ZERO), key=lambda t: t.key))))
                ctx.check(ok, fi, "below minus the threshold Z = (rho*sumS + Q) / (rho*R)", role="soft-threshold:down", expected=str(dn), found=str(v)[:200])
            else:
                ctx.check(v == tm.ZERO, fi, "inside the band Z = 0 (sparsity)", role="soft-threshold:zero", expected="0", found=str(v))


@rule("C02", "R5", "TERM", "lambda-sum: scalar branch lambda*(W-b); matrix branch sums lambda over the class's own positions")
def r5(ctx):
    from . import c18, c11
    ctx.sub(c18.r2)
    ctx.sub(c11.r5, drop=("memo",))            # memoisation is a C14 matter


@rule("C02", "R6", "TERM", "X update: Theta = (1/(2 rho)) Q diag(d + sqrt(d^2 + 4 rho)) Q^T with (d, Q) = eigh(rho (Z - U) - S)", floor=4)
def r6(ctx):
    ana = ctx.ana
    from .c03 import eigen_map
    fi, b, rt, e, d, q, eigh, diag = eigen_map(ana)
    S, A, rho = (Sym(p) for p in fi.params)
    want_arg = tm.add(tm.mul(rho, A), tm.neg(S))
    ctx.check(eigh.args == (want_arg,) and not eigh.kw, fi, "eigen-decomposition of rho*(Z - U) - S", role="x:eigh-arg", expected=str(want_arg), found=str(eigh.args[0]) if eigh.args else "")
    r = tm.sqrt(tm.add(tm.mul(d, d), tm.mul(4, rho)))
    for k, (g, v) in enumerate(tm.pieces_of(e)):
        okA = v == tm.add(d, r)
        okB = v == tm.div(tm.mul(4, rho), tm.add(r, tm.neg(d)))
        ctx.check(okA or okB, fi, "eigenvalue map is d + sqrt(d^2 + 4 rho), literally or in the rationalised form 4 rho / (sqrt(d^2 + 4 rho) - d)",
                  role=f"x:eigenvalues@{k}", expected=f"{tm.add(d, r)}  |  {tm.div(tm.mul(4, rho), tm.add(r, tm.neg(d)))}", found=str(v)[:200])
    theta = tm.mul(tm.div(1, tm.mul(2, rho)), App("matmul", (App("matmul", (q, diag)), tm.transpose(q))))
    comp = App(ana.func("matrix_compression.compress_matrix").qualname, (theta,))
    ctx.check(rt == comp, fi, "Theta = 1/(2 rho) * Q diag(e) Q^T, returned in compressed form", role="x:assembly", expected="compress((1/(2*rho)) * Q @ diag(e) @ Q.T)",
              found=str(rt)[:120].replace(str(e), "e"))
    ux = ana.func(S_ + "admm_update_x")
    bx = ana.builder(ux, no_inline=ana.known)
    r_ = bx.return_term()
    args, u, z, Sx = (Sym(p) for p in ux.params)
    want = App(fi.qualname, (Sx, App(ana.func("matrix_compression.reinflate_matrix").qualname, (tm.add(z, tm.neg(u)),)), Attr(args, "rho")))
    ctx.check(r_ == want, ux, "the proximal step receives S, reinflate(Z - U) and the current rho", role="x:arguments", expected=str(want), found=str(r_)[:160])


@rule("C02", "R7", "TERM", "U update: U + X - Z on the iteration's new X and Z", floor=2)
def r7(ctx):
    ana = ctx.ana
    fi = ana.func(S_ + "admm_update_u")
    b = ana.builder(fi)
    u, x, z = (Sym(p) for p in fi.params)
    ctx.check(b.return_term() == tm.add(tm.add(u, x), tm.neg(z)), fi, "scaled dual update U + X - Z", role="u:formula", expected=f"{u} + {x} - {z}", found=str(b.return_term()))
    sv = ana.func(S_ + "run_admm_optimization")
    cfg, rd = ana.cfg(sv), ana.rd(sv)
    calls = {n: calls_to(ana, sv, ana.func(S_ + n).qualname) for n in ("admm_update_x", "admm_update_z", "admm_update_u")}
    for n, cs in calls.items():
        if len(cs) != 1:
            raise AnalysisError(f"run_admm_optimization calls {n} {len(cs)} times")
    nx, nz, nu = (cfg.node_of(calls[n][0].node) for n in ("admm_update_x", "admm_update_z", "admm_update_u"))
    ctx.check(cfg.dominates(nx, nz) and cfg.dominates(nz, nu) and cfg.enclosing_loops(nx) == cfg.enclosing_loops(nu) != [], sv,
              "each iteration runs X, then Z, then U", role="u:order", expected="x -> z -> u", found="different order")
    ba = bind_args(fi, calls["admm_update_u"][0].node)
    ok = True
    for p, producer in ((fi.params[1], nx), (fi.params[2], nz)):
        a = ba.get(p)
        ok = ok and isinstance(a, ast.Name) and [d.id for d in rd.reaching(nu, a.id)] == [producer.id]
    ctx.check(ok, sv, "the U update receives this iteration's X and Z", role="u:arguments", expected="admm_update_u(u, x_new, z_new)", found=unparse(calls["admm_update_u"][0].node))
    # X update receives current u, z; Z update receives the new x
    bz = bind_args(ana.func(S_ + "admm_update_z"), calls["admm_update_z"][0].node)
    a = bz.get("x")
    ctx.check(isinstance(a, ast.Name) and [d.id for d in rd.reaching(nz, a.id)] == [nx.id], sv, "the Z update receives this iteration's X",
              role="z:arguments", expected="admm_update_z(args, u, x_new)", found=unparse(calls["admm_update_z"][0].node))


@rule("C02", "R8", "ORDER", "adaptive rho: U is rescaled by rho_old / rho_new, computed before rho is overwritten", floor=3)
def r8(ctx):
    ana = ctx.ana
    sv = ana.func(S_ + "run_admm_optimization")
    b = ana.builder(sv, no_inline=ana.known)
    cfg, rd = ana.cfg(sv), ana.rd(sv)
    args = Sym(sv.params[0])
    # the store to <ADMMArguments>.rho may sit in the solver or in a helper extracted from it (effects are inlined)
    rho_store = [s for s in b.stores() if s.attr == "rho" and s.base == args]
    if len(rho_store) != 1:
        raise AnalysisError(f"expected one store to args.rho, found {len(rho_store)}")
    st = rho_store[0]
    new_rho = st.value
    cb = isinstance(new_rho, App) and new_rho.fn == ".rho_update"
    ctx.check(cb, sv, "the new rho is what the callback returns", line=st.stmt.lineno, role="rho:callback", expected="args.rho_update(...)", found=str(new_rho)[:100])
    if cb:
        cc = [c for c in calls_to(ana, sv, ana.func(S_ + "check_convergence").qualname)]
        res = b.term(cc[0].node) if cc else None
        want = (args, Attr(args, "rho")) + tuple(Idx(res, (tm.const(k),)) for k in (1, 2, 3, 4)) if res is not None else None
        ctx.check(want is not None and new_rho.args == want, sv, "the callback receives (rho, r_primal, eps_primal, r_dual, eps_dual) in that order",
                  role="rho:callback-args", expected="(args.rho, residual_primal, tolerance_primal, residual_dual, tolerance_dual)",
                  found=", ".join(str(a)[:40] for a in new_rho.args[1:]))
    # u is rescaled in the same branch
    nu = cfg.node_of(calls_to(ana, sv, ana.func(S_ + "admm_update_u").qualname)[0].node)
    uname = nu.ast.targets[0].id if isinstance(nu.ast, ast.Assign) and isinstance(nu.ast.targets[0], ast.Name) else None
    scaled = None
    for n in cfg.nodes:
        if n.kind == "stmt" and isinstance(n.ast, ast.Assign) and n is not nu and uname in n.defs and cfg.enclosing_loops(n):
            scaled = (n, b.term(n.ast.value, n))
        elif n.kind == "stmt" and isinstance(n.ast, ast.AugAssign) and isinstance(n.ast.target, ast.Name) and n.ast.target.id == uname \
                and isinstance(n.ast.op, ast.Mult) and cfg.enclosing_loops(n):
            scaled = (n, tm.mul(b.name_term(uname, n), b.term(n.ast.value, n)))      # u *= scale
    if scaled is None:
        ctx.fail(sv, "U is not rescaled after a rho update (the scaled dual variable must follow rho)", role="rho:rescale",
                 expected="u = (rho_old / rho_new) * u")
        return
    n, t = scaled
    uold = b.name_term(uname, n)
    factor = tm.div(t, uold)
    ctx.check(factor == tm.div(Attr(args, "rho"), new_rho), sv, "the rescale factor is rho_old / rho_new", line=n.lineno, role="rho:factor",
              expected=f"args.rho / {str(new_rho)[:30]}...", found=str(factor)[:120])
    ctx.check(cfg.dominates(st.node, n) or cfg.dominates(n, st.node) or st.node.id == n.id, sv, "the rescale happens in the same branch as the rho update",
              role="rho:same-branch")
    # ORDER, decided in the function that actually contains the store: rho_old is read before the store
    F = ana.prog.functions.get(st.via) if st.via else sv
    if F is None:
        raise AnalysisError(f"function {st.via} holding the rho store not found")
    cF = ana.cfg(F)
    bF = ana.builder(F, no_inline=ana.known)
    stores_F = [x for x in bF.stores(inline_effects=False) if x.attr == "rho"]
    if len(stores_F) != 1:
        raise AnalysisError(f"{F.qualname}: expected one direct store to .rho, found {len(stores_F)}")
    sF = stores_F[0]
    newF = sF.value
    rhoF = Attr(sF.base, "rho")
    factor_nodes = []
    for x in cF.nodes:
        if x.kind == "stmt" and isinstance(x.ast, (ast.Assign, ast.Return, ast.AnnAssign)) and x.id != sF.node.id:
            v_ = x.ast.value
            if v_ is None or not any(isinstance(a, ast.Attribute) and a.attr == "rho" and isinstance(a.ctx, ast.Load) for a in ast.walk(v_)):
                continue
            tt = bF.term(v_, x)
            if isinstance(tt, Poly) and tm.mentions(tt, rhoF) and any(mono and any(a == newF and e < 0 for a, e in mono) for mono, _c in tt.terms):
                factor_nodes.append(x)
    ok = bool(factor_nodes) and all(cF.dominates(x, sF.node) for x in factor_nodes)
    ctx.check(ok, F, "rho_old is read before args.rho is overwritten", line=sF.stmt.lineno, role="rho:order",
              expected="scale = args.rho / new_rho; args.rho = new_rho",
              found=f"{len(factor_nodes)} statement(s) form rho/new_rho; " + ("one of them runs after the store" if factor_nodes else "none found before the store"))


@rule("C02", "R9", "TERM", "stopping rule: r_p <= eps_p and r_d <= eps_d with the standard residuals; Z_old captured before the Z update", floor=6)
def r9(ctx):
    ana = ctx.ana
    fi = ana.func(S_ + "check_convergence")
    b = ana.builder(fi, no_inline=ana.known)
    rt = b.return_term()
    args, u, x, z, zo = (Sym(p) for p in fi.params)
    rho = Attr(args, "rho")
    norm = lambda t: App("numpy.linalg.norm", (t,))
    from fractions import Fraction
    c = tm.add(tm.mul(tm.sqrt(Attr(x, "size")), Attr(args, "absolute_tolerance")), tm.const(Fraction("0.0001")))
    ep = tm.add(c, tm.mul(Attr(args, "relative_tolerance"), tm.make_app("builtins.max", [norm(x), norm(z)])))
    ed = tm.add(c, tm.mul(Attr(args, "relative_tolerance"), norm(tm.mul(rho, u))))
    rp = norm(tm.add(x, tm.neg(z)))
    rdual = norm(tm.mul(rho, tm.add(z, tm.neg(zo))))
    stop = And([tm.compare("<=", rp, ep), tm.compare("<=", rdual, ed)])
    if not (isinstance(rt, Tup) and len(rt.elems) == 5):
        raise AnalysisError("check_convergence does not return a 5-tuple")
    names = ["stop flag", "primal residual", "primal tolerance", "dual residual", "dual tolerance"]
    wants = [stop, rp, ep, rdual, ed]
    for k, (nm, w) in enumerate(zip(names, wants)):
        ctx.check(rt.elems[k] == w, fi, f"element {k} ({nm}) matches the scaled-form ADMM definition", role=f"stop:{k}", expected=str(w)[:200], found=str(rt.elems[k])[:200])
    # solver loop
    sv = ana.func(S_ + "run_admm_optimization")
    cfg, rd = ana.cfg(sv), ana.rd(sv)
    bs = ana.builder(sv, no_inline=ana.known)
    cz = calls_to(ana, sv, ana.func(S_ + "admm_update_z").qualname)[0]
    nz = cfg.node_of(cz.node)
    loop = cfg.enclosing_loops(nz)[0]
    rng = bs.loop_range(loop)
    ctx.check(rng == Range(0, Attr(Sym(sv.params[0]), "max_iterations")), sv, "the iteration budget is range(args.max_iterations)", line=loop.lineno,
              role="loop:budget", expected="range(args.max_iterations)", found=str(rng))
    cc = calls_to(ana, sv, fi.qualname)
    if len(cc) != 1:
        raise AnalysisError("check_convergence is not called exactly once")
    nc = cfg.node_of(cc[0].node)
    ba = bind_args(fi, cc[0].node)
    nx = cfg.node_of(calls_to(ana, sv, ana.func(S_ + "admm_update_x").qualname)[0].node)
    nu = cfg.node_of(calls_to(ana, sv, ana.func(S_ + "admm_update_u").qualname)[0].node)
    ok = True
    for p, prod in (("u", nu), ("x", nx), ("z", nz)):
        a = ba.get(p)
        ok = ok and isinstance(a, ast.Name) and [d.id for d in rd.reaching(nc, a.id)] == [prod.id]
    ctx.check(ok, sv, "the stopping rule sees this iteration's U, X and Z", role="loop:check-args", expected="check_convergence(args, u_new, x_new, z_new, z_old)",
              found=unparse(cc[0].node))
    a = ba.get("z_old")
    ok = False
    found = unparse(a) if a is not None else "missing"
    if isinstance(a, ast.Name):
        ds = rd.reaching(nc, a.id)
        if len(ds) == 1 and isinstance(ds[0].ast, ast.Assign) and isinstance(ds[0].ast.value, ast.Name):
            src = ds[0].ast.value.id
            zname = nz.ast.targets[0].id if isinstance(nz.ast, ast.Assign) and isinstance(nz.ast.targets[0], ast.Name) else None
            ok = src == zname and cfg.dominates(ds[0], nz) and loop in cfg.enclosing_loops(ds[0]) and \
                nz.id not in {d.id for d in rd.reaching(ds[0], src)} - {nz.id} or False
            # the captured value is the previous iteration's Z (or the initial zeros)
            ok = src == zname and cfg.dominates(ds[0], nz) and loop in cfg.enclosing_loops(ds[0])
            found = f"{a.id} = {src} at line {ds[0].lineno}"
    ctx.check(ok, sv, "Z_old is captured in the same iteration, before Z is updated", role="loop:z-old", expected="z_old = z; ...; z = admm_update_z(...)", found=found)
    # the only break is guarded by the stop flag
    breaks = [n for n in cfg.nodes if n.kind == "stmt" and isinstance(n.ast, ast.Break) and cfg.enclosing_loops(n) and cfg.enclosing_loops(n)[-1] is loop]
    ok = len(breaks) == 1
    if ok:
        g = bs.guard_term(breaks[0])
        parts = g.parts if isinstance(g, And) else [g]
        res = bs.term(cc[0].node)
        ok = any(p == Idx(res, (tm.ZERO,)) for p in parts)
        found = str(g)[:160]
    else:
        found = f"{len(breaks)} break(s)"
    ctx.check(ok, sv, "the loop stops early only when the stop flag is set", role="loop:break", expected="if converged: break", found=found)
    rets = [n for n in cfg.nodes if n.kind == "stmt" and isinstance(n.ast, ast.Return) and cfg.enclosing_loops(n)]
    ctx.check(not rets, sv, "no return inside the iteration loop", role="loop:no-return", found=f"{len(rets)} return(s)")


@rule("C02", "R10", "OWN", "the X, Z and U updates return fresh arrays and never write the iterates they are given (Z_old stays the old Z)", floor=3, evidence=True)
def r10(ctx):
    from .own import describe, ext_writes, ownership
    ana = ctx.ana
    for name in ("admm_update_x", "admm_update_z", "admm_update_u", "check_convergence"):
        q = S_ + name
        fi = ana.func(q)
        oa = ownership(ana, q)
        bad = [(m, o) for m, o in ext_writes(oa) if not (m.kind.startswith("attribute:"))]
        for m, objs in bad:
            ctx.fail(fi, f"{name} may write one of its array arguments in place at {describe(m)}: the previous iterate (Z_old) would change with it",
                     role=f"inplace:{name}:{m.kind}", expected="updates allocate their result", found=", ".join(map(str, objs))[:120])
        if not bad:
            ctx.ok(fi, f"{name}: none of {len(oa.mutations)} mutation sites writes an argument array", role=f"inplace:{name}")
        if name != "check_convergence":
            # the result must not alias an argument either
            aliased = [o for o in oa.returns if o.is_ext or o.kind == "memo"]
            # ... nor a memoised (process-wide) object: the Theta handed back by one solve would be overwritten by the next
            memo_objs = {o for o in oa.stats["objects"] if o.kind == "memo"}
            reach = oa.reachable(memo_objs)
            shared = [(m, [o for o in m.targets if o in reach]) for m in oa.mutations
                      if not any("functools.cache" in unparse(d) or "lru_cache" in unparse(d) for d in m.func.decorators)]
            for m, objs in shared:
                if objs:
                    ctx.fail(fi, f"{name} writes a memoised, process-wide object at {describe(m)}: a result held by the caller changes when the next solve runs",
                             role=f"shared-result:{name}:{m.kind}", expected="per-call storage", found=", ".join(map(str, objs))[:120])
            ctx.check(not aliased, fi, f"{name} returns a freshly allocated array (not one of its arguments)", role=f"fresh-result:{name}",
                      expected="fresh result", found=", ".join(map(str, aliased)))


@rule("C02", "R11", "FLOW", "the optimiser entry point returns the ADMM solver's result for the caller's S, lambda, W, N and step parameters on every path", floor=3)
def r11(ctx):
    """No shortcut may bypass the block-Toeplitz ADMM iteration (inv(S) is the *unconstrained* optimum), and every parameter of the
    entry point reaches the solver under its own name."""
    ana = ctx.ana
    fi = ana.func("admm.front_end.admm_optimize_theta")
    b = ana.builder(fi, no_inline=ana.known)
    rt = b.return_term()
    solver = ana.func(S_ + "run_admm_optimization").qualname
    pieces = tm.pieces_of(rt)
    for g, v in pieces:
        theta = v.kwarg("theta") if isinstance(v, App) and v.fn.endswith("results.ADMMResult") else None
        if theta is None and isinstance(v, App) and v.fn.endswith("results.ADMMResult") and v.args:
            theta = v.args[0]
        ok = isinstance(theta, App) and theta.fn == solver and len(theta.args) == 2
        ctx.check(ok, fi, "the result is ADMMResult(theta = run_admm_optimization(arguments, S))" + ("" if g == tm.TRUE else f" also when {g}"),
                  role="entry:solver" + ("" if g == tm.TRUE else f":{str(g)[:40]}"), expected=f"ADMMResult(theta={solver.split('.')[-1]}(ADMMArguments(...), S))",
                  found=str(v)[:160])
        if not ok:
            continue
        a, S = theta.args
        ctx.check(S == Sym(fi.params[0]), fi, "the solver receives the caller's covariance unchanged", role="entry:covariance", expected=fi.params[0], found=str(S)[:80])
        if isinstance(a, App) and a.fn in ana.prog.functions and not a.args:
            # a pure forwarder `def pack(**settings): return ADMMArguments(**settings)` builds the bundle from the same keywords
            g_ = ana.prog.functions[a.fn]
            body_ = [st for st in g_.node.body if not (isinstance(st, ast.Expr) and isinstance(st.value, ast.Constant))]
            ga = g_.node.args
            if len(body_) == 1 and isinstance(body_[0], ast.Return) and isinstance(body_[0].value, ast.Call) and ga.kwarg is not None \
                    and not (ga.args or ga.posonlyargs or ga.kwonlyargs or ga.vararg):
                c_ = body_[0].value
                r_ = ana.res.callee(g_, c_)
                if getattr(r_, "cls", None) is not None and r_.cls.qualname.endswith("arguments.ADMMArguments") and not c_.args \
                        and len(c_.keywords) == 1 and c_.keywords[0].arg is None and isinstance(c_.keywords[0].value, ast.Name) \
                        and c_.keywords[0].value.id == ga.kwarg.arg:
                    a = App(r_.cls.qualname, (), dict(a.kw))
        okc = isinstance(a, App) and a.fn.endswith("arguments.ADMMArguments")
        if not ctx.check(okc, fi, "the solver's argument bundle is an ADMMArguments built here", role="entry:bundle", found=str(a)[:100]):
            continue
        cls = ana.prog.cls("containers.arguments.ADMMArguments")
        names = [n for n in cls.fields if n in fi.params]
        got = dict(a.kw)
        init = cls.methods.get("__init__")
        if a.args and init is not None:
            for p_, x in zip(init.own_params[1:], a.args):
                got.setdefault(p_, x)
        elif a.args:
            for p_, x in zip(list(cls.fields), a.args):      # a dataclass: positional arguments bind the fields in declaration order
                got.setdefault(p_, x)
        wrong = [n for n in names if got.get(n) != Sym(n)]
        ctx.check(not wrong and len(names) >= 8, fi, f"every solver setting is the entry point's parameter of the same name ({len(names)} fields)",
                  role="entry:plumbing", expected=", ".join(f"{n}={n}" for n in names), found=", ".join(f"{n}={got.get(n)}" for n in wrong)[:160])
        # ... and the bundle keeps what it is given: no method of the container (a __post_init__, a setter) re-assigns a field
        edits = [(m_, n) for m_ in cls.methods.values() if m_.name != "__init__" for n in Resolver.walk_own(m_.node)
                 if (isinstance(n, ast.Attribute) and isinstance(n.ctx, ast.Store) and isinstance(n.value, ast.Name) and n.value.id == "self" and n.attr in cls.fields)
                 or (isinstance(n, ast.Call) and isinstance(n.func, ast.Name) and n.func.id == "setattr" and n.args and isinstance(n.args[0], ast.Name) and n.args[0].id == "self")]
        saved_, ctx.evidence = ctx.evidence, True
        try:
            for m_, n in edits:
                ctx.fail(m_, f"ADMMArguments.{m_.name} re-assigns a field (`{unparse(n, 50)}`): the solver no longer works with the value the entry point was given",
                         line=n.lineno, role=f"entry:plumbing:container:{m_.name}", expected="fields keep the constructor's values", found=unparse(n, 60))
        finally:
            ctx.evidence = saved_
