"""Shared rule PLUMB: a front-end keyword reaches the UserArguments field of the same name
unchanged, nobody overwrites a field afterwards, and copies preserve it.  The field -> sink
part of the plumbing is checked by the property that owns the sink."""
from __future__ import annotations

import ast
from typing import Iterable

from ..loader import AnalysisError
from ..resolve import Resolver
from .common import Flow, bind_args, calls_to, def_value, short, unparse

UA = "fast_ticc.containers.arguments.UserArguments"
FRONT_ENDS = ("front_end.ticc_labels", "front_end.ticc_joint_labels")


def bundle_ctor_calls(ana, fi):
    return calls_to(ana, fi, UA)


def plumb(ctx, fields: Iterable[str], skip=()):
    """Emit obligations for the given UserArguments fields.
    skip: set of (front-end short name, field) pairs decided by another rule."""
    ana = ctx.ana
    ua = ana.prog.cls(UA)
    for f in fields:
        if f not in ua.fields:
            raise AnalysisError(f"UserArguments has no field `{f}`")
    for fe in FRONT_ENDS:
        fi = ana.func(fe)
        ctors = bundle_ctor_calls(ana, fi)
        main = calls_to(ana, fi, "fast_ticc.main_loop.fit_stacked_data")
        if not ctors or not main:
            raise AnalysisError(f"{fe}: UserArguments(...) or fit_stacked_data(...) call not found")
        fl = Flow(ana, fi)
        # which ctor feeds the main loop?
        ba = bind_args(main[0].callee.func, main[0].node)
        arg = ba.get("user_args")
        feeding = None
        if isinstance(arg, ast.Name):
            v = fl.resolve_copies(arg)
            for c in ctors:
                if v is c.node:
                    feeding = c
        elif isinstance(arg, ast.Call):
            for c in ctors:
                if c.node is arg:
                    feeding = c
        if feeding is None:
            ctx.fail(fi, "the argument bundle handed to the main loop is not a single UserArguments(...) construction",
                     line=main[0].node.lineno, role="plumb:bundle", expected="args = UserArguments(...); fit_stacked_data(args, ...)",
                     found=unparse(arg) if arg is not None else "missing")
            continue
        kws = {k.arg: k.value for k in feeding.node.keywords}
        pos = list(feeding.node.args)
        if pos:
            # dataclass positional order
            for name, v in zip(list(ua.fields), pos):
                kws.setdefault(name, v)
        for f in fields:
            if (fe.split(".")[-1], f) in skip:
                continue
            v = kws.get(f)
            if v is None:
                ctx.fail(fi, f"UserArguments(...) is built without `{f}`", line=feeding.node.lineno, role=f"plumb:{f}")
                continue
            p = fl.resolves_to_param(v)
            ctx.check(p == f, fi, f"keyword `{f}` reaches UserArguments.{f} unchanged", line=v.lineno, role=f"plumb:{f}",
                      expected=f"{f}=<parameter {f}>", found=unparse(v))
    # one front end that delegates to the other (a short cut for a one-series list, say) forwards every hyper-parameter under its name:
    # what is left out silently takes the callee's default
    fes = [ana.func(fe) for fe in FRONT_ENDS]
    saved_ev, ctx.evidence = ctx.evidence, True
    try:
        for fi in fes:
            for other in fes:
                for cs in calls_to(ana, fi, other.qualname):
                    try:
                        ba = bind_args(other, cs.node)
                    except AnalysisError:
                        ctx.fail(fi, f"`{fi.name}` delegates to `{other.name}` with arguments that cannot be bound statically", line=cs.node.lineno,
                                 role=f"plumb-delegate:{fi.name}")
                        continue
                    fl_d = Flow(ana, fi)
                    for f in fields:
                        if f not in other.own_params:
                            continue
                        v = ba.get(f)
                        ok = v is not None and fl_d.resolves_to_param(v) == f
                        ctx.check(ok, fi, f"`{fi.name}` hands `{f}` on to `{other.name}` unchanged", line=cs.node.lineno, role=f"plumb-delegate:{fi.name}:{f}",
                                  expected=f"{f}={f}", found=unparse(v) if v is not None else f"not passed: {other.name} uses its default")
    finally:
        ctx.evidence = saved_ev
    # the container itself keeps what it was given: a __post_init__ (or any other method) that re-assigns a field converts the
    # caller's value - int(7.75) is 7, float(np.float32(x)) is another number than x
    saved_ev2, ctx.evidence = ctx.evidence, True
    try:
        adm = ana.prog.classes.get("fast_ticc.containers.arguments.ADMMArguments")
        for m_ in (list(adm.methods.values()) if adm is not None else []):
            if m_.name in ("__init__",):
                continue
            for n in Resolver.walk_own(m_.node):
                if isinstance(n, ast.Attribute) and isinstance(n.ctx, ast.Store) and n.attr in fields and isinstance(n.value, ast.Name) and n.value.id == "self":
                    ctx.fail(m_, f"ADMMArguments.{m_.name} re-assigns the field `{n.attr}`: the optimiser no longer works with the caller's value", line=n.lineno,
                             role=f"plumb-store:ADMMArguments.{m_.name}:{n.attr}", expected="fields keep the constructor's values", found=unparse(n))
                if isinstance(n, ast.Call) and isinstance(n.func, ast.Name) and n.func.id == "setattr" and n.args and isinstance(n.args[0], ast.Name) and n.args[0].id == "self":
                    ctx.fail(m_, f"ADMMArguments.{m_.name} re-assigns fields through setattr", line=n.lineno, role=f"plumb-store:ADMMArguments.{m_.name}:setattr",
                             expected="fields keep the constructor's values", found=unparse(n, 60))
        for m_ in ua.methods.values():
            if m_.name in ("__init__",):
                continue
            for n in Resolver.walk_own(m_.node):
                if isinstance(n, ast.Attribute) and isinstance(n.ctx, ast.Store) and n.attr in fields and isinstance(n.value, ast.Name) and n.value.id == "self":
                    ctx.fail(m_, f"UserArguments.{m_.name} re-assigns the field `{n.attr}`: the value the run uses is no longer the caller's", line=n.lineno,
                             role=f"plumb-store:{m_.name}:{n.attr}", expected="fields keep the constructor's values", found=unparse(n))
                if isinstance(n, ast.Call) and isinstance(n.func, ast.Name) and n.func.id == "setattr" and n.args and isinstance(n.args[0], ast.Name) and n.args[0].id == "self":
                    ctx.fail(m_, f"UserArguments.{m_.name} re-assigns fields through setattr", line=n.lineno, role=f"plumb-store:{m_.name}:setattr",
                             expected="fields keep the constructor's values", found=unparse(n, 60))
    finally:
        ctx.evidence = saved_ev2
    # nobody overwrites a field outside the class
    stores = []
    for fi in ana.prog.functions.values():
        if fi.cls is not None and fi.cls.qualname == UA:
            continue
        for n in Resolver.walk_own(fi.node):
            if isinstance(n, ast.Attribute) and isinstance(n.ctx, ast.Store) and n.attr in fields:
                if ana.res.type_of(fi, n.value) == ("cls", UA):
                    stores.append((fi, n))
    for fi, n in stores:
        ctx.fail(fi, f"UserArguments.{n.attr} is overwritten after construction", line=n.lineno,
                 role=f"plumb-store:{n.attr}", expected="hyper-parameters are read-only after the front end", found=unparse(n))
    if not stores:
        ctx.ok(UA, "no function outside the class stores into the fields " + ", ".join(fields), role="plumb:no-store:" + ",".join(fields))
    # shallow_copy maps every field to itself
    sc = ua.methods.get("shallow_copy")
    if sc is not None:
        for n in Resolver.walk_own(sc.node):
            if isinstance(n, ast.Return) and isinstance(n.value, ast.Call):
                kws = {k.arg: k.value for k in n.value.keywords}
                for f in fields:
                    v = kws.get(f)
                    ok = isinstance(v, ast.Attribute) and v.attr == f and isinstance(v.value, ast.Name) and v.value.id == "self"
                    ctx.check(ok, sc, f"shallow_copy keeps `{f}`", line=n.lineno, role=f"plumb-copy:{f}",
                              expected=f"{f}=self.{f}", found=unparse(v) if v is not None else "missing")
