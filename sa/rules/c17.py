"""C17 - Calinski-Harabasz index matches its definition."""
from __future__ import annotations

import ast

from .. import terms as tm
from ..loader import AnalysisError
from ..report import rule
from ..terms import App, Attr, Idx, Poly, Range, Sum, Sym

CH = "cluster_metrics.calinski_harabasz_index"


def _setup(ana):
    fi = ana.func(CH)
    size_prop = ana.prog.cls("containers.model_state.ClusterParameters").properties.get("size")
    b = ana.builder(fi, no_inline=ana.known)
    return fi, b, Sym(fi.params[0]), Sym(fi.params[1])


def _outer(z):
    col = App(".reshape", (z, tm.const(-1), tm.ONE))
    return App("matmul", (col, tm.transpose(col)))


def _centre_term(rt, data):
    """The term subtracted from each cluster mean in the between-group dispersion."""
    for x in tm.subterms(rt):
        if isinstance(x, App) and x.fn in ("numpy.mean", "numpy.average", "numpy.median") and x.args and x.args[0] == data:
            return x
    return None


@rule("C17", "R1", "RANK", "the global centre is the per-column centroid of the stacked windows", floor=1)
def r1(ctx):
    fi, b, data, m = _setup(ctx.ana)
    rt = b.return_term()
    g = _centre_term(rt, data)
    if g is None:
        raise AnalysisError("no reduction of the stacked data found in the index (global centre not recognised)")
    axis = g.kwarg("axis") if g.kwarg("axis") is not None else (g.args[1] if len(g.args) > 1 else None)
    ok = g.fn == "numpy.mean" and axis == tm.ZERO
    r = "rank 0 (scalar mean of all entries)" if axis is None else f"axis={axis}"
    ctx.check(ok, fi, "the value subtracted from each cluster mean is numpy.mean(data, axis=0), a rank-1 reduction over windows",
              role=f"global-centre:{g}", expected=f"numpy.mean({data}, axis=0)", found=f"{g}: {r}")


@rule("C17", "R2", "TERM", "index = [B/(K-1)] / [Wd/(T-K)] with B, Wd the between / within dispersions", floor=3)
def r2(ctx):
    fi, b, data, m = _setup(ctx.ana)
    rt = b.return_term()
    clusters = Attr(m, "clusters")
    K = tm.length(clusters)
    T = tm.length(data)
    pcs = tm.pieces_of(rt)
    if len(pcs) != 1:
        ctx.fail(fi, "the index has special-cased return values besides the definition", role="factor",
                 expected="a single return computing [B/(K-1)] / [Wd/(T-K)]", found="; ".join(f"{g} -> {str(v)[:40]}" for g, v in pcs)[:260])
        return
    traces = [x for x in tm.subterms(rt) if isinstance(x, App) and x.fn == "numpy.trace"]
    uniq = {x.key: x for x in traces}
    if len(uniq) != 2:
        raise AnalysisError(f"expected two traces (between / within dispersion) in the index, found {len(uniq)}")
    g = _centre_term(rt, data)
    N = D = None
    if isinstance(rt, Poly):
        for mono, _c in rt.terms:
            for a, e in mono:
                if a.key in uniq:
                    if e > 0:
                        N = a
                    elif e < 0:
                        D = a
    if N is None or D is None or N == D:
        raise AnalysisError("between / within dispersion terms not told apart (numerator / denominator traces)")
    want = tm.mul(tm.div(N, D), tm.div(tm.add(T, tm.neg(K)), tm.add(K, -1)))
    ctx.check(rt == want, fi, "result is trace(B)/trace(Wd) * (T - K)/(K - 1)", role="factor",
              expected=str(want)[:200].replace(str(N), "trB").replace(str(D), "trW"),
              found=str(rt)[:260].replace(str(N), "trB").replace(str(D), "trW"))
    # between-group dispersion
    SN = N.args[0]
    okN = False
    if isinstance(SN, Sum) and len(SN.binders) == 1 and SN.guard is None and SN.binders[0][1] == Range(0, K):
        k = SN.binders[0][0]
        ck = Idx(clusters, (k,))
        mu = Attr(ck, "stacked_data_mean")
        sizes = [Attr(ck, "size"), tm.length(Attr(ck, "member_points"))]
        okN = any(SN.body == tm.mul(s, _outer(tm.add(mu, tm.neg(g)))) for s in sizes)
    ctx.check(okN, fi, "B = sum_k size_k * (mu_k - g)(mu_k - g)^T over all clusters", role="between",
              expected="SUM_k size_k * outer(mu_k - g)", found=str(SN)[:220])
    SD = D.args[0]
    okD = False
    if isinstance(SD, Sum) and len(SD.binders) == 2 and SD.guard is None and SD.binders[0][1] == Range(0, K):
        k, p = SD.binders[0][0], SD.binders[1][0]
        ck = Idx(clusters, (k,))
        mu = Attr(ck, "stacked_data_mean")
        members = Attr(ck, "member_points")
        okD = SD.binders[1][1] == Range(0, tm.length(members)) and SD.body == _outer(tm.add(Idx(data, (Idx(members, (p,)),)), tm.neg(mu)))
    ctx.check(okD, fi, "Wd = sum_k sum_{p in cluster k} (x_p - mu_k)(x_p - mu_k)^T", role="within",
              expected="SUM_k SUM_{p in members_k} outer(x_p - mu_k)", found=str(SD)[:220])


@rule("C17", "R3", "ORDER", "cluster sizes and member lists used by the index are the current partition")
def r3(ctx):
    from . import c13
    ctx.sub(c13.r2)
    # ... and the statistics phase writes them into its own copy of the state, never into a list shared with another state
    ctx.sub(c13.r6, only=(r"input-write:cluster_maintenance\.update_all_cluster_statistics",))


@rule("C17", "R4", "OWN", "the metric only reads the model it is given", evidence=True)
def r_readonly(ctx):
    from .c06 import readers_do_not_write
    readers_do_not_write(ctx, ["cluster_metrics.bayesian_information_criterion" if "C17" == "C16" else "cluster_metrics.calinski_harabasz_index"])


@rule("C17", "R5", "FLOW", "the cluster mean used by the index is the float mean of the cluster's own windows")
def r5(ctx):
    from . import c12
    ctx.sub(c12.r1, only=("receiver:stacked_data_mean", "mean:rows", "return"))
    ctx.sub(c12.r3, only=("unconditional", "range", "slot"))     # ... refreshed for every cluster, one-member clusters included
