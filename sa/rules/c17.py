"""C17 - Calinski-Harabasz index matches its definition."""
from __future__ import annotations

import ast

from .. import terms as tm
from ..loader import AnalysisError
from ..report import rule
from ..terms import App, Attr, Idx, Poly, Range, Sum, Sym

CH = "cluster_metrics.calinski_harabasz_index"


def _setup(ana):
    fi = ana.func(CH)
    size_prop = ana.prog.cls("containers.model_state.ClusterParameters").properties.get("size")
    b = ana.builder(fi, no_inline=ana.known)
    return fi, b, Sym(fi.params[0]), Sym(fi.params[1])


def _outer(z):
    col = App(".reshape", (z, tm.const(-1), tm.ONE))
    return App("matmul", (col, tm.transpose(col)))


def _centre_term(rt, data):
    """The term subtracted from each cluster mean in the between-group dispersion."""
    for x in tm.subterms(rt):
        if isinstance(x, App) and x.fn in ("numpy.mean", "numpy.average", "numpy.median") and x.args and x.args[0] == data:
            return x
    return None


def _cluster_means(ck, data):
    """The two admissible sources of mu_k: the mean stored in the cluster by the statistics phase, or the mean of the cluster's
    current member rows computed by the index itself."""
    members = Attr(ck, "member_points")
    return {"stored": Attr(ck, "stacked_data_mean"),
            "own": tm.make_app("numpy.mean", [Idx(data, (members,))], {"axis": tm.ZERO}),
            "own2": tm.make_app("numpy.mean", [Idx(data, (members, tm.Slc(None, None, None)))], {"axis": tm.ZERO})}


def _only_skips_empty(guard, ck):
    """An empty cluster contributes nothing to either dispersion: skipping it is the identity on the sums."""
    if guard is None or guard == tm.TRUE:
        return True
    nonempty = {tm.compare("!=", Attr(ck, "size"), 0).key, tm.compare("!=", tm.length(Attr(ck, "member_points")), 0).key}
    return guard.key in nonempty


def mean_source(ana):
    """'stored' | 'own' | None: where the cluster mean used by the index comes from."""
    fi, b, data, m = _setup(ana)
    rt = b.return_term()
    keys = {x.key for x in tm.subterms(rt)}
    stored = any(isinstance(x, Attr) and x.name == "stacked_data_mean" for x in tm.subterms(rt))
    own = any(isinstance(x, App) and x.fn == "numpy.mean" and x.args and isinstance(x.args[0], Idx) and x.args[0].base == data
              and any(isinstance(y, Attr) and y.name == "member_points" for i_ in x.args[0].idx for y in tm.subterms(i_)) for x in tm.subterms(rt))
    if stored:
        return "stored"
    return "own" if own else None


@rule("C17", "R1", "RANK", "the global centre is the per-column centroid of the stacked windows", floor=1)
def r1(ctx):
    fi, b, data, m = _setup(ctx.ana)
    rt = b.return_term()
    g = _centre_term(rt, data)
    if g is None:
        raise AnalysisError("no reduction of the stacked data found in the index (global centre not recognised)")
    axis = g.kwarg("axis") if g.kwarg("axis") is not None else (g.args[1] if len(g.args) > 1 else None)
    ok = g.fn == "numpy.mean" and axis == tm.ZERO
    r = "rank 0 (scalar mean of all entries)" if axis is None else f"axis={axis}"
    ctx.check(ok, fi, "the value subtracted from each cluster mean is numpy.mean(data, axis=0), a rank-1 reduction over windows",
              role=f"global-centre:{g}", expected=f"numpy.mean({data}, axis=0)", found=f"{g}: {r}")


@rule("C17", "R2", "TERM", "index = [B/(K-1)] / [Wd/(T-K)] with B, Wd the between / within dispersions", floor=3)
def r2(ctx):
    fi, b, data, m = _setup(ctx.ana)
    rt = b.return_term()
    clusters = Attr(m, "clusters")
    K = tm.length(clusters)
    T = tm.length(data)
    pcs = tm.pieces_of(rt)
    if len(pcs) != 1:
        ctx.fail(fi, "the index has special-cased return values besides the definition", role="factor",
                 expected="a single return computing [B/(K-1)] / [Wd/(T-K)]", found="; ".join(f"{g} -> {str(v)[:40]}" for g, v in pcs)[:260])
        return
    traces = [x for x in tm.subterms(rt) if isinstance(x, App) and x.fn == "numpy.trace"]
    uniq = {x.key: x for x in traces}
    if len(uniq) != 2:
        raise AnalysisError(f"expected two traces (between / within dispersion) in the index, found {len(uniq)}")
    g = _centre_term(rt, data)
    N = D = None
    if isinstance(rt, Poly):
        for mono, _c in rt.terms:
            for a, e in mono:
                if a.key in uniq:
                    if e > 0:
                        N = a
                    elif e < 0:
                        D = a
    if N is None or D is None or N == D:
        raise AnalysisError("between / within dispersion terms not told apart (numerator / denominator traces)")
    want = tm.mul(tm.div(N, D), tm.div(tm.add(T, tm.neg(K)), tm.add(K, -1)))
    ctx.check(rt == want, fi, "result is trace(B)/trace(Wd) * (T - K)/(K - 1)", role="factor",
              expected=str(want)[:200].replace(str(N), "trB").replace(str(D), "trW"),
              found=str(rt)[:260].replace(str(N), "trB").replace(str(D), "trW"))
    # between-group dispersion
    SN = N.args[0]
    okN = False
    if isinstance(SN, Sum) and len(SN.binders) == 1 and SN.binders[0][1] == Range(0, K):
        k = SN.binders[0][0]
        ck = Idx(clusters, (k,))
        sizes = [Attr(ck, "size"), tm.length(Attr(ck, "member_points"))]
        for mu in _cluster_means(ck, data).values():
            okN = okN or (any(SN.body == tm.mul(s, _outer(tm.add(mu, tm.neg(g)))) for s in sizes) and _only_skips_empty(SN.guard, ck))
    ctx.check(okN, fi, "B = sum_k size_k * (mu_k - g)(mu_k - g)^T over all (non-empty) clusters", role="between",
              expected="SUM_k size_k * outer(mu_k - g)", found=str(SN)[:220])
    SD = D.args[0]
    okD = False
    if isinstance(SD, Sum) and len(SD.binders) == 2 and SD.binders[0][1] == Range(0, K):
        k, p = SD.binders[0][0], SD.binders[1][0]
        ck = Idx(clusters, (k,))
        members = Attr(ck, "member_points")
        for mu in _cluster_means(ck, data).values():
            okD = okD or (SD.binders[1][1] in (Range(0, tm.length(members)), Range(0, Attr(ck, "size"))) and _only_skips_empty(SD.guard, ck)
                          and SD.body == _outer(tm.add(Idx(data, (Idx(members, (p,)),)), tm.neg(mu))))
    ctx.check(okD, fi, "Wd = sum_k sum_{p in cluster k} (x_p - mu_k)(x_p - mu_k)^T", role="within",
              expected="SUM_k SUM_{p in members_k} outer(x_p - mu_k)", found=str(SD)[:220])


@rule("C17", "R3", "ORDER", "cluster sizes and member lists used by the index are the current partition")
def r3(ctx):
    from . import c13
    ctx.sub(c13.r2)
    # ... of the state the index is given: the relabel phase hands on its own cluster objects (a shared object would take the
    # next labelling's members while the state keeps its own labels)
    ctx.sub(c13.r6, only=(r"input-write:cluster_label_assignment\.predict_cluster_labels",))
    if mean_source(ctx.ana) == "stored":
        # ... and the statistics phase writes the means the index reads into its own copy of the state, never into a list shared
        # with another state (nothing of this enters an index that averages the member rows itself)
        ctx.sub(c13.r6, only=(r"input-write:cluster_maintenance\.update_all_cluster_statistics",))


@rule("C17", "R4", "OWN", "the metric only reads the model it is given", evidence=True)
def r_readonly(ctx):
    from .c06 import readers_do_not_write
    readers_do_not_write(ctx, ["cluster_metrics.bayesian_information_criterion" if "C17" == "C16" else "cluster_metrics.calinski_harabasz_index"])


@rule("C17", "R5", "FLOW", "the cluster mean used by the index is the float mean of the cluster's own windows")
def r5(ctx):
    from . import c12, c10
    ctx.sub(c10.r1, only=("alloc",))      # "float mean": the stacked windows are float64 whatever the input dtype (float32 input at a large offset loses the spread)
    src = mean_source(ctx.ana)
    fi = ctx.ana.func(CH)
    if src == "own":
        # the index averages data[cluster.member_points] itself (R2 checks the formula): nothing the statistics phase stores enters it
        ctx.ok(fi, "mu_k is computed by the index from the rows of cluster k's current members", role="mean:own")
        return
    if src is None:
        ctx.unrecognised(fi, "the source of the cluster means used by the index is not recognised", role="mean:source")
        return
    ctx.sub(c12.r1, only=("receiver:stacked_data_mean", "mean:rows", "return"))
    ctx.sub(c12.r3, only=("unconditional", "range", "slot"))     # ... refreshed for every cluster, one-member clusters included


@rule("C17", "R6", "ORDER", "the cluster means that enter the index are means of the labelling the index is computed for")
def r6(ctx):
    """The index is defined on the returned labelling.  A mean stored by the statistics phase belongs to the labelling that phase
    saw: the one *before* the last relabel, and *after* a repopulation - which the fixed-point test does not see (it compares the new
    labels with the labels of the previous relabel).  A converged round that repopulated a one-member cluster therefore returns
    means of a different membership (finding F10).  Either the index computes the means from the members it iterates over, or the
    statistics are refreshed between the last relabel and the index on every path."""
    from . import c09, c13
    # the members the index iterates over belong to the model it is asked about: a copy that shares its cluster objects with its
    # source reports the source's membership after either of them is relabelled
    ctx.sub(c13.r5, only=("deep-copy:containers.model_state.ModelState", "deep-copy:containers.model_state.ClusterParameters"))
    c09.lifecycle(ctx, {"index-state"})
    ctx.sub(c13.r3)      # no member list is edited in place or shared through a getter: the members the index sums over are the scored model's own
    src = mean_source(ctx.ana)
    fi = ctx.ana.func(CH)
    if src == "own":
        ctx.ok(fi, "mu_k is the mean of the rows of the very member list the index sums over", role="mean:current")
        return
    if src is None:
        ctx.unrecognised(fi, "the source of the cluster means used by the index is not recognised", role="mean:source")
        return
    c09.lifecycle(ctx, {"index-means-current"})
