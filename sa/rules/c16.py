"""C16 - Bayesian information criterion matches its definition."""
from __future__ import annotations

import ast

from .. import terms as tm
from ..loader import AnalysisError
from ..report import rule
from ..resolve import Resolver
from ..terms import App, Attr, Cmp, Idx, Poly, Range, Sum, Sym
from .common import unparse
from .numrules import logdet_form

BIC = "cluster_metrics.bayesian_information_criterion"


def _parts(ana):
    fi = ana.func(BIC)
    b = ana.builder(fi, no_inline=ana.known)
    rt = b.return_term()
    m = Sym(fi.params[0])
    return fi, b, rt, m


@rule("C16", "R1", "TERM", "BIC = P*log(T) - 2*sum_k(logdet(Theta_k) - trace(Theta_k S_k))", floor=4)
def r1(ctx):
    fi, b, rt, m = _parts(ctx.ana)
    labels = Attr(m, "point_labels")
    T = tm.length(labels)
    if not isinstance(rt, Poly) or len(rt.terms) != 2:
        ctx.unrecognised(fi, "the returned value is not of the form penalty + likelihood term (P*log(T) - 2*sum_k(...))", role="shape", found=str(rt)[:200])
        return
    lik = pen = None
    for mono, c in rt.terms:
        atoms = [a for a, _e in mono]
        if any(isinstance(a, App) and a.fn == "log" for a in atoms):
            pen = (mono, c)
        else:
            lik = (mono, c)
    if lik is None or pen is None:
        ctx.fail(fi, "penalty / likelihood terms not recognised", role="shape", found=str(rt)[:200])
        return
    # penalty: P * log(T)
    mono, c = pen
    logs = [a for a, e in mono if isinstance(a, App) and a.fn == "log"]
    others = [a for a, e in mono if not (isinstance(a, App) and a.fn == "log")]
    ok = c == 1 and len(logs) == 1 and logs[0] == App("log", (T,)) and len(others) == 1 and all(e == 1 for _a, e in mono)
    ctx.check(ok, fi, "penalty is (number of parameters) * log(number of labelled windows)", role="penalty",
              expected=f"P * log({T})", found=f"{c} * " + " * ".join(f"{a}^{e}" for a, e in mono)[:160])
    # likelihood: -2 * SUM_k (logdet_k - trace(Theta_k S_k))
    mono, c = lik
    ok = c == -2 and len(mono) == 1 and mono[0][1] == 1 and isinstance(mono[0][0], Sum)
    ctx.check(ok, fi, "likelihood part is -2 times a sum over clusters", role="likelihood:coefficient", expected="-2 * SUM_k(...)",
              found=f"{c} * {str(mono[0][0])[:80] if mono else ''}")
    if not ok:
        return
    S: Sum = mono[0][0]
    K1 = Attr(Attr(m, "arguments"), "num_clusters")
    K2 = tm.length(Attr(m, "clusters"))
    okb = len(S.binders) == 1 and S.guard is None and S.binders[0][1] in (Range(0, K1), Range(0, K2))
    ctx.check(okb, fi, "the sum runs over every cluster id in range(K)", role="likelihood:range", expected=str(Range(0, K1)),
              found=", ".join(f"{v} in {it}" for v, it in S.binders) + (f" if {S.guard}" if S.guard is not None else ""))
    if not S.binders:
        return
    k = S.binders[0][0]
    cl = Idx(Attr(m, "clusters"), (k,))
    Theta, Sk = Attr(cl, "train_inverse"), Attr(cl, "empirical_covariance")
    body = S.body
    traces = [x for x in tm.subterms(body) if isinstance(x, App) and x.fn == "numpy.trace"]
    want_tr = {App("numpy.trace", (App("matmul", (Theta, Sk)),)).key, App("numpy.trace", (App("matmul", (Sk, Theta)),)).key}
    okt = len(traces) == 1 and traces[0].key in want_tr
    ctx.check(okt, fi, "the trace term is trace(Theta_k @ S_k) with both matrices of the same cluster k", role="likelihood:trace",
              expected=f"numpy.trace(matmul({Theta}, {Sk}))", found=str(traces[0]) if traces else "no trace")
    if okt:
        ld = tm.add(body, traces[0])
        form, how = logdet_form(ld, Theta)
        ctx.check(form == "ok", fi, "the other summand is log det Theta_k of the same cluster (body = logdet - trace)", role="likelihood:logdet",
                  expected=f"slogdet({Theta})[1] - trace(...)", found=f"{how}")


@rule("C16", "R2", "CMP", "parameters of cluster k = number of entries of Theta_k with magnitude strictly above 2e-5", floor=1)
def r2(ctx):
    fi, b, rt, m = _parts(ctx.ana)
    stores = [s for s in b.stores() if s.idx is not None and len(s.idx) == 1 and s.loops
              and any(isinstance(x, App) and x.fn in ("numpy.sum", "numpy.count_nonzero") for x in tm.subterms(s.value))]
    if not stores:
        raise AnalysisError("per-cluster parameter count store not found")
    for s in stores:
        k = s.idx[0]
        cl = Idx(Attr(m, "clusters"), (k,))
        Theta = Attr(cl, "train_inverse")
        thr = tm.const(tm.Fraction("2e-05")) if hasattr(tm, "Fraction") else None
        from fractions import Fraction
        thr = tm.const(Fraction("2e-05"))
        want = tm.compare(">", App("abs", (Theta,)), thr)
        v = s.value
        ok = isinstance(v, App) and v.fn in ("numpy.sum", "numpy.count_nonzero") and len(v.args) == 1 and v.args[0] == want and not v.kw
        ctx.check(ok, fi, "count of |Theta_k| > 2e-5 (strict) over the MRF of the cluster the count is stored for", line=s.stmt.lineno,
                  role="param-count", expected=f"numpy.sum({want})", found=str(v)[:160])
        rng = s.loop_ranges[-1]
        K1 = Attr(Attr(m, "arguments"), "num_clusters")
        ctx.check(rng in (Range(0, K1), Range(0, tm.length(Attr(m, "clusters")))) and k == Sym(s.loops[-1].target.id), fi,
                  "a count is stored for every cluster id", line=s.stmt.lineno, role="param-count:range", expected=str(Range(0, K1)), found=str(rng))
    _narrow_integer_allocations(ctx, fi)


@rule("C16", "R3", "FLOW", "P adds the current label's parameter count once per maximal run of equal labels", floor=5)
def r3(ctx):
    ctx.reformulable = True      # a shape template of a run-length loop: see RuleCtx._foreign_combinators
    try:
        _r3(ctx)
    finally:
        ctx.reformulable = False


def _r3(ctx):
    ana = ctx.ana
    fi, b, rt, m = _parts(ana)
    cfg, rd = ana.cfg(fi), ana.rd(fi)
    labels = Attr(m, "point_labels")
    # the penalty accumulator: the Sum inside the penalty monomial
    P = None
    for mono, c in rt.terms if isinstance(rt, Poly) else []:
        if any(isinstance(a, App) and a.fn == "log" for a, _e in mono):
            for a, _e in mono:
                if not (isinstance(a, App) and a.fn == "log"):
                    P = a
    if P is None:
        raise AnalysisError("penalty accumulator not found in the BIC term")
    if isinstance(P, Poly):
        sums = [a for a in P.atoms() if isinstance(a, Sum)]
        init = tm.add(P, tm.neg(sums[0])) if len(sums) == 1 else None
        ctx.check(init == tm.ZERO, fi, "the accumulator starts at 0", role="acc:init", expected="0", found=str(init))
        P = sums[0] if len(sums) == 1 else None
    if not isinstance(P, Sum):
        ctx.fail(fi, "the parameter total is not accumulated by a single guarded += in a loop over the labels", role="acc:shape",
                 expected="for label in labels: if label != carried: P += params[label]; carried = label", found=str(P)[:160])
        return
    ok = len(P.binders) == 1 and P.binders[0][1] == Range(0, tm.length(labels))
    ctx.check(ok, fi, "the accumulation loop visits the label sequence in order", role="acc:loop", expected=f"for label in {labels}",
              found=", ".join(f"{v} in {it}" for v, it in P.binders))
    if not ok:
        return
    v = P.binders[0][0]
    cur = Idx(labels, (v,))
    # body: params[current label]
    body = P.body
    okb = isinstance(body, Idx) and body.idx == (cur,) and isinstance(body.base, Sym)
    ctx.check(okb, fi, "each run contributes the parameter count of the *current* label", role="acc:body",
              expected=f"cluster_params[{cur}]", found=str(body))
    if okb:
        # the table indexed here is the one R2 fills
        filled = [s for s in b.stores() if s.base_name == body.base.name]
        ctx.check(bool(filled), fi, "the count table read here is the one filled per cluster (R2)", role="acc:table", found=body.base.name)
    # guard: carried != current
    g = P.guard
    carried = None
    if isinstance(g, Cmp) and g.op == "!=":
        rest = [a for a in g.poly.atoms() if a != cur]
        if len(rest) == 1 and isinstance(rest[0], Sym):
            carried = rest[0]
            okg = g.key == tm.compare("!=", carried, cur).key
        else:
            okg = False
    else:
        okg = False
    ctx.check(okg, fi, "the += is guarded by `current label != carried label`", role="acc:guard", expected="label != last_label", found=str(g))
    if carried is None:
        return
    cname = carried.name.split("@")[0]
    # definitions of the carried variable
    loop = None
    for n in Resolver.walk_own(fi.node):
        if isinstance(n, ast.For) and any(b.accumulation(x) for x in ast.walk(n) if isinstance(x, ast.stmt)) and \
                b.binder_of(n)[0] == v:
            loop = n
    if loop is None:
        raise AnalysisError("accumulation loop not located")
    defs = [n for n in cfg.nodes if cname in n.defs]
    inloop = [n for n in defs if loop in cfg.enclosing_loops(n)]
    outloop = [n for n in defs if loop not in cfg.enclosing_loops(n)]
    ok_init = len(outloop) == 1 and isinstance(outloop[0].ast, ast.Assign)
    if ok_init:
        t0 = b.term(outloop[0].ast.value, outloop[0])
        cv = t0.const_value() if isinstance(t0, Poly) else None
        ok_init = (cv is not None and cv < 0) or t0 == tm.Lit(None)
    ctx.check(ok_init, fi, "the carried label starts as a value that is no valid label (so the first run is counted)", role="carried:init",
              expected="-1 / None", found=unparse(outloop[0].ast) if outloop else "no initial definition")
    aug = [n for n in cfg.nodes if n.kind == "stmt" and b.accumulation(n.ast) and loop in cfg.enclosing_loops(n)]
    ok_upd = len(inloop) == 1 and len(aug) == 1
    if ok_upd:
        d = inloop[0]
        gd = {(id(o), p) for (_t, p, o) in cfg.guards(d)}
        ga = {(id(o), p) for (_t, p, o) in cfg.guards(aug[0])}
        val = b.term(d.ast.value, d) if isinstance(d.ast, ast.Assign) else None
        ok_upd = gd == ga and val == cur
        if not ok_upd and val == cur and d.ast in loop.body:
            # updated on every iteration, after the guarded +=: where the guard did not fire the two labels are equal already
            holder = [k_ for k_, st_ in enumerate(loop.body) if any(x is aug[0].ast for x in ast.walk(st_))]
            ok_upd = len(holder) == 1 and holder[0] < loop.body.index(d.ast)
    ctx.check(ok_upd, fi, "the carried label becomes the current label exactly when the guard fires", role="carried:update",
              expected=f"{cname} = <current label> under the same guard as the +=",
              found="; ".join(unparse(n.ast) for n in inloop) or "no in-loop definition")


def _narrow_integer_allocations(ctx, fi):
    """The parameter count is a sum of up to T * (NW)^2 entries: it must not be accumulated in a 32-bit (or narrower) integer array,
    which wraps silently under NumPy's scalar promotion rules."""
    narrow = ("int32", "int16", "int8", "uint32", "uint16", "uint8", "intc", "short")
    saved, ctx.evidence = ctx.evidence, True
    try:
        for n in Resolver.walk_own(fi.node):
            if isinstance(n, ast.Call):
                for k in n.keywords:
                    if k.arg == "dtype" and any(unparse(k.value).endswith(x) or unparse(k.value).strip("'\"") == x for x in narrow):
                        ctx.fail(fi, f"`{unparse(n, 60)}` holds counts in a narrow integer type: the parameter total wraps around for a large model",
                                 line=n.lineno, role=f"count:narrow-dtype:{unparse(k.value)}", expected="Python int / int64", found=unparse(k.value))
    finally:
        ctx.evidence = saved


@rule("C16", "R4", "NUM", "the log-determinant in the BIC cannot under/overflow for a positive-definite MRF", floor=1, evidence=True)
def r4(ctx):
    fi, b, rt, m = _parts(ctx.ana)
    found = False
    for x in tm.subterms(rt):
        if isinstance(x, Sum) and x.guard is None and any(isinstance(y, App) and y.fn == "numpy.trace" for y in tm.subterms(x.body)):
            traces = [y for y in tm.subterms(x.body) if isinstance(y, App) and y.fn == "numpy.trace"]
            ld = tm.add(x.body, traces[0])
            form, how = logdet_form(ld)
            found = True
            if form == "unknown":
                raise AnalysisError(f"log-determinant computed in an unrecognised way: {how}")
            ctx.check(form == "ok", fi, "log det Theta_k is obtained without forming the determinant", role="logdet",
                      expected="numpy.linalg.slogdet(Theta)[1]", found=how)
    if not found:
        raise AnalysisError("log-determinant consumer not found in the BIC term")


@rule("C16", "R5", "FLOW", "Theta_k and S_k in the BIC come from one state: the one the last round fitted and relabelled")
def r5(ctx):
    from . import c09
    c09.lifecycle(ctx, {"fit-pairs", "bic-state"})   # no statistics refresh between the last fit and the BIC; BIC and labels of one state
    from . import c04, c14, c20
    ctx.sub(c04.r5, only=("mrfs",))      # the MRFs the criterion is computed from are the MRFs the result reports (nothing is filtered in between)
    ctx.sub(c14.r2, only=("producer:", "consumer:", "unordered:"))   # MRF k is the optimiser's result for cluster k's covariance (ordered gather)
    ctx.sub(c20.r2, only=("get:",))   # a failed task is never papered over by keeping the previous MRF
    from . import c02, c12
    ctx.sub(c12.r4, only=("task:empirical_covariance", "task:callee"))   # "S_k the covariance cluster k was fitted to": the task is given the stored S_k itself
    ctx.sub(c02.r11, only=("entry:covariance",))                         # ... and the entry point hands it to the solver as it is


@rule("C16", "R6", "OWN", "the metric only reads the model it is given", evidence=True)
def r_readonly(ctx):
    from .c06 import readers_do_not_write
    readers_do_not_write(ctx, ["cluster_metrics.bayesian_information_criterion" if "C16" == "C16" else "cluster_metrics.calinski_harabasz_index"])
