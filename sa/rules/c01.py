"""C01 - label assignment returns a globally minimum-cost label sequence (lemma L-DP)."""
from __future__ import annotations

import ast
from typing import Dict, List, Optional, Tuple

from .. import terms as tm
from ..build import Store, TermBuilder
from ..loader import AnalysisError, FuncInfo
from ..report import rule
from ..resolve import Resolver
from ..terms import App, Attr, Cmp, Idx, Lst, Poly, Range, Rep, Slc, Sym, Tup
from .common import Flow, bind_args, calls_to, njit_kernels, short, unparse
from .plumb import plumb

WIDE_INT = {"uint16", "uint32", "uint64", "int32", "int64", "intp", "uintp", "int_", "uint", "longlong", "ulonglong"}
FLOAT64 = {"float64", "float_", "double"}


class Kernel:
    """The labelling kernel with its roles bound by dataflow."""

    def __init__(self, ana):
        self.ana = ana
        caller = ana.func("cluster_label_assignment.predict_cluster_labels")
        kset = {f.qualname for f, _ in njit_kernels(ana)}
        cands = [cs for cs in ana.res.calls(caller) if cs.callee.func is not None and cs.callee.func.qualname in kset
                 and isinstance(cs.node, ast.Call)]
        if len(cands) != 1:
            raise AnalysisError(f"predict_cluster_labels must call exactly one njit kernel; found {len(cands)}")
        self.caller = caller
        self.call = cands[0]
        self.fi: FuncInfo = cands[0].callee.func
        fi = self.fi
        if len(fi.params) != 2:
            raise AnalysisError(f"labelling kernel {fi.qualname} no longer takes (cost table, switching cost)")
        self.A = Sym(fi.params[0])
        self.beta = Sym(fi.params[1])
        self.cfg = ana.cfg(fi)
        self.rd = ana.rd(fi)
        fl = Flow(ana, fi)
        # the broadcast definition: an assignment outside every loop whose value depends on the beta parameter
        self.bdefs = []
        for n in self.cfg.nodes:
            if n.kind == "stmt" and isinstance(n.ast, ast.Assign) and not self.cfg.enclosing_loops(n):
                direct = [x for x in ast.walk(n.ast.value) if isinstance(x, ast.Name) and x.id == fi.params[1]
                          and any(d.kind == "entry" for d in self.rd.reaching(n, x.id))]
                if direct and len(n.ast.targets) == 1 and isinstance(n.ast.targets[0], ast.Name):
                    self.bdefs.append(n)
        self.b = Sym("b")
        cuts = {}
        if len(self.bdefs) == 1:
            cuts[self.bdefs[0].id] = self.b
        self.builder = ana.builder(fi, cuts=cuts, no_inline=lambda f: False)
        self.builder.ranks.set(self.b, 1)
        self.builder.ranks.set(self.A, 2)
        self.builder.ranks.set(Sym("pi"), 0)
        self.T = Idx(Attr(self.A, "shape"), (tm.ZERO,))
        self.K = Idx(Attr(self.A, "shape"), (tm.ONE,))
        self.stores: List[Store] = self.builder.stores()
        # 2-D arrays written inside a doubly nested loop: the DP tables
        tables = {}
        for s in self.stores:
            if s.base_name and s.idx is not None and len(s.idx) == 2 and len(s.loops) == 2:
                tables.setdefault(s.base_name, []).append(s)
        self.tables = tables
        self.F = self.P = None
        for name, ss in tables.items():
            reads_self = any(any(isinstance(x, Idx) and x.base == Sym(name) for x in tm.subterms(s.value)) for s in ss)
            if reads_self:
                self.F = name
        for name in tables:
            if name != self.F:
                self.P = name
        if self.F is None or self.P is None or len(tables) != 2:
            raise AnalysisError(f"DP tables not recognised in {fi.qualname} (2-D arrays written in a doubly nested loop: {sorted(tables)})")
        self.outer = tables[self.F][0].loops[0]
        self.inner = tables[self.F][0].loops[1]
        for s in tables[self.F] + tables[self.P]:
            if s.loops[0] is not self.outer or s.loops[1] is not self.inner:
                raise AnalysisError("DP tables are written in more than one loop nest")
        if not isinstance(self.outer.target, ast.Name) or not isinstance(self.inner.target, ast.Name):
            raise AnalysisError("loop targets of the DP loop nest are not plain names")
        self.i = Sym(self.outer.target.id)
        self.c = Sym(self.inner.target.id)
        self.builder.ranks.set(Sym(self.F), 2)
        self.builder.ranks.set(Sym(self.P), 2)
        self.outer_range = self.builder.loop_range(self.outer)
        # canonical row index: if the tables are written at row (v + c) of the loop variable v, re-express everything in
        # i := v + c (a shifted loop is the same sweep)
        row = tables[self.F][0].idx[0]
        if row != self.i and isinstance(row, Poly):
            shift = tm.add(row, tm.neg(self.i))
            if isinstance(shift, Poly) and shift.const_value() is not None and self.outer_range is not None:
                inew = Sym(self.i.name + "$row")
                self.builder.ranks.set(inew, 0)
                mp = {self.i.key: tm.add(inew, tm.neg(shift))}
                import dataclasses
                new_stores = []
                for s_ in self.stores:
                    if self.outer in s_.loops:
                        s_ = dataclasses.replace(s_, idx=tuple(tm.substitute(x, mp) for x in s_.idx) if s_.idx is not None else None,
                                                 value=tm.substitute(s_.value, mp), guards=tm.substitute(s_.guards, mp))
                    new_stores.append(s_)
                self.stores = new_stores
                self.tables = {nm: [x for x in new_stores if x.base_name == nm and x.idx is not None and len(x.idx) == 2 and len(x.loops) == 2]
                               for nm in tables}
                r = self.outer_range
                self.outer_range = Range(tm.add(r.lo, shift), tm.add(r.hi, shift), r.step)
                self.i = inew
                self.row_shift = mp
        if not hasattr(self, "row_shift"):
            self.row_shift = {}

    # templates -------------------------------------------------------------
    def t_at(self, x):
        i1 = tm.add(self.i, 1)
        return tm.add(Idx(Sym(self.F), (i1, x)), Idx(Sym(self.A.name), (i1, x)))

    def tv(self):
        i1 = tm.add(self.i, 1)
        return tm.add(Idx(Sym(self.F), (i1,)), Idx(self.A, (i1,)))

    def price_atoms(self, t) -> List[Idx]:
        return [x for x in tm.subterms(t) if isinstance(x, Idx) and x.base == self.b]

    def alloc_def(self, name) -> Optional[ast.Assign]:
        defs = [n for n in self.cfg.nodes if n.kind == "stmt" and isinstance(n.ast, ast.Assign) and name in n.defs]
        return defs[0] if len(defs) == 1 else None

    def price_offset(self) -> Optional[tm.T]:
        """o such that the pair (i, i+1) is priced by b[i+o], when the same o is used everywhere."""
        offs = set()
        for s in self.tables[self.F] + self.tables[self.P]:
            for t in (s.value, s.guards):
                for a in self.price_atoms(t):
                    if len(a.idx) == 1:
                        offs.add(tm.add(a.idx[0], tm.neg(self.i)).key)
                        last = tm.add(a.idx[0], tm.neg(self.i))
        if len(offs) == 1:
            return last
        return None


def kernel_price_offset(ana) -> Optional[int]:
    k = Kernel(ana)
    o = k.price_offset()
    if o is None or not isinstance(o, Poly) or o.const_value() is None:
        return None
    return int(o.const_value())


def _dtype_name(t) -> Optional[str]:
    if t is None:
        return None
    if isinstance(t, Sym):
        n = t.name
        if n.startswith("numpy."):
            return n[len("numpy."):]
        if n.startswith("builtins."):
            return n[len("builtins."):]
        return n
    if isinstance(t, tm.Lit) and isinstance(t.value, str):
        return t.value
    return None


@rule("C01", "R1", "TERM", "tables are zero-initialised with the cost table's shape; only rows i <= T-2 of the cost-to-go are written", floor=4)
def r1(ctx):
    k = Kernel(ctx.ana)
    fi = k.fi
    b0 = ctx.ana.builder(fi, no_inline=lambda f: False)
    for name, role in ((k.F, "F"), (k.P, "P")):
        d = k.alloc_def(name)
        if d is None:
            ctx.fail(fi, f"table `{name}` is not allocated by a single assignment", role=f"alloc:{role}")
            continue
        t = b0.term(d.ast.value, d)
        shape_ok = isinstance(t, App) and t.fn == "numpy.zeros" and ((t.args and t.args[0] == Attr(k.A, "shape")) or t.kwarg("shape") == Attr(k.A, "shape")
                                                                      or (t.args and t.args[0] == Tup([k.T, k.K])))
        like = isinstance(t, App) and t.fn == "numpy.zeros_like" and t.args and t.args[0] == k.A
        if not like and role == "P" and isinstance(t, App) and t.fn == "numpy.zeros_like" and t.args and t.args[0] == Sym(k.F):
            # shaped like the cost-to-go table, whose own allocation (checked in the first round of this loop) has the cost table's shape
            like = True
        dt = _dtype_name(t.kwarg("dtype")) if isinstance(t, App) else None
        if role == "F":
            ok = (shape_ok and (dt is None or dt in FLOAT64 or dt == "float")) or (like and dt in FLOAT64 | {"float"})
            ctx.check(ok, fi, f"cost-to-go table `{name}` is float64 zeros of the cost table's shape (row T-1 stays 0: terminal condition)",
                      line=d.lineno, role="alloc:F", expected=f"numpy.zeros({k.A.name}.shape) [float64]", found=str(t))
        else:
            ok = (shape_ok or like) and dt in WIDE_INT | {"int"}
            ctx.check(ok, fi, f"back-pointer table `{name}` has the cost table's shape and an integer dtype holding every label (K <= 65536)",
                      line=d.lineno, role="alloc:P", expected=f"numpy.zeros({k.A.name}.shape, dtype=uint16 or wider)", found=str(t))
    # stores into F happen only at row i of the backward loop
    for s in [s for s in k.stores if s.base_name == k.F]:
        ctx.check(s.idx[0] == k.i and len(s.loops) == 2, fi, f"`{k.F}` is written only at row i of the backward loop",
                  line=s.stmt.lineno, role=f"rows:F@{_ord(k, s)}", expected=f"{k.F}[{k.i}, c]", found=f"{k.F}[{', '.join(map(str, s.idx))}]")
        ctx.check(s.idx[1] == k.c, fi, f"`{k.F}` is written at column c of the inner loop", line=s.stmt.lineno,
                  role=f"cols:F@{_ord(k, s)}", expected=str(k.c), found=str(s.idx[1]))
    for s in [s for s in k.stores if s.base_name == k.P]:
        ctx.check(s.idx == (k.i, k.c), fi, f"`{k.P}` is written at (i, c)", line=s.stmt.lineno, role=f"cell:P@{_ord(k, s)}",
                  expected=f"{k.P}[{k.i}, {k.c}]", found=f"{k.P}[{', '.join(map(str, s.idx))}]")


def _ord(k, s):
    same = [x for x in k.stores if x.base_name == s.base_name]
    return same.index(s)


@rule("C01", "R2", "RANGE", "the backward sweep visits i = T-2, ..., 0 and every cluster c in [0, K)", floor=2)
def r2(ctx):
    k = Kernel(ctx.ana)
    fi = k.fi
    rng = k.outer_range
    want = Range(tm.add(k.T, -2), tm.const(-1), tm.const(-1))
    ctx.check(rng == want, fi, "outer loop is range(T-2, -1, -1)", line=k.outer.lineno, role="range:outer",
              expected=str(want), found=str(rng))
    rng2 = k.builder.loop_range(k.inner)
    want2 = Range(0, k.K)
    ctx.check(rng2 == want2, fi, "inner loop is range(K)", line=k.inner.lineno, role="range:inner", expected=str(want2), found=str(rng2))
    # no break / continue / return inside the sweep
    bad = [n for n in ast.walk(k.outer) if isinstance(n, (ast.Break, ast.Continue, ast.Return))]
    ctx.check(not bad, fi, "the sweep has no break/continue/return", line=bad[0].lineno if bad else k.outer.lineno,
              role="range:no-early-exit", expected="every (i, c) cell is computed", found=f"{len(bad)} early exit(s)")


def _pieces(k: Kernel, name) -> List[Tuple[tm.T, tm.T]]:
    hdr = k.cfg.stmt_node[id(k.inner)]
    body = next(k.cfg.nodes[s] for s, _ in k.cfg.succ[hdr.id] if k.cfg.nodes[s].kind == "branch" and k.cfg.nodes[s].polarity)
    out = []
    for s in k.tables[name]:
        g = k.builder.guard_term(s.node, relative_to=body)
        if k.row_shift:
            g = tm.substitute(g, k.row_shift)
        for g2, v in tm.pieces_of(s.value):
            out.append((tm.conj([g, g2]), v))
    return out


@rule("C01", "R3", "TERM", "the stored cost-to-go and back-pointer are the stay / jump-to-global-minimum recurrence", floor=4)
def r3(ctx):
    k = Kernel(ctx.ana)
    fi = k.fi
    o = k.price_offset()
    if o is None:
        raise AnalysisError("price index is not uniform across the recurrence (see C01.R4)")
    bi = Idx(k.b, (tm.add(k.i, o),))
    tv = k.tv()
    g_a = App("numpy.argmin", (tm.add(tv, bi),))
    g_b = App("numpy.argmin", (tv,))
    found_F = _pieces(k, k.F)
    found_P = _pieces(k, k.P)
    ok_any = False
    diag = ""
    for g in (g_a, g_b):
        jump = tm.add(k.t_at(g), bi)
        stay = k.t_at(k.c)
        for strict in ("<", "<="):
            G = tm.compare(strict, jump, stay)
            NG = tm.negate(G)
            want_F = {(G.key, jump.key), (NG.key, stay.key)}
            want_P = {(G.key, g.key), (NG.key, k.c.key)}
            gotF = {(a.key, b.key) for a, b in found_F}
            gotP = {(a.key, b.key) for a, b in found_P}
            if gotF == want_F and gotP == want_P:
                ok_any = True
                chosen = (g, strict)
            elif gotF == want_F:
                diag = "cost-to-go matches; back-pointer does not"
            elif gotP == want_P:
                diag = "back-pointer matches; cost-to-go does not"
    exp = "F[i,c] = min(t(c), t(g)+b[i]) with t = F[i+1]+A[i+1], g = argmin t;  P[i,c] = the index whose value F received"
    ctx.check(ok_any, fi, "cost-to-go and back-pointer stores instantiate the Bellman recurrence", line=k.inner.lineno,
              role="recurrence", expected=exp,
              found=diag or "; ".join(f"{g} -> {v}" for g, v in found_F)[:300])
    if ok_any:
        ctx.ok(fi, f"guard polarity/strictness: jump iff t(g)+b[i] {chosen[1]} t(c); ties may go either way (L-DP)", role="recurrence:guard")
    # min-selection idiom and sibling agreement, decided independently of the exact template
    cmp_pieces = [(g, v) for g, v in found_F if isinstance(g, Cmp)]
    if len(found_F) == 2 and len(cmp_pieces) == 2:
        (g1, v1), (g2, v2) = cmp_pieces
        comp = tm.negate(g1).key == g2.key
        ctx.check(comp, fi, "the two guards of the cost-to-go store are complementary", line=k.inner.lineno, role="recurrence:complementary",
                  expected=f"{g1} / {tm.negate(g1)}", found=f"{g1} / {g2}")
        # under guard p OP 0 the stored value must be the smaller side: v1 - v2 == p
        diff = tm.add(v1, tm.neg(v2))
        ctx.check(diff.key == g1.poly.key, fi, "under `x - y < 0` the store keeps x, otherwise y (F[i,c] = min of the two candidates)",
                  line=k.inner.lineno, role="recurrence:min-selection", expected=f"v_true - v_false == {g1.poly}", found=str(diff))
        byg = {g.key: v for g, v in found_P}
        for g, v in cmp_pieces:
            pv = byg.get(g.key)
            i1 = tm.add(k.i, 1)
            names = pv is not None and any(isinstance(x, Idx) and x.base == Sym(k.F) and x.idx == (i1, pv) for x in tm.subterms(v))
            ctx.check(names, fi, "the back-pointer stored under a guard is the index whose successor value the cost-to-go receives under that guard",
                      line=k.inner.lineno, role=f"recurrence:siblings@{cmp_pieces.index((g, v))}",
                      expected=f"{k.F}[i+1, P] occurs in the value stored with P", found=f"P={pv}; F value={v}")
    else:
        ctx.fail(fi, "cost-to-go is not stored under exactly two complementary comparison guards", line=k.inner.lineno,
                 role="recurrence:complementary", found=f"{len(found_F)} piece(s)")


@rule("C01", "R4", "TERM", "the pair (i, i+1) is priced by b[i] in every occurrence", floor=1)
def r4(ctx):
    k = Kernel(ctx.ana)
    fi = k.fi
    occ = []
    for s in k.tables[k.F] + k.tables[k.P]:
        for t in (s.value, s.guards):
            for a in k.price_atoms(t):
                occ.append((s, a))
    if not occ:
        ctx.fail(fi, "the switching cost does not occur in the recurrence", line=k.outer.lineno, role="price:used",
                 expected="b[i] in the jump value and the guard", found="no occurrence")
        return
    bad = [(s, a) for s, a in occ if a.idx != (k.i,)]
    ctx.check(not bad, fi, f"all {len(occ)} occurrences of the price in the recurrence are b[i]", line=bad[0][0].stmt.lineno if bad else k.outer.lineno,
              role="price:index", expected=f"b[{k.i}] (beta[i] prices the pair (i, i+1))",
              found=", ".join(sorted({str(a) for _s, a in bad})))


@rule("C01", "R5", "TERM", "scalar or per-pair price is broadcast to a length-T vector and only the broadcast value is used", floor=2)
def r5(ctx):
    from . import c19
    ctx.sub(c19.r3)          # ... under JIT as well: no explicit signature coerces the price (a float beta cast to int64) or rejects a per-pair vector
    k = Kernel(ctx.ana)
    fi = k.fi
    if len(k.bdefs) != 1:
        ctx.fail(fi, f"expected one broadcast of the switching cost before the sweep, found {len(k.bdefs)}", role="broadcast:def",
                 expected="b = zeros(T) + beta", found=str([n.lineno for n in k.bdefs]))
        return
    d = k.bdefs[0]
    b0 = ctx.ana.builder(fi, no_inline=lambda f: False)
    t = b0.term(d.ast.value, d)
    T = k.T
    forms = set()
    for z in (App("numpy.zeros", (), {"shape": Tup([T])}), App("numpy.zeros", (Tup([T]),)), App("numpy.zeros", (T,)),
              App("numpy.zeros", (), {"shape": T})):
        forms.add(tm.add(z, k.beta).key)
    for o in (App("numpy.ones", (), {"shape": Tup([T])}), App("numpy.ones", (Tup([T]),)), App("numpy.ones", (T,))):
        forms.add(App("Mult", (o, k.beta)).key)
    forms.add(App("numpy.broadcast_to", (k.beta, Tup([T]))).key)
    forms.add(App("numpy.full", (T, k.beta)).key)
    forms.add(App("numpy.full", (Tup([T]), k.beta)).key)
    # beta * ones(T) is folded to beta by the builder (broadcast constant): accept when the source says ones(T)
    ctx.check(t.key in forms, fi, "the price vector is zeros(T) + beta (element-wise beta for scalar and length-T input)",
              line=d.lineno, role="broadcast:form", expected=f"numpy.zeros(shape=({T},)) + {k.beta}", found=str(t))
    # raw parameter is not read after the broadcast
    pname = fi.params[1]
    raw = []
    for n in Resolver.walk_own(fi.node):
        if isinstance(n, ast.Name) and n.id == pname and isinstance(n.ctx, ast.Load):
            at = k.cfg.expr_node.get(id(n))
            if at is None or at.id == d.id:
                continue
            if any(x.kind == "entry" for x in k.rd.reaching(at, pname)):
                raw.append(n)
    ctx.check(not raw, fi, "no use of the raw switching-cost parameter other than the broadcast", line=raw[0].lineno if raw else d.lineno,
              role="broadcast:only-use", expected="every later read goes through the broadcast vector",
              found=f"raw reads at lines {[n.lineno for n in raw]}")


def _path_stores(k: Kernel):
    out = [s for s in k.stores if s.idx is not None and len(s.idx) == 1 and s.base_name not in (k.F, k.P)
           and any(isinstance(x, Idx) and x.base in (Sym(k.P), Sym(k.F)) for x in tm.subterms(s.value))]
    return out


@rule("C01", "R6", "TERM", "the path starts at argmin_c F[0,c]+A[0,c] and the reported cost is that same state's cost", floor=2)
def r6(ctx):
    k = Kernel(ctx.ana)
    fi = k.fi
    rt = k.builder.return_term()
    if not (isinstance(rt, Tup) and len(rt.elems) == 2):
        raise AnalysisError(f"kernel does not return a pair: {str(rt)[:80]}")
    path_t, cost_t = rt.elems
    if not isinstance(path_t, Sym):
        raise AnalysisError(f"returned label sequence is not a local list: {path_t}")
    pname = path_t.name
    F, A = Sym(k.F), k.A
    row0_a = tm.add(Idx(F, (tm.ZERO, Slc())), Idx(A, (tm.ZERO, Slc())))
    row0_b = tm.add(Idx(F, (tm.ZERO,)), Idx(A, (tm.ZERO,)))
    starts = {App("numpy.argmin", (row0_a,)).key: App("numpy.argmin", (row0_a,)), App("numpy.argmin", (row0_b,)).key: App("numpy.argmin", (row0_b,))}
    first = [s for s in k.stores if s.base_name == pname and s.idx == (tm.ZERO,)]
    if len(first) != 1:
        ctx.fail(fi, f"`{pname}[0]` is not assigned exactly once", role="start:store", found=f"{len(first)} stores")
        return
    s0 = first[0]
    ctx.check(s0.value.key in starts and not s0.loops, fi, "path[0] = argmin_c (F[0,c] + A[0,c])", line=s0.stmt.lineno, role="start:state",
              expected=f"numpy.argmin({row0_a})", found=str(s0.value))
    # reported cost: F[0,s] + A[0,s] with the same s
    sub = tm.substitute(cost_t, {Idx(Sym(pname), (tm.ZERO,)).key: s0.value})
    s = s0.value
    want = tm.add(Idx(F, (tm.ZERO, s)), Idx(A, (tm.ZERO, s)))
    ctx.check(sub == want, fi, "reported cost is F[0,s] + A[0,s] for the start state s of the returned path", role="start:cost",
              expected=str(want), found=str(sub))


@rule("C01", "R7", "TERM", "read-out follows the back-pointers: path[i+1] = P[i, path[i]] for i = 0..T-2", floor=2)
def r7(ctx):
    k = Kernel(ctx.ana)
    fi = k.fi
    rt = k.builder.return_term()
    if not (isinstance(rt, Tup) and len(rt.elems) == 2 and isinstance(rt.elems[0], Sym)):
        raise AnalysisError(f"kernel does not return a (path, cost) pair on a single path: {str(rt)[:80]}")
    path_t = rt.elems[0]
    pname = path_t.name
    steps = [s for s in k.stores if s.base_name == pname and s.idx != (tm.ZERO,)]
    if len(steps) != 1 or len(steps[0].loops) != 1:
        ctx.fail(fi, "read-out is not a single store inside one loop", role="readout:shape", found=f"{len(steps)} store(s)")
        return
    s = steps[0]
    lp = s.loops[0]
    j = Sym(lp.target.id) if isinstance(lp.target, ast.Name) else None
    rng = k.builder.loop_range(lp)
    # the store is path[f(j)] = P[g(j), path[g(j)]] with f = g + 1; g must sweep 0, 1, ..., T-2 in ascending order
    v = s.value
    ok_shape = j is not None and isinstance(v, Idx) and v.base == Sym(k.P) and len(v.idx) == 2 and len(s.idx) == 1 \
        and v.idx[1] == Idx(Sym(pname), (v.idx[0],))
    g = v.idx[0] if ok_shape else None
    ok_step = ok_shape and tm.add(s.idx[0], tm.neg(g)) == tm.ONE
    ctx.check(bool(ok_step), fi, "path[i+1] = P[i, path[i]]", line=s.stmt.lineno, role="readout:step",
              expected=f"{pname}[g+1] = {k.P}[g, {pname}[g]]", found=f"{pname}[{s.idx[0]}] = {s.value}")
    ok_rng = False
    if ok_shape and rng is not None and rng.step == tm.ONE:
        off = tm.add(g, tm.neg(j))
        if isinstance(off, Poly) and off.const_value() is not None:
            first = tm.add(rng.lo, off)
            last = tm.add(tm.add(rng.hi, -1), off)
            ok_rng = first == tm.ZERO and last == tm.add(k.T, -2)
    ctx.check(ok_rng, fi, "the read-out visits i = 0, 1, ..., T-2 in ascending order", line=lp.lineno, role="readout:range",
              expected=f"i over range(0, {tm.add(k.T, -1)})", found=f"{j} over {rng} with row index {g}")
    # initial list has T entries so that every index 0..T-1 exists
    d = k.alloc_def(pname)
    t0 = k.builder.term(d.ast.value, d) if d is not None else None
    ok = t0 is not None and tm.length(t0) == k.T
    ctx.check(ok, fi, "the label list is allocated with T entries, all of which are overwritten", line=d.lineno if d else 0,
              role="readout:length", expected=f"length {k.T}", found=str(t0))


@rule("C01", "R8", "FLOW", "every returned label originates from argmin over K entries, from range(K), or from the back-pointer table", floor=3)
def r8(ctx):
    k = Kernel(ctx.ana)
    fi = k.fi
    rt = k.builder.return_term()
    pname = rt.elems[0].name
    P = Sym(k.P)

    def in_range(v) -> Tuple[bool, str]:
        if isinstance(v, App) and v.fn == "numpy.argmin" and len(v.args) == 1 and not v.kw:
            r = k.builder.ranks.rank(v.args[0])
            # a rank-1 row of the K-column tables
            rows = [x for x in tm.subterms(v.args[0]) if isinstance(x, Idx) and x.base in (Sym(k.F), k.A)]
            if r == 1 and rows:
                return True, "argmin over a row of K entries"
            return False, f"argmin over a value of rank {r}"
        if v == k.c:
            return k.builder.loop_range(k.inner) == Range(0, k.K), "inner loop variable in range(K)"
        if isinstance(v, Idx) and v.base == P:
            return True, "read of the back-pointer table"
        return False, "not one of {argmin over a K-row, range(K) variable, P[...]}"

    for s in [s for s in k.stores if s.base_name == k.P]:
        for _g, v in tm.pieces_of(s.value):
            ok, why = in_range(v)
            ctx.check(ok, fi, f"value stored in `{k.P}` lies in [0, K): {why}", line=s.stmt.lineno, role=f"prov:P@{_ord(k, s)}",
                      expected="argmin over K entries or the range(K) variable", found=str(v))
    for s in [s for s in k.stores if s.base_name == pname]:
        ok, why = in_range(s.value)
        ctx.check(ok, fi, f"value stored in the returned list lies in [0, K): {why}", line=s.stmt.lineno, role=f"prov:path@{_ord(k, s)}",
                  expected="argmin over K entries or a back-pointer", found=str(s.value))
    # nothing else mutates the returned list
    others = [m for m in k.builder.mutated.get(pname, []) if not isinstance(m, ast.Assign)]
    ctx.check(not others, fi, "the returned list is only written by the start and read-out stores", role="prov:no-other-writer",
              found=f"{len(others)} other mutation(s)")


@rule("C01", "R9", "FLOW", "the relabel phase hands -loglikelihood and arguments.label_switching_cost to the kernel and stores its two results", floor=4)
def r9(ctx):
    ana = ctx.ana
    k = Kernel(ana)
    caller = k.caller
    b = ana.builder(caller, no_inline=ana.known)
    call = k.call.node
    ba = bind_args(k.fi, call)
    m = Sym(caller.params[0])
    data = Sym(caller.params[1])
    cost = b.term(ba[k.fi.params[0]]) if k.fi.params[0] in ba else None
    ll = App("fast_ticc.likelihood.all_points_all_clusters_log_likelihood", (m, data))
    ctx.check(cost == tm.neg(ll), caller, "the cost table is minus the log-likelihood table of (model, data)", line=call.lineno,
              role="handover:cost", expected=str(tm.neg(ll)), found=str(cost))
    price = b.term(ba[k.fi.params[1]]) if k.fi.params[1] in ba else None
    want = Attr(Attr(m, "arguments"), "label_switching_cost")
    ctx.check(price == want, caller, "the switching cost is arguments.label_switching_cost", line=call.lineno, role="handover:price",
              expected=str(want), found=str(price))
    kc = App(k.fi.qualname, (), {k.fi.params[0]: cost, k.fi.params[1]: price}) if cost is not None and price is not None else None
    stores = {s.attr: s for s in b.stores() if s.attr in ("point_labels", "label_assignment_cost")}
    for attr, pos in (("point_labels", 0), ("label_assignment_cost", 1)):
        s = stores.get(attr)
        if s is None:
            ctx.unrecognised(caller, f"`{attr}` of the new state is not assigned by a store the rule recognises", role=f"handover:{attr}")
            continue
        v = s.value
        ok = isinstance(v, Idx) and isinstance(v.base, App) and v.base.fn == k.fi.qualname and v.idx == (tm.const(pos),)
        ctx.check(ok, caller, f"new state's `{attr}` is result #{pos} of that kernel call", line=s.stmt.lineno, role=f"handover:{attr}",
                  expected=f"kernel(...)[{pos}]", found=str(v)[:120])
        ctx.check(b.return_term() == s.base, caller, "the state that received the results is returned", role=f"handover:return:{attr}",
                  expected=str(s.base)[:80], found=str(b.return_term())[:80])
    plumb(ctx, ["label_switching_cost"], skip={("ticc_joint_labels", "label_switching_cost")})


@rule("C01", "R10", "OWN", "the kernel only reads the cost table and the switching cost it is given", evidence=True)
def r10(ctx):
    """A sweep that updates rows of the caller's table in place returns a cost that no longer belongs to the table the caller
    holds (and a second labelling of the same table differs)."""
    from .own import describe, ext_writes, ownership
    k = Kernel(ctx.ana)
    q = k.fi.qualname[len("fast_ticc."):]
    oa = ownership(ctx.ana, q)
    for p in k.fi.params:
        hits = list(ext_writes(oa, p))
        for m, objs in hits:
            ctx.fail(k.fi, f"the kernel's argument `{p}` may be modified in place at {describe(m)}", role=f"kernel-input:{p}:{m.kind}",
                     expected="tables allocated by the kernel only", found=", ".join(sorted(map(str, objs)))[:120])
        if not hits:
            ctx.ok(k.fi, f"none of the {len(oa.mutations)} mutation sites of the kernel can write `{p}`", role=f"kernel-input:{p}")
